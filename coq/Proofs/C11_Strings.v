(* C11 — lemmas about the string half of the conversion model (UTF-8 <-> UTF-16). *)
From Coq Require Import List ZArith Bool Lia.
From Verif Require Import Model.C11_JsMapping.
Import ListNotations.
Local Open Scope Z_scope.
Ltac Zify.zify_post_hook ::= Z.div_mod_to_equations.

(* ------------------------------------------------------------------ scalar values *)

Definition scalar (r : Z) : Prop := 0 <= r <= 0x10FFFF /\ ~ (0xD800 <= r <= 0xDFFF).

(* ---- bit operations as arithmetic *)
Lemma land_shiftl_low : forall a b n, 0 <= n -> 0 <= b < 2 ^ n -> Z.land (Z.shiftl a n) b = 0.
Proof.
  intros a b n Hn Hb. apply Z.bits_inj'. intros m Hm. rewrite Z.land_spec, Z.bits_0.
  destruct (Z_lt_ge_dec m n) as [Hlt|Hge].
  - rewrite Z.shiftl_spec_low by exact Hlt. reflexivity.
  - destruct (Z.eq_dec b 0) as [->|Hb0]; [rewrite Z.bits_0; apply andb_false_r|].
    rewrite (Z.bits_above_log2 b m); [apply andb_false_r | lia |].
    assert (Z.log2 b < n) by (apply Z.log2_lt_pow2; lia). lia.
Qed.

Lemma lor_add : forall a b n, 0 <= n -> 0 <= b < 2 ^ n -> Z.lor (a * 2 ^ n) b = a * 2 ^ n + b.
Proof.
  intros a b n Hn Hb. rewrite <- Z.shiftl_mul_pow2 by exact Hn.
  pose proof (land_shiftl_low a b n Hn Hb) as H.
  rewrite (Z.add_nocarry_lxor _ _ H). symmetry. apply Z.lxor_lor. exact H.
Qed.

Lemma lor_C0 : forall x, 0 <= x < 64 -> Z.lor 0xC0 x = 0xC0 + x.
Proof. intros x H. exact (lor_add 3 x 6 ltac:(lia) H). Qed.
Lemma lor_80 : forall x, 0 <= x < 64 -> Z.lor 0x80 x = 0x80 + x.
Proof. intros x H. exact (lor_add 2 x 6 ltac:(lia) H). Qed.
Lemma lor_E0 : forall x, 0 <= x < 16 -> Z.lor 0xE0 x = 0xE0 + x.
Proof. intros x H. exact (lor_add 14 x 4 ltac:(lia) H). Qed.
Lemma lor_F0 : forall x, 0 <= x < 8 -> Z.lor 0xF0 x = 0xF0 + x.
Proof. intros x H. exact (lor_add 30 x 3 ltac:(lia) H). Qed.

Lemma land_3F : forall a, Z.land a 0x3F = a mod 64.
Proof. intros a. exact (Z.land_ones a 6 ltac:(lia)). Qed.
Lemma land_1F : forall a, Z.land a 0x1F = a mod 32.
Proof. intros a. exact (Z.land_ones a 5 ltac:(lia)). Qed.
Lemma land_0F : forall a, Z.land a 0x0F = a mod 16.
Proof. intros a. exact (Z.land_ones a 4 ltac:(lia)). Qed.
Lemma land_07 : forall a, Z.land a 0x07 = a mod 8.
Proof. intros a. exact (Z.land_ones a 3 ltac:(lia)). Qed.
Lemma shiftr_6 : forall a, Z.shiftr a 6 = a / 64.
Proof. intros a. exact (Z.shiftr_div_pow2 a 6 ltac:(lia)). Qed.
Lemma shiftr_12 : forall a, Z.shiftr a 12 = a / 4096.
Proof. intros a. exact (Z.shiftr_div_pow2 a 12 ltac:(lia)). Qed.
Lemma shiftr_18 : forall a, Z.shiftr a 18 = a / 262144.
Proof. intros a. exact (Z.shiftr_div_pow2 a 18 ltac:(lia)). Qed.
Lemma shiftl_6 : forall a, Z.shiftl a 6 = a * 2 ^ 6.
Proof. intros a. exact (Z.shiftl_mul_pow2 a 6 ltac:(lia)). Qed.
Lemma shiftl_12 : forall a, Z.shiftl a 12 = a * 2 ^ 12.
Proof. intros a. exact (Z.shiftl_mul_pow2 a 12 ltac:(lia)). Qed.
Lemma shiftl_18 : forall a, Z.shiftl a 18 = a * 2 ^ 18.
Proof. intros a. exact (Z.shiftl_mul_pow2 a 18 ltac:(lia)). Qed.

Definition utf8_spec (r : Z) : ustr :=
  if r <? 0x80 then [r]
  else if r <? 0x800 then [0xC0 + r / 64; 0x80 + r mod 64]
  else if r <? 0x10000 then [0xE0 + r / 4096; 0x80 + (r / 64) mod 64; 0x80 + r mod 64]
  else [0xF0 + r / 262144; 0x80 + (r / 4096) mod 64; 0x80 + (r / 64) mod 64; 0x80 + r mod 64].

Lemma encode_rune_is_utf8 : forall r, scalar r -> encode_rune r = utf8_spec r.
Proof.
  intros r [Hr Hs]. unfold encode_rune, utf8_spec, RuneError.
  replace ((r <? 0) || (1114111 <? r) || ((55296 <=? r) && (r <=? 57343))) with false by lia.
  destruct (r <? 128) eqn:E1.
  - replace (r <=? 127) with true by lia. reflexivity.
  - replace (r <=? 127) with false by lia.
    destruct (r <? 2048) eqn:E2.
    + replace (r <=? 2047) with true by lia.
      rewrite shiftr_6, land_3F, lor_C0, lor_80 by lia. reflexivity.
    + replace (r <=? 2047) with false by lia.
      destruct (r <? 65536) eqn:E3.
      * replace (r <=? 65535) with true by lia.
        rewrite shiftr_12, shiftr_6, !land_3F, lor_E0, !lor_80 by lia. reflexivity.
      * replace (r <=? 65535) with false by lia.
        rewrite shiftr_18, shiftr_12, shiftr_6, !land_3F, lor_F0, !lor_80 by lia. reflexivity.
Qed.

Lemma decode_utf8_spec : forall r rest, scalar r ->
  decode_rune (utf8_spec r ++ rest) = (r, length (utf8_spec r)) /\ (1 <= length (utf8_spec r))%nat.
Proof.
  intros r rest [Hr Hs]. unfold utf8_spec.
  destruct (r <? 128) eqn:E1.
  - cbn [app length]. unfold decode_rune. rewrite E1. split; [reflexivity | lia].
  - destruct (r <? 2048) eqn:E2.
    + cbn [app length]. split; [|lia]. unfold decode_rune, cont_bad, RuneError.
      replace (192 + r / 64 <? 128) with false by lia.
      replace (192 + r / 64 <? 192) with false by lia.
      replace ((128 + r mod 64 <? 128) || (192 <=? 128 + r mod 64)) with false by lia.
      replace (192 + r / 64 <? 224) with true by lia.
      rewrite land_1F, land_3F, shiftl_6.
      rewrite lor_add by lia.
      replace ((192 + r / 64) mod 32 * 2 ^ 6 + (128 + r mod 64) mod 64) with r by lia.
      replace (r <=? 127) with false by lia. reflexivity.
    + destruct (r <? 65536) eqn:E3.
      * cbn [app length]. split; [|lia]. unfold decode_rune, cont_bad, RuneError.
        replace (224 + r / 4096 <? 128) with false by lia.
        replace (224 + r / 4096 <? 192) with false by lia.
        replace ((128 + r / 64 mod 64 <? 128) || (192 <=? 128 + r / 64 mod 64)) with false by lia.
        replace (224 + r / 4096 <? 224) with false by lia.
        replace ((128 + r mod 64 <? 128) || (192 <=? 128 + r mod 64)) with false by lia.
        replace (224 + r / 4096 <? 240) with true by lia.
        rewrite land_0F, !land_3F, shiftl_12, shiftl_6.
        rewrite (lor_add _ _ 12) by lia.
        replace ((224 + r / 4096) mod 16 * 2 ^ 12 + (128 + r / 64 mod 64) mod 64 * 2 ^ 6)
          with (((224 + r / 4096) mod 16 * 64 + (128 + r / 64 mod 64) mod 64) * 2 ^ 6) by lia.
        rewrite (lor_add _ _ 6) by lia.
        replace (((224 + r / 4096) mod 16 * 64 + (128 + r / 64 mod 64) mod 64) * 2 ^ 6 + (128 + r mod 64) mod 64) with r by lia.
        replace (r <=? 2047) with false by lia.
        replace ((55296 <=? r) && (r <=? 57343)) with false by lia. reflexivity.
      * cbn [app length]. split; [|lia]. unfold decode_rune, cont_bad, RuneError.
        replace (240 + r / 262144 <? 128) with false by lia.
        replace (240 + r / 262144 <? 192) with false by lia.
        replace ((128 + r / 4096 mod 64 <? 128) || (192 <=? 128 + r / 4096 mod 64)) with false by lia.
        replace (240 + r / 262144 <? 224) with false by lia.
        replace ((128 + r / 64 mod 64 <? 128) || (192 <=? 128 + r / 64 mod 64)) with false by lia.
        replace (240 + r / 262144 <? 240) with false by lia.
        replace ((128 + r mod 64 <? 128) || (192 <=? 128 + r mod 64)) with false by lia.
        replace (240 + r / 262144 <? 248) with true by lia.
        rewrite land_07, !land_3F, shiftl_18, shiftl_12, shiftl_6.
        rewrite (lor_add _ _ 18) by lia.
        replace ((240 + r / 262144) mod 8 * 2 ^ 18 + (128 + r / 4096 mod 64) mod 64 * 2 ^ 12)
          with (((240 + r / 262144) mod 8 * 64 + (128 + r / 4096 mod 64) mod 64) * 2 ^ 12) by lia.
        rewrite (lor_add _ _ 12) by lia.
        replace (((240 + r / 262144) mod 8 * 64 + (128 + r / 4096 mod 64) mod 64) * 2 ^ 12 + (128 + r / 64 mod 64) mod 64 * 2 ^ 6)
          with ((((240 + r / 262144) mod 8 * 64 + (128 + r / 4096 mod 64) mod 64) * 64 + (128 + r / 64 mod 64) mod 64) * 2 ^ 6) by lia.
        rewrite (lor_add _ _ 6) by lia.
        replace ((((240 + r / 262144) mod 8 * 64 + (128 + r / 4096 mod 64) mod 64) * 64 + (128 + r / 64 mod 64) mod 64) * 2 ^ 6 +
                 (128 + r mod 64) mod 64) with r by lia.
        replace ((r <=? 65535) || (1114111 <? r)) with false by lia. reflexivity.
Qed.

Lemma decode_encode : forall r rest, scalar r ->
  decode_rune (encode_rune r ++ rest) = (r, length (encode_rune r)) /\ (1 <= length (encode_rune r))%nat.
Proof. intros r rest Hs. rewrite (encode_rune_is_utf8 r Hs). apply decode_utf8_spec. exact Hs. Qed.

(* ------------------------------------------------------------------ the loops *)

Lemma ext_loop_skip : forall a rest, ext_loop (length a) (a ++ rest) = ext_loop 0 rest.
Proof.
  induction a as [|x a IH]; intros rest; cbn [length app].
  - reflexivity.
  - cbn [ext_loop]. apply IH.
Qed.

Lemma ext_loop_step : forall enc rest c, (1 <= length enc)%nat ->
  decode_rune (enc ++ rest) = (c, length enc) ->
  ext_loop 0 (enc ++ rest) = utf16_units c ++ ext_loop 0 rest.
Proof.
  intros enc rest c Hl Hd. destruct enc as [|a enc]; [cbn in Hl; lia|].
  change ((a :: enc) ++ rest) with (a :: (enc ++ rest)) in *.
  cbn [ext_loop]. rewrite Hd. cbn [length Nat.pred]. rewrite ext_loop_skip. reflexivity.
Qed.

Definition utf8 (rs : list Z) : ustr := flat_map encode_rune rs.
Definition utf16 (rs : list Z) : ustr := flat_map utf16_units rs.

Lemma ext_loop_utf8 : forall rs, Forall scalar rs -> ext_loop 0 (utf8 rs) = utf16 rs.
Proof.
  induction rs as [|r rs IH]; intros H; [reflexivity|].
  inversion H as [|? ? Hr Hrs]; subst. cbn [utf8 utf16 flat_map].
  destruct (decode_encode r (flat_map encode_rune rs) Hr) as [Hd Hl].
  rewrite (ext_loop_step _ _ _ Hl Hd). f_equal. apply IH. exact Hrs.
Qed.

Lemma is_high_scalar_bmp : forall r, scalar r -> r <= 0xFFFF -> is_high r = false.
Proof. intros r [H1 H2] H3. unfold is_high. lia. Qed.

Lemma int_loop_units : forall r rest, scalar r ->
  int_loop (utf16_units r ++ rest) = encode_rune r ++ int_loop rest.
Proof.
  intros r rest Hs. unfold utf16_units.
  destruct (0xFFFF <? r) eqn:E.
  - apply Z.ltb_lt in E. destruct Hs as [Hr _].
    cbn [app int_loop].
    assert (Hh : is_high ((r - 0x10000) / 0x400 + 0xD800) = true) by (unfold is_high; lia).
    assert (Hlo : is_low ((r - 0x10000) mod 0x400 + 0xDC00) = true) by (unfold is_low; lia).
    rewrite Hh, Hlo. f_equal. f_equal. lia.
  - apply Z.ltb_ge in E. cbn [app int_loop]. rewrite (is_high_scalar_bmp r Hs E). reflexivity.
Qed.

Lemma int_loop_utf16 : forall rs, Forall scalar rs -> int_loop (utf16 rs) = utf8 rs.
Proof.
  induction rs as [|r rs IH]; intros H; [reflexivity|].
  inversion H as [|? ? Hr Hrs]; subst. cbn [utf8 utf16 flat_map].
  rewrite int_loop_units by exact Hr. f_equal. apply IH. exact Hrs.
Qed.

(* the $isASCII shortcut returns what the loop would have produced *)
Lemma ext_loop_ascii : forall s, is_ascii s = true -> ext_loop 0 s = s.
Proof.
  induction s as [|c s IH]; intros H; [reflexivity|].
  cbn [is_ascii forallb] in H. apply andb_prop in H as [Hc Hs].
  cbn [ext_loop]. unfold decode_rune.
  assert (Hc' : c <? 0x80 = true) by exact Hc. rewrite Hc'.
  unfold utf16_units. apply Z.ltb_lt in Hc. replace (0xFFFF <? c) with false by lia.
  cbn [app Nat.pred]. f_equal. apply IH. exact Hs.
Qed.

Lemma ext_string_loop : forall s, ext_string s = ext_loop 0 s.
Proof. intros s. unfold ext_string. destruct (is_ascii s) eqn:E; [symmetry; apply ext_loop_ascii; exact E | reflexivity]. Qed.

Lemma int_loop_ascii : forall u, Forall (fun c => 0 <= c) u -> is_ascii u = true -> int_loop u = u.
Proof.
  induction u as [|c u IH]; intros Hn H; [reflexivity|].
  inversion Hn as [|? ? Hc0 Hn']; subst.
  cbn [is_ascii forallb] in H. apply andb_prop in H as [Hc Hs]. apply Z.ltb_lt in Hc.
  cbn [int_loop]. replace (is_high c) with false by (unfold is_high; lia).
  unfold encode_rune.
  replace ((c <? 0) || (1114111 <? c) || ((55296 <=? c) && (c <=? 57343))) with false by lia.
  replace (c <=? 127) with true by lia. cbn [app]. f_equal. apply IH; assumption.
Qed.

Lemma int_string_loop : forall u, Forall (fun c => 0 <= c) u -> int_string u = int_loop u.
Proof.
  intros u Hn. unfold int_string. destruct (is_ascii u) eqn:E; [symmetry; apply int_loop_ascii; assumption | reflexivity].
Qed.

Lemma utf16_units_nonneg : forall r, scalar r -> Forall (fun c => 0 <= c) (utf16_units r).
Proof.
  intros r [Hr _]. unfold utf16_units. destruct (0xFFFF <? r) eqn:E.
  - apply Z.ltb_lt in E. repeat constructor; lia.
  - repeat constructor; lia.
Qed.

Lemma utf16_nonneg : forall rs, Forall scalar rs -> Forall (fun c => 0 <= c) (utf16 rs).
Proof.
  induction rs as [|r rs IH]; intros H; [constructor|].
  inversion H; subst. cbn [utf16 flat_map]. apply Forall_app. split; [apply utf16_units_nonneg; assumption | apply IH; assumption].
Qed.

Lemma encode_rune_nonneg : forall r, scalar r -> Forall (fun c => 0 <= c) (encode_rune r).
Proof.
  intros r Hs. rewrite (encode_rune_is_utf8 r Hs). destruct Hs as [Hr _]. unfold utf8_spec.
  repeat match goal with |- context [if ?c then _ else _] => destruct c end; repeat constructor; lia.
Qed.

Lemma utf8_nonneg : forall rs, Forall scalar rs -> Forall (fun c => 0 <= c) (utf8 rs).
Proof.
  induction rs as [|r rs IH]; intros H; [constructor|].
  inversion H; subst. cbn [utf8 flat_map]. apply Forall_app. split; [apply encode_rune_nonneg; assumption | apply IH; assumption].
Qed.

(* ------------------------------------------------------------------ round trips *)

Definition valid_utf8 (s : ustr) : Prop := exists rs, Forall scalar rs /\ s = utf8 rs.
Definition wellformed_utf16 (u : ustr) : Prop := exists rs, Forall scalar rs /\ u = utf16 rs.

Lemma ext_string_utf8 : forall rs, Forall scalar rs -> ext_string (utf8 rs) = utf16 rs.
Proof. intros. rewrite ext_string_loop. apply ext_loop_utf8. assumption. Qed.

Lemma int_string_utf16 : forall rs, Forall scalar rs -> int_string (utf16 rs) = utf8 rs.
Proof. intros rs H. rewrite int_string_loop by (apply utf16_nonneg; exact H). apply int_loop_utf16. exact H. Qed.

Lemma string_transcoding : forall rs, Forall scalar rs ->
  ext_string (utf8 rs) = utf16 rs /\ int_string (utf16 rs) = utf8 rs.
Proof. intros rs H. split; [exact (ext_string_utf8 rs H) | exact (int_string_utf16 rs H)]. Qed.

Lemma string_roundtrip : forall s, valid_utf8 s -> int_string (ext_string s) = s.
Proof. intros s [rs [H ->]]. rewrite ext_string_utf8 by exact H. apply int_string_utf16. exact H. Qed.

Lemma utf16_roundtrip : forall u, wellformed_utf16 u -> ext_string (int_string u) = u.
Proof. intros u [rs [H ->]]. rewrite int_string_utf16 by exact H. apply ext_string_utf8. exact H. Qed.

(* Go string -> JS string is the documented transcoding, and JS -> Go likewise *)
Lemma ext_string_valid : forall s, valid_utf8 s -> wellformed_utf16 (ext_string s).
Proof. intros s [rs [H ->]]. exists rs. split; [exact H | apply ext_string_utf8; exact H]. Qed.

Lemma int_string_wellformed : forall u, wellformed_utf16 u -> valid_utf8 (int_string u).
Proof. intros u [rs [H ->]]. exists rs. split; [exact H | apply int_string_utf16; exact H]. Qed.

(* ------------------------------------------------------------------ degradation of invalid input *)

(* a byte that cannot start a sequence becomes U+FFFD and decoding resumes at the next byte *)
Lemma ext_invalid_lead : forall c rest, (0x80 <= c < 0xC0 \/ 0xF8 <= c) ->
  ext_loop 0 (c :: rest) = 0xFFFD :: ext_loop 0 rest.
Proof.
  intros c rest H. cbn [ext_loop]. unfold decode_rune.
  destruct H as [H|H].
  - replace (c <? 128) with false by lia. replace (c <? 192) with true by lia. reflexivity.
  - replace (c <? 128) with false by lia. replace (c <? 192) with false by lia.
    destruct rest as [|c1 t1]; [reflexivity|].
    destruct (cont_bad c1); [reflexivity|].
    replace (c <? 224) with false by lia.
    destruct t1 as [|c2 t2]; [reflexivity|].
    destruct (cont_bad c2); [reflexivity|].
    replace (c <? 240) with false by lia.
    destruct t2 as [|c3 t3]; [reflexivity|].
    destruct (cont_bad c3); [reflexivity|].
    replace (c <? 248) with false by lia. reflexivity.
Qed.

(* a lead byte whose continuation is missing or wrong becomes U+FFFD, the following byte is decoded on its own *)
Lemma ext_truncated : forall c c1 rest, 0xC0 <= c -> cont_bad c1 = true ->
  ext_loop 0 (c :: c1 :: rest) = 0xFFFD :: ext_loop 0 (c1 :: rest).
Proof.
  intros c c1 rest H Hb. cbn [ext_loop]. unfold decode_rune.
  replace (c <? 128) with false by lia. replace (c <? 192) with false by lia. rewrite Hb. reflexivity.
Qed.

Definition fffd_utf8 : ustr := [0xEF; 0xBF; 0xBD].

Lemma encode_fffd : encode_rune 0xFFFD = fffd_utf8.
Proof. reflexivity. Qed.

(* a lone LOW surrogate becomes U+FFFD *)
Lemma int_lone_low : forall h rest, 0xDC00 <= h <= 0xDFFF ->
  int_loop (h :: rest) = fffd_utf8 ++ int_loop rest.
Proof.
  intros h rest H. cbn [int_loop]. replace (is_high h) with false by (unfold is_high; lia).
  f_equal. unfold encode_rune.
  replace ((h <? 0) || (1114111 <? h) || ((55296 <=? h) && (h <=? 57343))) with true by lia. reflexivity.
Qed.

(* an unpaired HIGH surrogate becomes U+FFFD as well *)
Lemma encode_surrogate : forall h, 0xD800 <= h <= 0xDFFF -> encode_rune h = fffd_utf8.
Proof.
  intros h H. unfold encode_rune.
  replace ((h <? 0) || (1114111 <? h) || ((55296 <=? h) && (h <=? 57343))) with true by lia. reflexivity.
Qed.

(* Go's unicode/utf16.Decode: the reference for ill-formed input *)
Fixpoint utf16_decode (u : ustr) : list Z :=
  match u with
  | [] => []
  | h :: t =>
    if is_high h then
      match t with
      | l :: t' => if is_low l then ((h - 0xD800) * 0x400 + (l - 0xDC00) + 0x10000) :: utf16_decode t'
                   else 0xFFFD :: utf16_decode t
      | [] => [0xFFFD]
      end
    else if is_low h then 0xFFFD :: utf16_decode t
    else h :: utf16_decode t
  end.

Lemma int_loop_decode_strong : forall n u, (length u <= n)%nat ->
  int_loop u = utf8 (utf16_decode u).
Proof.
  induction n as [|n IH]; intros u Hl.
  - destruct u; [reflexivity | cbn in Hl; lia].
  - destruct u as [|h t]; [reflexivity|].
    cbn [int_loop utf16_decode].
    destruct (is_high h) eqn:Eh.
    + destruct t as [|l t'].
      * cbn [utf8 flat_map]. rewrite app_nil_r. unfold is_high in Eh. rewrite encode_surrogate by lia. reflexivity.
      * destruct (is_low l) eqn:El.
        -- cbn [utf8 flat_map]. f_equal; [f_equal; lia|]. apply IH. cbn in Hl. lia.
        -- cbn [utf8 flat_map]. f_equal.
           ++ unfold is_high in Eh. rewrite encode_surrogate by lia. reflexivity.
           ++ apply IH. cbn in Hl. cbn. lia.
    + destruct (is_low h) eqn:El.
      * cbn [utf8 flat_map]. f_equal.
        -- unfold is_low in El. rewrite encode_surrogate by lia. reflexivity.
        -- apply IH. cbn in Hl. lia.
      * cbn [utf8 flat_map]. f_equal. apply IH. cbn in Hl. lia.
Qed.

(* every JS string (any sequence of code units) converts like utf16.Decode followed by UTF-8 encoding *)
Lemma int_string_degrades : forall u, Forall (fun c => 0 <= c) u ->
  int_string u = utf8 (utf16_decode u).
Proof.
  intros u Hu. rewrite int_string_loop by exact Hu. apply (int_loop_decode_strong (length u)). lia.
Qed.
