(* C18 — lemmas about the model of build-constraint based file selection
   (Model/C18_Build.v) over the regenerated tables (Gen/C18_BuildEnv.v). *)
From Coq Require Import List String Ascii Bool Arith Lia.
From Coq Require DecimalString DecimalNat.
From Verif Require Import Gen.C18_BuildEnv Model.C18_Build.
Import ListNotations.
Local Open Scope string_scope.

(* ====================================================================== *)
(* 1. small facts                                                         *)
(* ====================================================================== *)

Lemma mem_In : forall x l, mem x l = true <-> In x l.
Proof.
  intros x l. unfold mem. rewrite existsb_exists. split.
  - intros [y [Hy He]]. apply String.eqb_eq in He. subst. exact Hy.
  - intros H. exists x. split; [exact H | apply String.eqb_refl].
Qed.

Lemma mem_false : forall x l, mem x l = false <-> ~ In x l.
Proof.
  intros x l. rewrite <- mem_In. destruct (mem x l); split; intros; congruence.
Qed.

Lemma mem_app : forall x a b, mem x (a ++ b)%list = mem x a || mem x b.
Proof. intros. unfold mem. apply existsb_app. Qed.

Lemma forallb_ext_in' : forall {A} (f g : A -> bool) l,
  (forall x, In x l -> f x = g x) -> forallb f l = forallb g l.
Proof.
  intros A f g l. induction l as [|a l IH]; intros H; [reflexivity|]. cbn [forallb].
  rewrite (H a (or_introl eq_refl)), IH; [reflexivity|]. intros x Ix. apply H. right. exact Ix.
Qed.

(* ---- release tags ---------------------------------------------------- *)

Lemma go_tag_shape : forall k, exists r, go_tag k = String "g" (String "o" (String "1" (String "." r))).
Proof. intros k. unfold go_tag. eexists. reflexivity. Qed.

Lemma go_tag_inj : forall a b, go_tag a = go_tag b -> a = b.
Proof.
  intros a b H. unfold go_tag in H. cbn in H. injection H as H.
  assert (Hu : Nat.to_uint a = Nat.to_uint b).
  { assert (Some (Nat.to_uint a) = Some (Nat.to_uint b)) as E.
    { rewrite <- (DecimalString.NilEmpty.usu (Nat.to_uint a)), <- (DecimalString.NilEmpty.usu (Nat.to_uint b)), H. reflexivity. }
    congruence. }
  rewrite <- (DecimalNat.Unsigned.of_to a), <- (DecimalNat.Unsigned.of_to b), Hu. reflexivity.
Qed.

Lemma In_release : forall t n, In t (map go_tag (seq 1 n)) <-> exists k, 1 <= k <= n /\ t = go_tag k.
Proof.
  intros t n. rewrite in_map_iff. split.
  - intros [k [E I]]. apply in_seq in I. exists k. split; [lia | congruence].
  - intros [k [I E]]. exists k. split; [congruence | apply in_seq; lia].
Qed.

Lemma firstn_map_seq : forall {A} (f : nat -> A) n m s, n <= m -> firstn n (map f (seq s m)) = map f (seq s n).
Proof.
  intros A f n. induction n as [|n IH]; intros m s H; [reflexivity|].
  destruct m as [|m]; [lia|]. cbn. f_equal. apply IH. lia.
Qed.

(* build.Default.ReleaseTags[:n] of a toolchain Go 1.m, m >= n, is go1.1 .. go1.n *)
Lemma slice_release : forall n m, n <= m ->
  slice (toolchain_release_tags m) 0 n = Some (map go_tag (seq 1 n)).
Proof.
  intros n m H. unfold slice, toolchain_release_tags.
  rewrite map_length, seq_length.
  replace (Nat.leb 0 n) with true by (symmetry; apply Nat.leb_le; lia).
  replace (Nat.leb n m) with true by (symmetry; apply Nat.leb_le; lia).
  cbn [andb skipn]. rewrite Nat.sub_0_r. f_equal. apply firstn_map_seq. exact H.
Qed.

(* ---- matchTag in an environment without special cases ----------------- *)

Definition plain_env (e : env) : Prop :=
  e_cgo e = false /\ (e_goos e =? "android") = false /\ (e_goos e =? "illumos") = false /\
  (e_goos e =? "ios") = false /\ mem (e_goos e) unix_os = false.

Definition alias (t : string) : string :=
  if t =? "boringcrypto" then "goexperiment.boringcrypto" else t.

Lemma match_tag_plain : forall e t, plain_env e ->
  (match_tag e t = true <->
   t = e_goos e \/ t = e_goarch e \/ t = e_compiler e \/
   In (alias t) (e_build_tags e) \/ In (alias t) (e_tool_tags e) \/ In (alias t) (e_release_tags e)).
Proof.
  intros e t (Hc & Ha & Hi & Ho & Hu). unfold match_tag, alias.
  rewrite Hc, Ha, Hi, Ho, Hu. cbn [andb].
  rewrite andb_false_r.
  destruct (t =? e_goos e) eqn:E1; [apply String.eqb_eq in E1; cbn; tauto|].
  destruct (t =? e_goarch e) eqn:E2; [apply String.eqb_eq in E2; cbn; tauto|].
  destruct (t =? e_compiler e) eqn:E3; [apply String.eqb_eq in E3; cbn; tauto|].
  apply String.eqb_neq in E1, E2, E3. cbn [orb].
  rewrite !orb_true_iff, !mem_In. tauto.
Qed.

(* ====================================================================== *)
(* 2. the tag environment of NewBuildContext is the documented one        *)
(* ====================================================================== *)

(* the process environment does not set GOOS / GOARCH *)
Definition default_cfg (user : list string) (m : nat) : config :=
  {| c_env_goos := ""; c_env_goarch := ""; c_user_tags := user; c_toolchain := m |}.

(* the environment a file of a user package / std package is matched against *)
Definition file_env (user : list string) (std : bool) (m : nat) : option env :=
  match go_ctx (default_cfg user m) with
  | Some e => Some (preload e std)
  | None => None
  end.

Definition sat (user : list string) (std : bool) (m : nat) (t : string) : bool :=
  match file_env user std m with
  | Some e => match_tag e t
  | None => false
  end.

(* --- the documented environment, written from the property text ------- *)

(* the supported Go release as documented: N of "+go1.N.p" in compiler.Version
   (doc/compatibility.md, versioning schema) = the release named in README.md *)
Definition doc_N : nat := doc_version_minor.

Definition doc_tags (user : list string) (std : bool) (t : string) : Prop :=
  t = "js" \/ t = (if std then "wasm" else "ecmascript") \/ t = "gc" \/
  t = "gopherjs" \/ t = "netgo" \/ t = "purego" \/ t = "math_big_pure_go" \/
  (exists k, 1 <= k <= doc_N /\ t = go_tag k) \/
  In t user.

(* facts read off the regenerated tables; each is closed by computation and
   is exactly what breaks when the corresponding source line changes *)
Lemma gen_default_goos : default_goos = "js". Proof. reflexivity. Qed.
Lemma gen_default_goarch : default_goarch = "ecmascript". Proof. reflexivity. Qed.
Lemma gen_std_goos : std_goos = Some "js". Proof. reflexivity. Qed.
Lemma gen_std_goarch : std_goarch = Some "wasm". Proof. reflexivity. Qed.
Lemma gen_compiler : compiler = "gc". Proof. reflexivity. Qed.
Lemma gen_cgo : cgo_enabled = false. Proof. reflexivity. Qed.
Lemma gen_tool_tags : tool_tags = []. Proof. reflexivity. Qed.
Lemma gen_tags_used : user_tags_used = true /\ default_tags_used = true. Proof. split; reflexivity. Qed.
(* the truncation is exactly [:GoVersion] ... *)
Lemma gen_release_truncated : release_truncated = true /\ hack_truncated = true. Proof. split; reflexivity. Qed.
Lemma gen_release_slice : release_lo = 0 /\ release_hi = go_version. Proof. split; reflexivity. Qed.
(* ... go/build is told the same default (versionhack) ... *)
Lemma gen_hack_slice : hack_lo = release_lo /\ hack_hi = release_hi. Proof. split; reflexivity. Qed.
(* ... and GoVersion is the documented release (Version string and README agree) *)
Lemma gen_version_documented : go_version = doc_N /\ doc_version_minor = doc_readme_minor.
Proof. split; reflexivity. Qed.
(* the compiler cannot even be built by an older toolchain *)
Lemma gen_guard : guard_minor = go_version. Proof. reflexivity. Qed.

Lemma gen_default_build_tags : forall t,
  In t default_build_tags <-> t = "gopherjs" \/ t = "netgo" \/ t = "purego" \/ t = "math_big_pure_go".
Proof.
  intros t. unfold default_build_tags. cbn [In]. split.
  - intros H. repeat (destruct H as [H|H]; [subst; tauto|]). contradiction.
  - intros H. repeat (destruct H as [H|H]; [subst; tauto|]). subst. tauto.
Qed.

Lemma js_is_plain : (("js" =? "android") = false /\ ("js" =? "illumos") = false /\ ("js" =? "ios") = false) /\
                    mem "js" unix_os = false.
Proof. split; [repeat split|]; vm_compute; reflexivity. Qed.

Lemma file_env_some : forall user std m, go_version <= m ->
  file_env user std m =
  Some {| e_goos := "js"; e_goarch := if std then "wasm" else "ecmascript";
          e_compiler := "gc"; e_cgo := false;
          e_build_tags := (user ++ default_build_tags)%list; e_tool_tags := [];
          e_release_tags := map go_tag (seq 1 go_version) |}.
Proof.
  intros user std m H. unfold file_env, go_ctx, default_cfg. cbn [c_toolchain c_user_tags].
  destruct gen_release_truncated as [-> _].
  destruct gen_release_slice as [-> ->]. rewrite (slice_release _ _ H).
  unfold env_goos, env_goarch. cbn [c_env_goos c_env_goarch].
  destruct gen_tags_used as [-> ->].
  rewrite gen_default_goos, gen_default_goarch, gen_compiler, gen_cgo, gen_tool_tags.
  unfold preload. rewrite gen_std_goos, gen_std_goarch.
  destruct std; reflexivity.
Qed.

Lemma file_env_plain : forall user std m e, go_version <= m -> file_env user std m = Some e -> plain_env e.
Proof.
  intros user std m e H E. rewrite (file_env_some _ _ _ H) in E. injection E as <-.
  unfold plain_env. cbn. destruct js_is_plain as [[A [B C]] D]. repeat split; assumption.
Qed.

(* which tags are satisfied, exactly — including the go/build alias *)
Lemma sat_char : forall user std m t, go_version <= m ->
  (sat user std m t = true <->
   t = "js" \/ t = (if std then "wasm" else "ecmascript") \/ t = "gc" \/
   In (alias t) user \/ In (alias t) default_build_tags \/
   (exists k, 1 <= k <= go_version /\ alias t = go_tag k)).
Proof.
  intros user std m t H. unfold sat.
  pose proof (file_env_plain user std m _ H (file_env_some user std m H)) as P.
  rewrite (file_env_some _ _ _ H).
  rewrite (match_tag_plain _ t P). cbn [e_goos e_goarch e_compiler e_build_tags e_tool_tags e_release_tags].
  rewrite in_app_iff, In_release. cbn [In]. tauto.
Qed.

Lemma alias_id : forall t, t <> "boringcrypto" -> alias t = t.
Proof. intros t H. unfold alias. apply String.eqb_neq in H. rewrite H. reflexivity. Qed.

Theorem env_is_documented : forall user std m t,
  doc_N <= m -> t <> "boringcrypto" ->
  (sat user std m t = true <-> doc_tags user std t).
Proof.
  intros user std m t Hm Hb. destruct gen_version_documented as [Hv _]. rewrite <- Hv in Hm.
  rewrite (sat_char _ _ _ _ Hm), (alias_id _ Hb), gen_default_build_tags.
  unfold doc_tags. rewrite <- Hv. tauto.
Qed.

(* the clause that does NOT hold: a user tag named boringcrypto is not
   consulted under that name (go/build rewrites it before the lookup) *)
Theorem boringcrypto_alias : forall user std m, doc_N <= m ->
  (sat user std m "boringcrypto" = true <-> In "goexperiment.boringcrypto" user).
Proof.
  intros user std m Hm. destruct gen_version_documented as [Hv _]. rewrite <- Hv in Hm.
  rewrite (sat_char _ _ _ _ Hm). change (alias "boringcrypto") with "goexperiment.boringcrypto".
  rewrite gen_default_build_tags. split.
  - intros [H|[H|[H|[H|[H|H]]]]]; try discriminate; try assumption.
    + destruct std; discriminate.
    + destruct H as [H|[H|[H|H]]]; discriminate.
    + destruct H as [k [_ E]]. destruct (go_tag_shape k) as [r Er]. rewrite Er in E. discriminate.
  - tauto.
Qed.

Theorem env_is_documented_all_tags_refuted :
  ~ (forall user std m t, doc_N <= m -> (sat user std m t = true <-> doc_tags user std t)).
Proof.
  intros H. specialize (H ["boringcrypto"] false doc_N "boringcrypto" (le_n _)).
  assert (doc_tags ["boringcrypto"] false "boringcrypto") as D.
  { unfold doc_tags. do 8 right. left. reflexivity. }
  apply H in D. apply (boringcrypto_alias ["boringcrypto"] false doc_N (le_n _)) in D.
  destruct D as [D|D]; [discriminate | contradiction].
Qed.

(* release tags: go1.k is satisfied exactly for 1 <= k <= N *)
Lemma go_tag_not_fixed : forall k,
  go_tag k <> "js" /\ go_tag k <> "wasm" /\ go_tag k <> "ecmascript" /\ go_tag k <> "gc" /\
  go_tag k <> "gopherjs" /\ go_tag k <> "netgo" /\ go_tag k <> "purego" /\
  go_tag k <> "math_big_pure_go" /\ go_tag k <> "boringcrypto".
Proof.
  intros k. destruct (go_tag_shape k) as [r ->]. repeat split; discriminate.
Qed.

Theorem release_tag_iff : forall user std m k,
  doc_N <= m -> ~ In (go_tag k) user ->
  (sat user std m (go_tag k) = true <-> 1 <= k <= doc_N).
Proof.
  intros user std m k Hm Hu.
  destruct (go_tag_not_fixed k) as (A1 & A2 & A3 & A4 & A5 & A6 & A7 & A8 & A9).
  rewrite (env_is_documented _ _ _ _ Hm A9). unfold doc_tags. split.
  - intros [H|[H|[H|[H|[H|[H|[H|[H|H]]]]]]]]; try contradiction.
    + destruct std; contradiction.
    + destruct H as [j [Hj E]]. apply go_tag_inj in E. subst. exact Hj.
  - intros H. do 7 right. left. exists k. split; [exact H | reflexivity].
Qed.

(* ====================================================================== *)
(* 3. constraint evaluation against a propositional tag valuation          *)
(* ====================================================================== *)

Fixpoint tags_of (x : cexpr) : list string :=
  match x with
  | Tag t => [t]
  | Not a => tags_of a
  | And a b | Or a b => (tags_of a ++ tags_of b)%list
  end.

(* truth of a constraint under a valuation of the tags (the specification) *)
Fixpoint holds (P : string -> Prop) (x : cexpr) : Prop :=
  match x with
  | Tag t => P t
  | Not a => ~ holds P a
  | And a b => holds P a /\ holds P b
  | Or a b => holds P a \/ holds P b
  end.

Lemma eval_holds : forall (s : string -> bool) (P : string -> Prop) x,
  (forall t, In t (tags_of x) -> (s t = true <-> P t)) ->
  (eval s x = true <-> holds P x).
Proof.
  intros s P x. induction x as [t|a IHa|a IHa b IHb|a IHa b IHb]; intros H; cbn [eval holds tags_of] in *.
  - apply H. left. reflexivity.
  - rewrite negb_true_iff. rewrite <- (IHa H). destruct (eval s a); split; intros; congruence.
  - rewrite andb_true_iff, IHa, IHb; [tauto| |]; intros; apply H; apply in_or_app; tauto.
  - rewrite orb_true_iff, IHa, IHb; [tauto| |]; intros; apply H; apply in_or_app; tauto.
Qed.

Lemma eval_ext : forall (s s' : string -> bool) x,
  (forall t, In t (tags_of x) -> s t = s' t) -> eval s x = eval s' x.
Proof.
  intros s s' x. induction x as [t|a IHa|a IHa b IHb|a IHa b IHb]; intros H; cbn [eval tags_of] in *.
  - apply H. left. reflexivity.
  - rewrite IHa; auto.
  - rewrite IHa, IHb; auto; intros; apply H; apply in_or_app; tauto.
  - rewrite IHa, IHb; auto; intros; apply H; apply in_or_app; tauto.
Qed.

(* legacy lines *)
Definition pline_tags (l : pline) : list string :=
  match l with
  | [] => ["ignore"]
  | _ => flat_map (fun opt => map snd opt) l
  end.

Definition pterm_holds (P : string -> Prop) (t : pterm) : Prop :=
  if fst t then ~ P (snd t) else P (snd t).

Definition pline_holds (P : string -> Prop) (l : pline) : Prop :=
  match l with
  | [] => P "ignore"
  | _ => Exists (fun opt => Forall (pterm_holds P) opt) l
  end.

Lemma pterm_ok_holds : forall s P (t : pterm), (s (snd t) = true <-> P (snd t)) ->
  (pterm_ok s t = true <-> pterm_holds P t).
Proof.
  intros s P [n t] H. unfold pterm_ok, pterm_holds. cbn [fst snd] in *. destruct n.
  - rewrite negb_true_iff. rewrite <- H. destruct (s t); split; intros; congruence.
  - exact H.
Qed.

Lemma pline_ok_holds : forall s P l,
  (forall t, In t (pline_tags l) -> (s t = true <-> P t)) ->
  (pline_ok s l = true <-> pline_holds P l).
Proof.
  intros s P l H. destruct l as [|o l].
  - cbn. apply H. left. reflexivity.
  - unfold pline_ok, pline_holds. set (L := o :: l) in *.
    assert (HL : forall t, In t (flat_map (fun opt => map snd opt) L) -> (s t = true <-> P t)) by exact H.
    clearbody L. clear H. rewrite existsb_exists, Exists_exists.
    split; intros [opt [I F]]; exists opt; (split; [exact I|]).
    + rewrite forallb_forall in F. apply Forall_forall. intros t It. apply (pterm_ok_holds s P t).
      * apply HL. apply in_flat_map. exists opt. split; [exact I | apply in_map; exact It].
      * apply F. exact It.
    + rewrite Forall_forall in F. apply forallb_forall. intros t It. apply (pterm_ok_holds s P t).
      * apply HL. apply in_flat_map. exists opt. split; [exact I | apply in_map; exact It].
      * apply F. exact It.
Qed.

Lemma pterm_ok_ext : forall s s' (t : pterm), s (snd t) = s' (snd t) -> pterm_ok s t = pterm_ok s' t.
Proof. intros s s' [n t] H. unfold pterm_ok. cbn [fst snd] in *. rewrite H. reflexivity. Qed.

Lemma pline_ok_ext : forall s s' l,
  (forall t, In t (pline_tags l) -> s t = s' t) -> pline_ok s l = pline_ok s' l.
Proof.
  intros s s' l H. destruct l as [|o l].
  - cbn. apply H. left. reflexivity.
  - unfold pline_ok. set (L := o :: l) in *.
    assert (HL : forall t, In t (flat_map (fun opt => map snd opt) L) -> s t = s' t) by exact H.
    clearbody L. clear H. induction L as [|opt L IH]; [reflexivity|].
    cbn [existsb]. f_equal.
    + clear IH. assert (Ho : forall t, In t (map snd opt) -> s t = s' t).
      { intros t It. apply HL. cbn [flat_map]. apply in_or_app. left. exact It. }
      clear HL. induction opt as [|t opt IHo]; [reflexivity|]. cbn [forallb]. f_equal.
      * apply pterm_ok_ext. apply Ho. left. reflexivity.
      * apply IHo. intros u Iu. apply Ho. right. exact Iu.
    + apply IH. intros t It. apply HL. cbn [flat_map]. apply in_or_app. right. exact It.
Qed.

(* ---- the tags a file mentions ---------------------------------------- *)

Definition constraint_tags (f : file) : list string :=
  match f_gobuild f with
  | Some x => tags_of x
  | None => if f_detached f then flat_map pline_tags (f_plus f) else []
  end.

Definition mentioned (f : file) : list string := (name_tags (f_name f) ++ constraint_tags f)%list.

(* the constraint of a file under a valuation: a //go:build line controls;
   otherwise every // +build line of a detached leading block must hold *)
Definition constraint_holds (P : string -> Prop) (f : file) : Prop :=
  match f_gobuild f with
  | Some x => holds P x
  | None => if f_detached f then Forall (pline_holds P) (f_plus f) else True
  end.

Lemma should_build_holds : forall e P f,
  (forall t, In t (constraint_tags f) -> (match_tag e t = true <-> P t)) ->
  (should_build e f = true <-> constraint_holds P f).
Proof.
  intros e P f. unfold should_build, constraint_holds, constraint_tags.
  destruct (f_gobuild f) as [x|]; [apply eval_holds|].
  destruct (f_detached f); [|tauto].
  intros H. rewrite forallb_forall, Forall_forall. split; intros F l Il.
  - apply (pline_ok_holds (match_tag e) P l); [|apply F; exact Il].
    intros t It. apply H. apply in_flat_map. exists l. tauto.
  - apply (pline_ok_holds (match_tag e) P l); [|apply F; exact Il].
    intros t It. apply H. apply in_flat_map. exists l. tauto.
Qed.

Lemma should_build_ext : forall e e' f,
  (forall t, In t (constraint_tags f) -> match_tag e t = match_tag e' t) ->
  should_build e f = should_build e' f.
Proof.
  intros e e' f. unfold should_build, constraint_tags.
  destruct (f_gobuild f) as [x|]; [apply eval_ext|].
  destruct (f_detached f); [|reflexivity].
  intros H. induction (f_plus f) as [|l ls IH]; [reflexivity|]. cbn [forallb]. f_equal.
  - apply pline_ok_ext. intros t It. apply H. cbn [flat_map]. apply in_or_app. left. exact It.
  - apply IH. intros t It. apply H. cbn [flat_map]. apply in_or_app. right. exact It.
Qed.

(* ====================================================================== *)
(* 4. selection of one file                                               *)
(* ====================================================================== *)

(* the conditions, each on its own *)
Definition selectable_name (name : string) : Prop :=
  hidden name = false /\ ext_of name = ".go" /\ is_test_name name = false.

Lemma classify_go_iff : forall e f,
  classify e f = CGo <->
  f_isdir f = false /\ selectable_name (f_name f) /\
  good_os_arch_file e (f_name f) = true /\ should_build e f = true /\
  f_pkg f <> PkgDoc /\ f_cgo f = false.
Proof.
  intros e f. unfold classify, selectable_name.
  destruct (f_isdir f); [split; [discriminate | intros (H & _); discriminate]|].
  destruct (hidden (f_name f)); [split; [discriminate | intros (_ & (H & _) & _); discriminate]|].
  destruct (ext_of (f_name f) =? ".go") eqn:Ee.
  2:{ apply String.eqb_neq in Ee. cbn [negb]. split.
      - destruct (mem (ext_of (f_name f)) other_exts); discriminate.
      - intros (_ & (_ & H & _) & _). contradiction. }
  apply String.eqb_eq in Ee. cbn [negb].
  destruct (good_os_arch_file e (f_name f)); cbn [negb]; [|split; [discriminate | intros (_ & _ & H & _); discriminate]].
  destruct (should_build e f); cbn [negb]; [|split; [discriminate | intros (_ & _ & _ & H & _); discriminate]].
  destruct (f_pkg f) eqn:Ep; destruct (f_cgo f) eqn:Ec; destruct (is_test_name (f_name f)) eqn:Et; destruct (e_cgo e);
    split; try discriminate; try (intros; repeat split; (reflexivity || assumption || discriminate));
    try (intros (_ & (_ & _ & H) & _); discriminate);
    try (intros (_ & _ & _ & _ & H & _); contradiction);
    try (intros (_ & _ & _ & _ & _ & H); discriminate).
Qed.

(* cgo files are never used: neither as Go files nor as cgo files *)
Lemma cgo_never : forall e f, e_cgo e = false -> f_cgo f = true ->
  classify e f <> CGo /\ classify e f <> CCgo /\ classify e f <> CTest /\ classify e f <> CXTest.
Proof.
  intros e f He Hf. unfold classify. rewrite He, Hf.
  destruct (f_isdir f); [repeat split; discriminate|].
  destruct (hidden (f_name f)); [repeat split; discriminate|].
  destruct (negb (ext_of (f_name f) =? ".go")); [destruct (mem _ other_exts); repeat split; discriminate|].
  destruct (negb (good_os_arch_file e (f_name f))); [repeat split; discriminate|].
  destruct (negb (should_build e f)); [repeat split; discriminate|].
  destruct (f_pkg f); destruct (is_test_name (f_name f)); repeat split; discriminate.
Qed.

(* classification depends on the environment only through the tags the file mentions *)
Lemma classify_ext : forall e e' f, e_cgo e = e_cgo e' ->
  (forall t, In t (mentioned f) -> match_tag e t = match_tag e' t) ->
  classify e f = classify e' f.
Proof.
  intros e e' f Hc H. unfold classify.
  assert (G : good_os_arch_file e (f_name f) = good_os_arch_file e' (f_name f)).
  { unfold good_os_arch_file. apply forallb_ext_in'. intros t It. apply H. unfold mentioned. apply in_or_app. left. exact It. }
  assert (S : should_build e f = should_build e' f).
  { apply should_build_ext. intros t It. apply H. unfold mentioned. apply in_or_app. right. exact It. }
  rewrite G, S, Hc. reflexivity.
Qed.

(* ====================================================================== *)
(* 5. whole directories                                                   *)
(* ====================================================================== *)

Definition go_files (r : result) : list string :=
  match r with ROk g _ _ _ _ => g | _ => [] end.
Definition js_files (r : result) : list string :=
  match r with ROk _ _ _ _ j => j | _ => [] end.
Definition loaded (r : result) : Prop :=
  match r with ROk _ _ _ _ _ => True | _ => False end.

Lemma import_with_go : forall e0 std fs, loaded (import_with e0 std fs) ->
  go_files (import_with e0 std fs) = names_of (preload e0 std) CGo fs.
Proof.
  intros e0 std fs. unfold import_with.
  destruct (existsb _ fs); [intros []|].
  destruct (names_of (preload e0 std) CGo fs ++ _)%list eqn:E; [intros []|]. reflexivity.
Qed.

Lemma import_with_js : forall e0 std fs, loaded (import_with e0 std fs) ->
  js_files (import_with e0 std fs) = map f_name (filter is_incjs fs).
Proof.
  intros e0 std fs. unfold import_with.
  destruct (existsb _ fs); [intros []|].
  destruct (names_of (preload e0 std) CGo fs ++ _)%list eqn:E; [intros []|]. reflexivity.
Qed.

Lemma cls_eqb_eq : forall a b, cls_eqb a b = true <-> a = b.
Proof. intros a b. destruct a, b; cbn; split; intros; congruence. Qed.

Lemma In_names_of : forall e c fs f, NoDup (map f_name fs) -> In f fs ->
  (In (f_name f) (names_of e c fs) <-> classify e f = c).
Proof.
  intros e c fs f ND I. unfold names_of. rewrite in_map_iff. split.
  - intros [g [En Ig]]. apply filter_In in Ig. destruct Ig as [Ig Ec]. apply cls_eqb_eq in Ec.
    assert (g = f) as ->; [|exact Ec].
    clear Ec. induction fs as [|h fs IH]; [contradiction|].
    cbn [map] in ND. inversion ND as [|? ? Hn ND']; subst.
    destruct I as [->|I], Ig as [->|Ig]; try reflexivity.
    + exfalso. apply Hn. rewrite <- En. apply in_map. exact Ig.
    + exfalso. apply Hn. rewrite En. apply in_map. exact I.
    + apply IH; assumption.
  - intros Ec. exists f. split; [reflexivity|]. apply filter_In. split; [exact I | apply cls_eqb_eq; exact Ec].
Qed.

(* a file is taken <-> name rule /\ constraint /\ not cgo /\ extension ...,
   everything expressed with the DOCUMENTED tag valuation *)
Theorem selected_iff : forall user std m fs f,
  doc_N <= m ->
  NoDup (map f_name fs) -> In f fs ->
  ~ In "boringcrypto" (mentioned f) ->
  forall e0, go_ctx (default_cfg user m) = Some e0 ->
  loaded (import_with e0 std fs) ->
  (In (f_name f) (go_files (import_with e0 std fs)) <->
     f_isdir f = false /\ selectable_name (f_name f) /\
     Forall (doc_tags user std) (name_tags (f_name f)) /\
     constraint_holds (doc_tags user std) f /\
     f_pkg f <> PkgDoc /\ f_cgo f = false).
Proof.
  intros user std m fs f Hm ND I Hb e0 He0 L.
  rewrite (import_with_go _ _ _ L), (In_names_of _ _ _ _ ND I), classify_go_iff.
  assert (Hs : forall t, In t (mentioned f) -> (match_tag (preload e0 std) t = true <-> doc_tags user std t)).
  { intros t It. assert (t <> "boringcrypto") as Ht by (intros ->; contradiction).
    rewrite <- (env_is_documented user std m t Hm Ht). unfold sat, file_env. rewrite He0. tauto. }
  assert (G : good_os_arch_file (preload e0 std) (f_name f) = true <-> Forall (doc_tags user std) (name_tags (f_name f))).
  { unfold good_os_arch_file. rewrite forallb_forall, Forall_forall.
    split; intros F t It; apply (Hs t); try (unfold mentioned; apply in_or_app; left; exact It); apply F; exact It. }
  assert (S : should_build (preload e0 std) f = true <-> constraint_holds (doc_tags user std) f).
  { apply should_build_holds. intros t It. apply Hs. unfold mentioned. apply in_or_app. right. exact It. }
  rewrite G, S. tauto.
Qed.

(* ---- a tag that is not mentioned does not matter ------------------------ *)

Lemma match_tag_add_user : forall e e' t u,
  e_goos e' = e_goos e -> e_goarch e' = e_goarch e -> e_compiler e' = e_compiler e -> e_cgo e' = e_cgo e ->
  e_tool_tags e' = e_tool_tags e -> e_release_tags e' = e_release_tags e ->
  e_build_tags e' = u :: e_build_tags e ->
  alias t <> u -> match_tag e' t = match_tag e t.
Proof.
  intros e e' t u H1 H2 H3 H4 H5 H6 H7 Hn. unfold match_tag. rewrite H1, H2, H3, H4, H5, H6, H7.
  fold (alias t). cbn [mem existsb]. apply String.eqb_neq in Hn. fold (mem (alias t) (e_build_tags e)).
  unfold mem at 1. cbn [existsb]. rewrite Hn. reflexivity.
Qed.

Theorem user_tag_frame : forall user u m goos goarch path in_goroot fs,
  (forall f, In f fs -> ~ In u (map alias (mentioned f))) ->
  import_pkg {| c_env_goos := goos; c_env_goarch := goarch; c_user_tags := u :: user; c_toolchain := m |} path in_goroot fs =
  import_pkg {| c_env_goos := goos; c_env_goarch := goarch; c_user_tags := user; c_toolchain := m |} path in_goroot fs.
Proof.
  intros user u m goos goarch path in_goroot fs H. unfold import_pkg, go_ctx. cbn [c_toolchain c_user_tags].
  destruct (if release_truncated then slice _ release_lo release_hi else Some _) as [rel|]; [|reflexivity].
  destruct gen_tags_used as [-> _].
  set (e := {| e_goos := _; e_build_tags := (user ++ _)%list |}).
  set (e' := {| e_goos := _; e_build_tags := ((u :: user) ++ _)%list |}).
  set (std := is_std path in_goroot).
  assert (C : forall f, In f fs -> classify (preload e' std) f = classify (preload e std) f).
  { intros f If. apply classify_ext; [destruct std; reflexivity|].
    intros t It. apply (match_tag_add_user (preload e std) (preload e' std) t u); try (destruct std; reflexivity).
    intros E. apply (H f If). rewrite <- E. apply in_map. exact It. }
  unfold import_with.
  assert (N : forall c, names_of (preload e' std) c fs = names_of (preload e std) c fs).
  { intros c. unfold names_of. f_equal. apply filter_ext_in. intros f If. rewrite (C f If). reflexivity. }
  rewrite !N.
  replace (existsb (fun f => cls_eqb (classify (preload e' std) f) CBad) fs)
     with (existsb (fun f => cls_eqb (classify (preload e std) f) CBad) fs); [reflexivity|].
  clear N. induction fs as [|f fs IH]; [reflexivity|]. cbn [existsb]. f_equal.
  - rewrite (C f); [reflexivity | left; reflexivity].
  - apply IH; intros; [apply H | apply C]; right; assumption.
Qed.

(* ---- .inc.js ------------------------------------------------------------ *)

Lemma is_incjs_iff : forall f,
  is_incjs f = true <->
  has_suffix ".inc.js" (f_name f) = true /\ f_isdir f = false /\ hidden (f_name f) = false.
Proof.
  intros f. unfold is_incjs, hidden, incjs_ext, incjs_hidden. cbn [existsb].
  destruct (has_suffix ".inc.js" (f_name f)); cbn [negb orb]; [|split; [discriminate | intros (H & _); discriminate]].
  destruct (f_isdir f); [split; [discriminate | intros (_ & H & _); discriminate]|].
  rewrite orb_false_r. rewrite negb_true_iff. tauto.
Qed.

(* every non-hidden .inc.js file of a directory that is loaded at all is
   taken, whatever its header, its name suffixes and the environment say *)
Theorem incjs_always : forall e0 std fs f,
  loaded (import_with e0 std fs) -> In f fs ->
  has_suffix ".inc.js" (f_name f) = true -> f_isdir f = false -> hidden (f_name f) = false ->
  In (f_name f) (js_files (import_with e0 std fs)).
Proof.
  intros e0 std fs f L I Hs Hd Hh. rewrite (import_with_js _ _ _ L).
  apply in_map. apply filter_In. split; [exact I|]. apply is_incjs_iff. tauto.
Qed.

Theorem incjs_only : forall e0 std fs n,
  In n (js_files (import_with e0 std fs)) ->
  exists f, In f fs /\ f_name f = n /\ has_suffix ".inc.js" n = true /\ f_isdir f = false /\ hidden n = false.
Proof.
  intros e0 std fs n H.
  assert (L : loaded (import_with e0 std fs)) by (destruct (import_with e0 std fs); try contradiction; exact I).
  rewrite (import_with_js _ _ _ L) in H. apply in_map_iff in H. destruct H as [f [E If]].
  apply filter_In in If. destruct If as [If Hj]. apply is_incjs_iff in Hj. subst n. exists f. tauto.
Qed.

Theorem incjs_env_independent : forall e0 e1 std std' fs,
  loaded (import_with e0 std fs) -> loaded (import_with e1 std' fs) ->
  js_files (import_with e0 std fs) = js_files (import_with e1 std' fs).
Proof. intros. rewrite !import_with_js by assumption. reflexivity. Qed.

(* cgo files are never used by the context NewBuildContext creates *)
Theorem cgo_files_never_used : forall c e0 std fs f,
  go_ctx c = Some e0 -> NoDup (map f_name fs) -> In f fs -> f_cgo f = true ->
  ~ In (f_name f) (go_files (import_with e0 std fs)).
Proof.
  intros c e0 std fs f He ND I Hc H.
  assert (L : loaded (import_with e0 std fs)) by (destruct (import_with e0 std fs); try contradiction; exact Logic.I).
  rewrite (import_with_go _ _ _ L), (In_names_of _ _ _ _ ND I) in H.
  assert (Hcg : e_cgo (preload e0 std) = false).
  { unfold go_ctx in He. destruct (if release_truncated then _ else _); [|discriminate]. injection He as <-. destruct std; exact gen_cgo. }
  destruct (cgo_never _ _ Hcg Hc) as [N _]. contradiction.
Qed.

(* ---- std packages: js/wasm; which packages count as std ------------------ *)

Theorem std_selected_as_js_wasm : forall user m e, doc_N <= m ->
  file_env user true m = Some e -> e_goos e = "js" /\ e_goarch e = "wasm".
Proof.
  intros user m e Hm H. destruct gen_version_documented as [Hv _]. rewrite <- Hv in Hm.
  rewrite (file_env_some _ _ _ Hm) in H. injection H as <-. split; reflexivity.
Qed.

(* ... whatever GOOS / GOARCH the process environment sets and whatever the tags *)
Theorem std_selected_as_js_wasm_any_env : forall c e0,
  go_ctx c = Some e0 -> e_goos (preload e0 true) = "js" /\ e_goarch (preload e0 true) = "wasm".
Proof. intros c e0 _. unfold preload. rewrite gen_std_goos, gen_std_goarch. split; reflexivity. Qed.

(* a user package keeps what DefaultEnv chose: $GOOS / $GOARCH when set, js / ecmascript otherwise *)
Theorem user_env_follows_process_env : forall c e0,
  go_ctx c = Some e0 ->
  e_goos (preload e0 false) = (if c_env_goos c =? "" then "js" else c_env_goos c) /\
  e_goarch (preload e0 false) = (if c_env_goarch c =? "" then "ecmascript" else c_env_goarch c).
Proof.
  intros c e0 H. unfold go_ctx in H. destruct (if release_truncated then _ else _); [|discriminate].
  injection H as <-. cbn. unfold env_goos, env_goarch. rewrite gen_default_goos, gen_default_goarch. split; reflexivity.
Qed.

Theorem local_import_is_never_std : forall p g, is_local_import p = true -> is_std p g = false.
Proof.
  intros p g H. unfold is_std.
  assert (mem p gopherjs_paths = false) as ->.
  { unfold gopherjs_paths, mem. cbn [existsb]. unfold is_local_import in H.
    destruct (p =? "github.com/gopherjs/gopherjs/js") eqn:E1; [apply String.eqb_eq in E1; subst; discriminate|].
    destruct (p =? "github.com/gopherjs/gopherjs/nosync") eqn:E2; [apply String.eqb_eq in E2; subst; discriminate|].
    reflexivity. }
  unfold definitely_not_std. rewrite H, orb_true_r. reflexivity.
Qed.

(* ---- the file-name rule: only KNOWN OS / arch names ever constrain ------- *)

Lemma name_tags_known : forall name t, In t (name_tags name) -> In t (known_os ++ known_arch)%list.
Proof.
  intros name t. unfold name_tags.
  destruct (from_first_us (cut_dot name)) as [rest|]; [|intros []].
  set (l := match List.rev (split_on "_" rest) with
            | x :: r => if x =? "test" then List.rev r else split_on "_" rest
            | [] => split_on "_" rest end).
  clearbody l. unfold known_os_b, known_arch_b.
  destruct (List.rev l) as [|a [|o r]]; [intros []| |].
  - destruct (mem a known_os) eqn:E1; [intros [<-|[]]; apply in_or_app; left; apply mem_In; exact E1|].
    destruct (mem a known_arch) eqn:E2; [intros [<-|[]]; apply in_or_app; right; apply mem_In; exact E2|].
    intros [].
  - destruct (mem o known_os) eqn:Eo; destruct (mem a known_arch) eqn:Ea; cbn [andb orb].
    + intros [<-|[<-|[]]]; apply in_or_app; [right|left]; apply mem_In; assumption.
    + destruct (mem a known_os) eqn:E1; [intros [<-|[]]; apply in_or_app; left; apply mem_In; exact E1|intros []].
    + rewrite orb_true_r. intros [<-|[]]. apply in_or_app; right; apply mem_In; exact Ea.
    + destruct (mem a known_os) eqn:E1; [intros [<-|[]]; apply in_or_app; left; apply mem_In; exact E1|intros []].
Qed.

(* GOARCH=ecmascript is not a known architecture: no file NAME is ever tied to
   it, and neither is one tied to gopherjs / a release tag *)
Lemma ecmascript_not_a_name_tag : forall name, ~ In "ecmascript" (name_tags name).
Proof.
  intros name H. apply name_tags_known in H. apply mem_In in H. vm_compute in H. discriminate.
Qed.

Lemma js_wasm_linux_are_name_tags :
  name_tags "x_js.go" = ["js"] /\ name_tags "x_wasm.go" = ["wasm"] /\ name_tags "x_linux.go" = ["linux"] /\
  name_tags "x_js_wasm.go" = ["wasm"; "js"] /\ name_tags "x_js_wasm_test.go" = ["wasm"; "js"] /\
  name_tags "x_ecmascript.go" = [] /\ name_tags "js_wasm.go" = ["wasm"] /\ name_tags "wasm.go" = [] /\
  name_tags "a.b_linux.go" = [].
Proof. vm_compute. repeat split. Qed.

(* a name without "_" before its first "." is unconstrained *)
Lemma from_first_us_none : forall s, contains_char "_" s = false -> from_first_us s = None.
Proof.
  induction s as [|c s IH]; [reflexivity|]. cbn [contains_char from_first_us]. intros H.
  apply orb_false_iff in H. destruct H as [H1 H2]. rewrite Ascii.eqb_sym, H1. apply IH. exact H2.
Qed.

Lemma no_underscore_unconstrained : forall name, contains_char "_" (cut_dot name) = false -> name_tags name = [].
Proof. intros name H. unfold name_tags. rewrite (from_first_us_none _ H). reflexivity. Qed.
