(* C02 phase 4 (b) — proofs about Model/C02_P4_Range.v: the direct semantics of `for k = range s` is what the
   translator's reduction to translateLoopingStmt computes, hence (composition with the stage-1 theorems) every
   program with range loops computes the same under every schedule of suspensions. *)
From Coq Require Import List ZArith Bool Arith Lia Wf_nat.
From Verif Require Import Model.C02_Blocking Model.C02_Flat Model.C02_Wf Model.C02_P4_Range.
From Verif Require Import Proofs.C02_Flat Proofs.C02_Compile Proofs.C02_Correct.
Import ListNotations.
Local Open Scope Z_scope.

Lemma truthy_b2z : forall b, truthy (b2z b) = b.
Proof. destruct b; reflexivity. Qed.

Lemma exec_ext : forall c1 c2 st, (forall g a w, c1 g a w = c2 g a w) ->
  forall n s loc w, exec c1 st n s loc w = exec c2 st n s loc w.
Proof.
  intros c1 c2 st H n s loc w.
  assert (L12 : callf_le c1 c2) by (intros f a w0 r Hr; rewrite <- H; auto).
  assert (L21 : callf_le c2 c1) by (intros f a w0 r Hr; rewrite H; auto).
  destruct (exec c1 st n s loc w) as [x|] eqn:E1.
  - symmetry. eapply exec_mono; eauto.
  - destruct (exec c2 st n s loc w) as [y|] eqn:E2; auto.
    rewrite (exec_mono _ _ _ L21 _ n _ _ _ _ E2) in E1 by auto with arith. discriminate.
Qed.

Lemma exec_seq_eq : forall callf st n' a b loc w,
  exec callf st (S n') (SSeq a b) loc w =
  match exec callf st n' a loc w with
  | Some (ONormal, loc', w') => exec callf st n' b loc' w'
  | r => r
  end.
Proof. reflexivity. Qed.

Lemma exec_for_eq : forall callf st n' m lbl init c post body loc w,
  exec callf st (S n') (SFor m lbl init c post body) loc w =
  match exec callf st n' init loc w with
  | Some (ONormal, l1, w1) =>
      if truthy (eval c l1 w1) then
        match exec callf st n' body l1 w1 with
        | Some (o, l2, w2) =>
            let again :=
              match exec callf st n' post l2 w2 with
              | Some (ONormal, l3, w3) => exec callf st n' (SFor m lbl SSkip c post body) l3 w3
              | Some _ => None
              | None => None
              end in
            match o with
            | ONormal => again
            | OContinue l => if targets l lbl then again else Some (o, l2, w2)
            | OBreak l => if targets l lbl then Some (ONormal, l2, w2) else Some (o, l2, w2)
            | OReturn _ => Some (o, l2, w2)
            end
        | None => None
        end
      else Some (ONormal, l1, w1)
  | Some _ => None
  | None => None
  end.
Proof. reflexivity. Qed.

Lemma rexec_range_eq : forall callf n1 started lbl key ref iv len body loc w,
  rexec callf (S (S n1)) (RRange started lbl key ref iv len body) loc w =
  match (if started then Some loc
         else match n1 with O => None | S _ => Some (upd iv 0 (upd ref (eval len loc w) loc)) end) with
  | None => None
  | Some l1 =>
      if lookup iv l1 <? lookup ref l1 then
        match n1 with
        | O => None
        | S _ =>
          match rexec callf n1 body (set_dst key (lookup iv l1) l1) w with
          | Some (o, l2, w2) =>
              let again := rexec callf (S n1) (RRange true lbl key ref iv len body) (upd iv (lookup iv l2 + 1) l2) w2 in
              match o with
              | ONormal => again
              | OContinue l => if targets l lbl then again else Some (o, l2, w2)
              | OBreak l => if targets l lbl then Some (ONormal, l2, w2) else Some (o, l2, w2)
              | OReturn _ => Some (o, l2, w2)
              end
          | None => None
          end
        end
      else Some (ONormal, l1, w)
  end.
Proof. reflexivity. Qed.

(* the direct semantics of the extended language = the stage-1 direct semantics of the translator's reduction *)
Lemma rexec_desugar : forall callf n s loc w,
  rexec callf n s loc w = exec callf false n (desugar s) loc w.
Proof.
  intros callf n. induction n as [n IH] using lt_wf_ind. intros s loc w.
  destruct n as [|n]; [reflexivity|].
  assert (IHn : forall s loc w, rexec callf n s loc w = exec callf false n (desugar s) loc w) by (apply IH; auto with arith).
  destruct s; try reflexivity.
  - (* RSeq *)
    simpl. rewrite IHn. destruct (exec callf false n (desugar s1) loc w) as [[[o l1] w1]|]; auto.
    destruct o; auto.
  - (* RIf *)
    simpl. destruct (truthy (eval c loc w)); auto.
  - (* RIfElse *)
    simpl. destruct (truthy (eval c loc w)); auto.
  - (* RFor *)
    simpl. rewrite IHn. destruct (exec callf false n (desugar s1) loc w) as [[[o l1] w1]|]; auto.
    destruct o; auto.
    destruct (truthy (eval c l1 w1)); auto.
    rewrite IHn. destruct (exec callf false n (desugar s3) l1 w1) as [[[o l2] w2]|]; auto.
    rewrite IHn. destruct (exec callf false n (desugar s2) l2 w2) as [[[o' l3] w3]|].
    + destruct o'; try reflexivity. rewrite IHn. reflexivity.
    + reflexivity.
  - (* RRange *)
    destruct n as [|n1]; [reflexivity|].
    assert (IHn1 : forall s loc w, rexec callf n1 s loc w = exec callf false n1 (desugar s) loc w) by (apply IH; auto with arith).
    cbn [desugar]. rewrite rexec_range_eq, exec_for_eq.
    set (RA := rexec callf (S n1) (RRange true lbl key ref iv len s)).
    set (EA := exec callf false (S n1) (SFor false lbl SSkip (range_cond ref iv) (range_post iv) (SSeq (range_key key iv) (desugar s)))).
    assert (HA : forall l w, RA l w = EA l w) by (intros; apply (IHn (RRange true lbl key ref iv len s))).
    clearbody RA EA.
    assert (Hpost : forall l2 w2, exec callf false (S n1) (range_post iv) l2 w2 = Some (ONormal, upd iv (lookup iv l2 + 1) l2, w2))
      by reflexivity.
    assert (Hbody : forall l1,
      match n1 with
      | O => None
      | S _ => rexec callf n1 s (set_dst key (lookup iv l1) l1) w
      end = exec callf false (S n1) (SSeq (range_key key iv) (desugar s)) l1 w).
    { intros l1. destruct n1 as [|n2]; [reflexivity|]. rewrite exec_seq_eq.
      assert (Hk : exec callf false (S n2) (range_key key iv) l1 w = Some (ONormal, set_dst key (lookup iv l1) l1, w))
        by (destruct key; reflexivity).
      rewrite Hk. apply IHn1. }
    assert (Hloop : forall l1,
      (if lookup iv l1 <? lookup ref l1
       then match n1 with
            | O => None
            | S _ =>
              match rexec callf n1 s (set_dst key (lookup iv l1) l1) w with
              | Some (o, l2, w2) =>
                  let again := RA (upd iv (lookup iv l2 + 1) l2) w2 in
                  match o with
                  | ONormal => again
                  | OContinue l => if targets l lbl then again else Some (o, l2, w2)
                  | OBreak l => if targets l lbl then Some (ONormal, l2, w2) else Some (o, l2, w2)
                  | OReturn _ => Some (o, l2, w2)
                  end
              | None => None
              end
            end
       else Some (ONormal, l1, w)) =
      (if truthy (eval (range_cond ref iv) l1 w)
       then match exec callf false (S n1) (SSeq (range_key key iv) (desugar s)) l1 w with
            | Some (o, l2, w2) =>
                let again :=
                  match exec callf false (S n1) (range_post iv) l2 w2 with
                  | Some (ONormal, l3, w3) => EA l3 w3
                  | Some _ => None
                  | None => None
                  end in
                match o with
                | ONormal => again
                | OContinue l => if targets l lbl then again else Some (o, l2, w2)
                | OBreak l => if targets l lbl then Some (ONormal, l2, w2) else Some (o, l2, w2)
                | OReturn _ => Some (o, l2, w2)
                end
            | None => None
            end
       else Some (ONormal, l1, w))).
    { intros l1. unfold range_cond. cbn [eval eval_bin]. rewrite truthy_b2z.
      destruct (lookup iv l1 <? lookup ref l1); [|reflexivity].
      rewrite <- Hbody. destruct n1 as [|n2]; [reflexivity|].
      destruct (rexec callf (S n2) s (set_dst key (lookup iv l1) l1) w) as [[[o l2] w2]|]; [|reflexivity].
      rewrite Hpost. cbv zeta. rewrite HA. reflexivity. }
    destruct started.
    + change (exec callf false (S n1) SSkip loc w) with (Some (ONormal, loc, w)). cbv iota beta.
      apply Hloop.
    + destruct n1 as [|n2]; [reflexivity|].
      change (exec callf false (S (S n2)) (SSeq (SAssign ref len) (SAssign iv (EConst 0))) loc w)
        with (Some (ONormal, upd iv 0 (upd ref (eval len loc w) loc), w)).
      cbv iota beta. apply Hloop.
Qed.

Lemma rcall_direct_desugar : forall p n f a w,
  rcall_direct p n f a w = call_direct (rdesugar p) n f a w.
Proof.
  intros p. induction n; intros f a w; [reflexivity|].
  simpl. unfold rdesugar. rewrite nth_error_map. destruct (nth_error p f) as [fn|]; [|reflexivity].
  simpl. rewrite rexec_desugar. f_equal. apply exec_ext. intros. apply IHn.
Qed.

Theorem run_rdirect_desugar : forall p nglob fuel main args,
  run_rdirect p nglob fuel main args = run_direct (rdesugar p) nglob fuel main args.
Proof. intros. unfold run_rdirect, run_direct. rewrite rcall_direct_desugar. reflexivity. Qed.

(* programs with range loops: every schedule computes what the direct semantics computes *)
Theorem range_suspend_invariant : forall rp sched nglob fuel main args o,
  rsrc_ok rp = true ->
  run_rdirect rp nglob fuel main args = Some o ->
  exists fuel', run_flat (rcompile rp) sched nglob fuel' main args = Some o.
Proof.
  intros rp sched nglob fuel main args o SRC H. rewrite run_rdirect_desugar in H.
  unfold rcompile. eapply flat_suspend_invariant; eauto.
Qed.

Theorem rcompile_wf : forall rp, rsrc_ok rp = true -> wf_prog (rcompile rp).
Proof. intros. apply compile_wf. auto. Qed.
