(* C06 — + - * templates of the kinds of at most 32 bits *)
From Coq Require Import ZArith Znumtheory Bool List Lia ZifyBool.
From Verif Require Import Base.C06_JsNum Model.C06_Prelude64 Model.C06_Spec Gen.C06_Tables Model.C06_Templates Proofs.C06_Arith Proofs.C06_Fix.
Import ListNotations.
Local Open Scope Z_scope.
Ltac Zify.zify_post_hook ::= Z.div_mod_to_equations.

(* ---- + - * --------------------------------------------------------------------- *)
Lemma add32_correct : forall V k x y, is64 k = false -> in_range k x -> in_range k y ->
  bin32 V k Add (Fin x) (Fin y) = Ret (Fin (wrap k (x + y))).
Proof.
  intros V k x y H Rx Ry. cbn [bin32 js_add]. rewrite chk_ok by (range32; lia). rewrite fixnum_fin by assumption. reflexivity.
Qed.

Lemma js_sub_fin : forall x y, - two53 <= x - y <= two53 -> js_sub (Fin x) (Fin y) = Fin (x - y).
Proof.
  intros x y H. unfold js_sub. destruct y as [| p | p]; cbn [js_neg js_add].
  - f_equal; lia.
  - rewrite chk_ok by lia. f_equal.
  - rewrite chk_ok by lia. f_equal.
Qed.

Lemma sub32_correct : forall V k x y, is64 k = false -> in_range k x -> in_range k y ->
  bin32 V k Sub (Fin x) (Fin y) = Ret (Fin (wrap k (x - y))).
Proof.
  intros V k x y H Rx Ry. cbn [bin32]. rewrite js_sub_fin by (range32; lia). rewrite fixnum_fin by assumption. reflexivity.
Qed.

(* x * y: any zero sign is erased by the suffix; the product of two 16-bit values is exact *)
Lemma fixnum_js_mul : forall k x y, is64 k = false -> - two53 <= x * y <= two53 ->
  fixnum k (js_mul (Fin x) (Fin y)) = Fin (wrap k (x * y)).
Proof.
  intros k x y H B. unfold js_mul. cbn [jval jneg_sign].
  destruct (Z.eqb_spec (x * y) 0) as [E | E].
  - rewrite E. destruct (xorb (x <? 0) (y <? 0)); [rewrite fixnum_nz | rewrite fixnum_fin]; try assumption;
      rewrite wrap_id; try reflexivity; unfold in_range, kmin, kmax; destruct k; cbn; lia.
  - rewrite chk_ok by assumption. apply fixnum_fin; assumption.
Qed.

Lemma imul32_to_int32 : forall x y, imul32 x y = to_int32 (x * y).
Proof.
  intros x y. unfold imul32. apply to_int32_congr.
  transitivity (((to_int32 x mod two32) * (to_int32 y mod two32)) mod two32); [apply Zmult_mod |].
  transitivity (((x mod two32) * (y mod two32)) mod two32); [| symmetry; apply Zmult_mod].
  f_equal. f_equal; apply to_int32_mod.
Qed.

Lemma mul_small_bound : forall k x y, bits k <= 16 -> in_range k x -> in_range k y -> - two53 <= x * y <= two53.
Proof.
  intros k x y B Rx Ry.
  assert (X : -65536 <= x <= 65535) by (clear - Rx B; destruct k; unfold in_range, kmin, kmax in Rx; cbn in Rx, B; lia).
  assert (Y : -65536 <= y <= 65535) by (clear - Ry B; destruct k; unfold in_range, kmin, kmax in Ry; cbn in Ry, B; lia).
  assert (A : Z.abs (x * y) <= 65536 * 65536).
  { rewrite Z.abs_mul. apply Z.mul_le_mono_nonneg; lia. }
  unfold two53. clear - A. lia.
Qed.

Lemma mul32_small : forall V k x y, is64 k = false -> bits k <= 16 -> in_range k x -> in_range k y ->
  bin32 V k Mul (Fin x) (Fin y) = Ret (Fin (wrap k (x * y))).
Proof.
  intros V k x y H B Rx Ry.
  assert (E : bin32 V k Mul (Fin x) (Fin y) = Ret (fixnum k (js_mul (Fin x) (Fin y)))).
  { destruct k; try discriminate H; try (exfalso; cbn in B; lia); reflexivity. }
  rewrite E, fixnum_js_mul; [reflexivity | assumption | apply (mul_small_bound k); assumption].
Qed.

Lemma mul32_correct : forall V k x y, is64 k = false -> in_range k x -> in_range k y ->
  bin32 V k Mul (Fin x) (Fin y) = Ret (Fin (wrap k (x * y))).
Proof.
  intros V k x y H Rx Ry.
  destruct k; try discriminate H.
  - apply mul32_small; [reflexivity | cbn; lia | assumption | assumption].
  - apply mul32_small; [reflexivity | cbn; lia | assumption | assumption].
  - cbn [bin32]. unfold js_imul, lift2; cbn [trunc_of]. unfold wrap; cbn [signed bits]. rewrite imul32_to_int32. generalize (x * y); intro z. rewrite to_int32_wraps. reflexivity.
  - cbn [bin32]. unfold js_imul, lift2; cbn [trunc_of]. unfold wrap; cbn [signed bits]. rewrite imul32_to_int32. generalize (x * y); intro z. rewrite to_int32_wraps. reflexivity.
  - apply mul32_small; [reflexivity | cbn; lia | assumption | assumption].
  - apply mul32_small; [reflexivity | cbn; lia | assumption | assumption].
  - cbn [bin32]. unfold js_ushr, js_imul, lift2; cbn [trunc_of]. unfold wrap; cbn [signed bits]. rewrite ushr32_0, imul32_to_int32, to_uint32_of_int32. generalize (x * y); intro z. rewrite to_uint32_wrapu. reflexivity.
  - cbn [bin32]. unfold js_ushr, js_imul, lift2; cbn [trunc_of]. unfold wrap; cbn [signed bits]. rewrite ushr32_0, imul32_to_int32, to_uint32_of_int32. generalize (x * y); intro z. rewrite to_uint32_wrapu. reflexivity.
  - cbn [bin32]. unfold js_ushr, js_imul, lift2; cbn [trunc_of]. unfold wrap; cbn [signed bits]. rewrite ushr32_0, imul32_to_int32, to_uint32_of_int32. generalize (x * y); intro z. rewrite to_uint32_wrapu. reflexivity.
Qed.
