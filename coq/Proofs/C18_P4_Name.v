(* C18 phase 4 — the file-name rule of go/build (goodOSArchFile, mirrored by
   name_tags) is equal, for EVERY file name, to the independent suffix
   specification of Model/C18_NameSpec.v, and to a propositional, text-level
   form of the go/build documentation (no split, no reversal).
   All statements are over unbounded strings (induction), the only facts taken
   from the generated tables are checked by computation below. *)
From Coq Require Import List String Ascii Bool Arith Lia.
From Verif Require Import Gen.C18_BuildEnv Model.C18_Build Model.C18_NameSpec Proofs.C18_Build.
Import ListNotations.
Local Open Scope string_scope.

(* ====================================================================== *)
(* 0. basic facts on strings                                              *)
(* ====================================================================== *)

Lemma nm_sapp_assoc : forall a b c : string, (a ++ b) ++ c = a ++ (b ++ c).
Proof. induction a; intros; cbn [append]; [reflexivity | rewrite IHa; reflexivity]. Qed.

Lemma nm_slen_app : forall a b, String.length (a ++ b) = String.length a + String.length b.
Proof. induction a; intros; cbn [append String.length]; [reflexivity | rewrite IHa; reflexivity]. Qed.

Lemma nm_substring_prefix : forall p s, substring 0 (String.length p) (p ++ s) = p.
Proof.
  induction p; intros; cbn [append String.length substring].
  - destruct s; reflexivity.
  - rewrite IHp; reflexivity.
Qed.

Lemma nm_drop_last_app : forall p suf, drop_last (String.length suf) (p ++ suf) = p.
Proof.
  intros. unfold drop_last. rewrite nm_slen_app, Nat.add_sub. apply nm_substring_prefix.
Qed.

Lemma nm_has_suffix_refl : forall s, has_suffix s s = true.
Proof. intros s. destruct s; cbn [has_suffix]; rewrite String.eqb_refl; reflexivity. Qed.

Lemma nm_has_suffix_iff : forall suf s, has_suffix suf s = true <-> exists p, s = p ++ suf.
Proof.
  intros suf s. split.
  - induction s as [|d r IH]; cbn [has_suffix]; intros H; apply orb_true_iff in H as [H|H].
    + apply String.eqb_eq in H. exists "". subst. reflexivity.
    + discriminate.
    + apply String.eqb_eq in H. exists "". subst. reflexivity.
    + destruct (IH H) as [p ->]. exists (String d p). reflexivity.
  - intros [p ->]. induction p as [|d p IH]; cbn [append].
    + apply nm_has_suffix_refl.
    + cbn [has_suffix]. rewrite IH. apply orb_true_r.
Qed.

(* ====================================================================== *)
(* 1. split / join on one separator                                       *)
(* ====================================================================== *)

Section Split.
Variable c : ascii.

Fixpoint join (l : list string) : string :=
  match l with
  | [] => ""
  | x :: l' => match l' with [] => x | _ => x ++ String c (join l') end
  end.

Lemma nm_split_cons : forall s, exists h t, split_on c s = h :: t.
Proof.
  intros s. destruct s as [|d r]; cbn [split_on]; [eauto|].
  destruct (Ascii.eqb d c); [eauto|]. destruct (split_on c r); eauto.
Qed.

Lemma nm_split_ne : forall s, split_on c s <> [].
Proof. intros s. destruct (nm_split_cons s) as (h & t & E). rewrite E. discriminate. Qed.

Lemma nm_split_app : forall s x, split_on c (s ++ String c x) = (split_on c s ++ split_on c x)%list.
Proof.
  induction s as [|d r IH]; intros x.
  - cbn [append split_on app]. rewrite Ascii.eqb_refl. reflexivity.
  - cbn [append split_on]. rewrite IH. destruct (Ascii.eqb d c); [reflexivity|].
    destruct (nm_split_cons r) as (h & t & E). rewrite E. reflexivity.
Qed.

Lemma nm_split_free : forall x, contains_char c x = false -> split_on c x = [x].
Proof.
  induction x as [|d r IH]; cbn [contains_char split_on]; intros H; [reflexivity|].
  apply orb_false_iff in H as [H1 H2]. rewrite Ascii.eqb_sym in H1. rewrite H1, (IH H2). reflexivity.
Qed.

Lemma nm_join_cons_char : forall d h t, join (String d h :: t) = String d (join (h :: t)).
Proof. intros. destruct t; reflexivity. Qed.

Lemma nm_join_cons_ne : forall x l, l <> [] -> join (x :: l) = x ++ String c (join l).
Proof. intros x l H. destruct l; [congruence | reflexivity]. Qed.

Lemma nm_join_split : forall s, join (split_on c s) = s.
Proof.
  induction s as [|d r IH]; cbn [split_on]; [reflexivity|].
  destruct (Ascii.eqb_spec d c) as [->|_].
  - rewrite nm_join_cons_ne by apply nm_split_ne. rewrite IH. reflexivity.
  - destruct (nm_split_cons r) as (h & t & E). rewrite E in *.
    rewrite nm_join_cons_char, IH. reflexivity.
Qed.

Lemma nm_join_snoc : forall q x, q <> [] -> join (q ++ [x]) = join q ++ String c x.
Proof.
  induction q as [|y q IH]; intros x H; [congruence|].
  destruct q as [|z q]; [reflexivity|].
  change ((y :: z :: q) ++ [x])%list with (y :: ((z :: q) ++ [x]))%list.
  rewrite nm_join_cons_ne by (intros E; apply app_eq_nil in E as [E _]; discriminate).
  rewrite IH by discriminate.
  rewrite (nm_join_cons_ne y (z :: q)) by discriminate.
  rewrite nm_sapp_assoc. reflexivity.
Qed.

(* "ends in c x" <-> "the last element of the split is x, and it is not the only one" *)
Lemma nm_suffix_split1 : forall b x, contains_char c x = false ->
  has_suffix (String c x) b = true -> exists q, q <> [] /\ split_on c b = (q ++ [x])%list.
Proof.
  intros b x Hx H. apply nm_has_suffix_iff in H as [p ->].
  exists (split_on c p). split; [apply nm_split_ne|].
  rewrite nm_split_app, (nm_split_free x Hx). reflexivity.
Qed.

Lemma nm_split_suffix1 : forall b q x, q <> [] -> split_on c b = (q ++ [x])%list ->
  has_suffix (String c x) b = true.
Proof.
  intros b q x Hq H. apply nm_has_suffix_iff. exists (join q).
  rewrite <- (nm_join_split b) at 1. rewrite H. apply nm_join_snoc; exact Hq.
Qed.

Lemma nm_suffix_split2 : forall b o a, contains_char c o = false -> contains_char c a = false ->
  has_suffix (String c (o ++ String c a)) b = true ->
  exists q, q <> [] /\ split_on c b = (q ++ [o; a])%list.
Proof.
  intros b o a Ho Ha H. apply nm_has_suffix_iff in H as [p ->].
  exists (split_on c p). split; [apply nm_split_ne|].
  rewrite !nm_split_app, (nm_split_free o Ho), (nm_split_free a Ha). reflexivity.
Qed.

Lemma nm_split_suffix2 : forall b q o a, q <> [] -> split_on c b = (q ++ [o; a])%list ->
  has_suffix (String c (o ++ String c a)) b = true.
Proof.
  intros b q o a Hq H. apply nm_has_suffix_iff. exists (join q).
  rewrite <- (nm_join_split b) at 1. rewrite H.
  change (q ++ [o; a])%list with (q ++ ([o] ++ [a]))%list. rewrite app_assoc.
  rewrite nm_join_snoc by (intros E; apply app_eq_nil in E as [E _]; exact (Hq E)).
  rewrite nm_join_snoc by exact Hq.
  rewrite nm_sapp_assoc. reflexivity.
Qed.

End Split.

(* ====================================================================== *)
(* 2. facts about the generated tables (checked by computation)           *)
(* ====================================================================== *)

Lemma nm_tbl_free :
  forallb (fun x => negb (contains_char "_" x)) (known_os ++ known_arch)%list = true.
Proof. vm_compute. reflexivity. Qed.

Lemma nm_tbl_nonempty : known_os_b "" = false /\ known_arch_b "" = false.
Proof. vm_compute. split; reflexivity. Qed.

Lemma nm_known_free : forall x, In x (known_os ++ known_arch)%list -> contains_char "_" x = false.
Proof.
  intros x H. pose proof nm_tbl_free as T. rewrite forallb_forall in T.
  specialize (T x H). apply negb_true_iff in T. exact T.
Qed.

Lemma nm_known_or : forall x, In x (known_os ++ known_arch)%list <-> known_os_b x || known_arch_b x = true.
Proof.
  intros x. unfold known_os_b, known_arch_b. rewrite in_app_iff, orb_true_iff, !mem_In. tauto.
Qed.

(* ====================================================================== *)
(* 3. both sides as a function of split_on "_" (stem)                     *)
(* ====================================================================== *)

(* the final case analysis of goodOSArchFile on the reversed element list *)
Definition pick (R : list string) : list string :=
  match R with
  | a :: o :: _ =>
      if known_os_b o && known_arch_b a then [a; o]
      else if known_os_b a || known_arch_b a then [a]
      else []
  | [a] => if known_os_b a || known_arch_b a then [a] else []
  | [] => []
  end.

Definition strip (l : list string) : list string :=
  match rev l with
  | x :: r => if x =? "test" then rev r else l
  | [] => l
  end.

Lemma nm_name_tags_unf : forall name,
  name_tags name = match from_first_us (cut_dot name) with
                   | None => []
                   | Some rest => pick (rev (strip (split_on "_" rest)))
                   end.
Proof. reflexivity. Qed.

Lemma nm_pick_snoc_empty : forall R, pick (R ++ [""])%list = pick R.
Proof.
  destruct nm_tbl_nonempty as [E1 E2].
  intros R. destruct R as [|a [|o R]]; cbn [app pick].
  - rewrite E1, E2. reflexivity.
  - rewrite E1. reflexivity.
  - reflexivity.
Qed.

Lemma nm_ffu_split : forall s,
  match from_first_us s with
  | None => exists h, split_on "_" s = [h]
  | Some rest => exists h t, split_on "_" s = h :: t /\ t <> [] /\ split_on "_" rest = "" :: t
  end.
Proof.
  induction s as [|d r IH]; cbn [from_first_us].
  - exists "". reflexivity.
  - destruct (Ascii.eqb d "_") eqn:E.
    + exists "", (split_on "_" r). cbn [split_on]. rewrite E.
      split; [reflexivity|]. split; [apply nm_split_ne | reflexivity].
    + cbn [split_on]. rewrite E. destruct (from_first_us r) as [rest|].
      * destruct IH as (h & t & E1 & E2 & E3). rewrite E1. exists (String d h), t. auto.
      * destruct IH as (h & E1). rewrite E1. exists (String d h). reflexivity.
Qed.

Lemma nm_stem_split : forall name,
  let L := split_on "_" (cut_dot name) in
  let M := split_on "_" (spec_stem name) in
  (exists q, q <> [] /\ L = (q ++ ["test"])%list /\ M = q) \/
  (M = L /\ forall q, q <> [] -> L <> (q ++ ["test"])%list).
Proof.
  intros name L M. subst L M. unfold spec_stem.
  destruct (has_suffix "_test" (cut_dot name)) eqn:E.
  - left. apply nm_has_suffix_iff in E as [p Hp]. rewrite Hp.
    exists (split_on "_" p). split; [apply nm_split_ne|]. split.
    + change "_test" with (String "_" "test"). rewrite nm_split_app. reflexivity.
    + change 5 with (String.length "_test"). rewrite nm_drop_last_app. reflexivity.
  - right. split; [reflexivity|]. intros q Hq HL.
    apply (nm_split_suffix1 "_") in HL; [|exact Hq].
    change (String "_" "test") with "_test" in HL. congruence.
Qed.

Lemma nm_name_tags_parts : forall name,
  name_tags name = pick (rev (tl (split_on "_" (spec_stem name)))).
Proof.
  intros name. rewrite nm_name_tags_unf.
  pose proof (nm_stem_split name) as HS. cbv zeta in HS.
  pose proof (nm_ffu_split (cut_dot name)) as HF.
  destruct (from_first_us (cut_dot name)) as [rest|].
  - destruct HF as (h & t & EL & Ht & ER). rewrite ER.
    destruct HS as [(q & Hq & HL & HM) | (HM & Hno)].
    + rewrite HM. rewrite EL in HL. destruct q as [|h' q']; [congruence|].
      cbn [app] in HL. injection HL as Hh Htt. subst h t.
      unfold strip. change ("" :: (q' ++ ["test"]))%list with (("" :: q') ++ ["test"])%list.
      rewrite rev_unit. cbv beta iota. rewrite String.eqb_refl, rev_involutive.
      cbn [tl]. change (rev ("" :: q')) with (rev q' ++ [""])%list. apply nm_pick_snoc_empty.
    + rewrite HM, EL. cbn [tl]. destruct (exists_last Ht) as (t' & x & ->).
      unfold strip. change ("" :: (t' ++ [x]))%list with (("" :: t') ++ [x])%list.
      rewrite rev_unit. cbv beta iota. destruct (String.eqb_spec x "test") as [->|_].
      * exfalso. apply (Hno (h :: t')); [discriminate|]. rewrite EL. reflexivity.
      * change (rev (("" :: t') ++ [x])%list) with (rev (t' ++ [x]) ++ [""])%list.
        apply nm_pick_snoc_empty.
  - destruct HF as (h & EL). destruct HS as [(q & Hq & HL & HM) | (HM & _)].
    + exfalso. rewrite EL in HL. destruct q as [|a [|b q]]; [congruence | discriminate | discriminate].
    + rewrite HM, EL. reflexivity.
Qed.

Definition spec_of_stem (b : string) : list string :=
  match find_os_arch b with
  | Some (o, a) => [a; o]
  | None => match find_one b with
            | Some x => [x]
            | None => []
            end
  end.

Lemma nm_rev_eq : forall (t R : list string), rev t = R -> t = rev R.
Proof. intros t R <-. symmetry. apply rev_involutive. Qed.

Lemma nm_spec_parts : forall b, spec_of_stem b = pick (rev (tl (split_on "_" b))).
Proof.
  intros b. unfold spec_of_stem. destruct (nm_split_cons "_" b) as (h & t & EM).
  destruct (find_os_arch b) as [[o a]|] eqn:F.
  - unfold find_os_arch in F. apply find_some in F as [Hin Hs].
    apply in_prod_iff in Hin as [Ho Ha]. cbn [fst snd] in Hs.
    change ("_" ++ o ++ "_" ++ a) with (String "_" (o ++ String "_" a)) in Hs.
    apply nm_suffix_split2 in Hs;
      [| apply nm_known_free, in_or_app; left; exact Ho
       | apply nm_known_free, in_or_app; right; exact Ha].
    destruct Hs as (q & Hq & E). rewrite E. destruct q as [|h' q']; [congruence|].
    cbn [app tl]. change (q' ++ [o; a])%list with (q' ++ ([o] ++ [a]))%list.
    rewrite app_assoc, !rev_unit. cbn [pick]. unfold known_os_b, known_arch_b.
    rewrite (proj2 (mem_In o known_os) Ho), (proj2 (mem_In a known_arch) Ha). reflexivity.
  - pose proof (find_none _ _ F) as Hnone.
    assert (N2 : forall q o a, q <> [] -> split_on "_" b = (q ++ [o; a])%list ->
                 known_os_b o && known_arch_b a = false).
    { intros q o a Hq E. destruct (known_os_b o && known_arch_b a) eqn:K; [|reflexivity].
      apply andb_true_iff in K as [K1 K2]. apply mem_In in K1, K2.
      specialize (Hnone (o, a) (proj2 (in_prod_iff _ _ _ _) (conj K1 K2))).
      cbn [fst snd] in Hnone.
      change ("_" ++ o ++ "_" ++ a) with (String "_" (o ++ String "_" a)) in Hnone.
      rewrite (nm_split_suffix2 "_" b q o a Hq E) in Hnone. discriminate. }
    destruct (find_one b) as [x|] eqn:G.
    + unfold find_one in G. apply find_some in G as [Hin Hs].
      change ("_" ++ x) with (String "_" x) in Hs.
      apply nm_suffix_split1 in Hs; [|apply nm_known_free; exact Hin].
      destruct Hs as (q & Hq & E). apply nm_known_or in Hin.
      rewrite E. destruct q as [|h' q']; [congruence|]. cbn [app tl]. rewrite rev_unit.
      destruct (rev q') as [|o R] eqn:ER; cbn [pick].
      * rewrite Hin. reflexivity.
      * apply nm_rev_eq in ER. cbn [rev] in ER. subst q'.
        rewrite (N2 (h' :: rev R) o x), Hin; [reflexivity | discriminate |].
        rewrite E. cbn [app]. rewrite <- app_assoc. reflexivity.
    + pose proof (find_none _ _ G) as Hn1.
      assert (N1 : forall q a, q <> [] -> split_on "_" b = (q ++ [a])%list ->
                   known_os_b a || known_arch_b a = false).
      { intros q a Hq E. destruct (known_os_b a || known_arch_b a) eqn:K; [|reflexivity].
        apply nm_known_or in K. specialize (Hn1 a K). cbv beta in Hn1.
        change ("_" ++ a) with (String "_" a) in Hn1.
        rewrite (nm_split_suffix1 "_" b q a Hq E) in Hn1. discriminate. }
      rewrite EM. cbn [tl]. destruct (rev t) as [|a [|o R]] eqn:ER; cbn [pick].
      * reflexivity.
      * apply nm_rev_eq in ER. cbn [rev app] in ER. subst t.
        rewrite (N1 [h] a); [reflexivity | discriminate | exact EM].
      * apply nm_rev_eq in ER. cbn [rev] in ER. subst t.
        rewrite (N2 (h :: rev R) o a), (N1 (h :: rev R ++ [o])%list a);
          [reflexivity | discriminate | exact EM | discriminate |].
        rewrite EM. cbn [app]. rewrite <- app_assoc. reflexivity.
Qed.

(* ====================================================================== *)
(* 4. the rule equals the suffix specification, for every name            *)
(* ====================================================================== *)

Theorem name_rule_eq_spec : forall name : string, name_tags name = spec_name_tags name.
Proof.
  intros name. rewrite nm_name_tags_parts.
  change (spec_name_tags name) with (spec_of_stem (spec_stem name)).
  symmetry. apply nm_spec_parts.
Qed.

Theorem good_name_eq_spec : forall e name, good_os_arch_file e name = spec_good_name e name.
Proof.
  intros e name. unfold good_os_arch_file, spec_good_name. rewrite name_rule_eq_spec. reflexivity.
Qed.

(* ====================================================================== *)
(* 5. the text-level (propositional) form of the go/build documentation   *)
(* ====================================================================== *)

(* stem = the name up to the first "." *)
Definition stem_of (name stem : string) : Prop :=
  contains_char "." stem = false /\ (name = stem \/ exists r, name = stem ++ "." ++ r).

(* b = stem without one trailing "_test" *)
Definition untested (stem b : string) : Prop :=
  stem = b ++ "_test" \/ (b = stem /\ forall p, stem <> p ++ "_test").

Definition os_arch_form (b o a : string) : Prop :=
  exists p, b = p ++ "_" ++ o ++ "_" ++ a /\ In o known_os /\ In a known_arch.

Definition one_form (b x : string) : Prop :=
  exists p, b = p ++ "_" ++ x /\ In x (known_os ++ known_arch)%list.

Inductive name_requires (name : string) : list string -> Prop :=
| NR2 : forall stem b o a, stem_of name stem -> untested stem b -> os_arch_form b o a ->
        name_requires name [a; o]
| NR1 : forall stem b x, stem_of name stem -> untested stem b ->
        (forall o a, ~ os_arch_form b o a) -> one_form b x -> name_requires name [x]
| NR0 : forall stem b, stem_of name stem -> untested stem b ->
        (forall o a, ~ os_arch_form b o a) -> (forall x, ~ one_form b x) -> name_requires name [].

Lemma nm_cut_dot_free : forall s, contains_char "." (cut_dot s) = false.
Proof.
  induction s as [|d r IH]; cbn [cut_dot]; [reflexivity|].
  destruct (Ascii.eqb d ".") eqn:E; [reflexivity|].
  cbn [contains_char]. rewrite Ascii.eqb_sym, E, IH. reflexivity.
Qed.

Lemma nm_cut_dot_decomp : forall s, s = cut_dot s \/ exists r, s = cut_dot s ++ "." ++ r.
Proof.
  induction s as [|d r IH]; cbn [cut_dot]; [left; reflexivity|].
  destruct (Ascii.eqb_spec d ".") as [->|_].
  - right. exists r. reflexivity.
  - destruct IH as [IH|[r' IH]].
    + left. f_equal. exact IH.
    + right. exists r'. change (String d r = String d (cut_dot r ++ "." ++ r')). f_equal. exact IH.
Qed.

Lemma nm_cut_dot_of_stem : forall stem, contains_char "." stem = false ->
  cut_dot stem = stem /\ forall r, cut_dot (stem ++ "." ++ r) = stem.
Proof.
  induction stem as [|d s IH]; intros H.
  - split; reflexivity.
  - cbn [contains_char] in H. apply orb_false_iff in H as [H1 H2]. rewrite Ascii.eqb_sym in H1.
    destruct (IH H2) as [I1 I2]. split.
    + cbn [cut_dot]. rewrite H1, I1. reflexivity.
    + intros r. change (String d s ++ "." ++ r) with (String d (s ++ "." ++ r)).
      cbn [cut_dot]. rewrite H1, I2. reflexivity.
Qed.

Lemma nm_stem_of_iff : forall name stem, stem_of name stem <-> stem = cut_dot name.
Proof.
  intros name stem. split.
  - intros [Hf [->|[r ->]]].
    + symmetry. apply nm_cut_dot_of_stem. exact Hf.
    + symmetry. apply (proj2 (nm_cut_dot_of_stem _ Hf)).
  - intros ->. split; [apply nm_cut_dot_free | apply nm_cut_dot_decomp].
Qed.

Lemma nm_untested_iff : forall stem b,
  untested stem b <-> b = if has_suffix "_test" stem then drop_last 5 stem else stem.
Proof.
  intros stem b. split.
  - intros [->|[-> Hno]].
    + rewrite (proj2 (nm_has_suffix_iff "_test" (b ++ "_test"))) by (exists b; reflexivity).
      change 5 with (String.length "_test"). rewrite nm_drop_last_app. reflexivity.
    + destruct (has_suffix "_test" stem) eqn:E; [|reflexivity].
      apply nm_has_suffix_iff in E as [p Hp]. exfalso. exact (Hno p Hp).
  - intros ->. destruct (has_suffix "_test" stem) eqn:E.
    + apply nm_has_suffix_iff in E as [p ->]. left.
      change 5 with (String.length "_test"). rewrite nm_drop_last_app. reflexivity.
    + right. split; [reflexivity|]. intros p Hp.
      rewrite (proj2 (nm_has_suffix_iff "_test" stem)) in E by (exists p; exact Hp). discriminate.
Qed.

Lemma nm_os_arch_form_iff : forall b o a,
  os_arch_form b o a <->
  In (o, a) (list_prod known_os known_arch) /\ has_suffix ("_" ++ o ++ "_" ++ a) b = true.
Proof.
  intros b o a. unfold os_arch_form. rewrite in_prod_iff, nm_has_suffix_iff. split.
  - intros (p & E & Ho & Ha). split; [split; assumption | exists p; exact E].
  - intros ((Ho & Ha) & p & E). exists p. auto.
Qed.

Lemma nm_one_form_iff : forall b x,
  one_form b x <-> In x (known_os ++ known_arch)%list /\ has_suffix ("_" ++ x) b = true.
Proof.
  intros b x. unfold one_form. rewrite nm_has_suffix_iff. split.
  - intros (p & E & H). split; [exact H | exists p; exact E].
  - intros (H & p & E). exists p. auto.
Qed.

Lemma nm_os_arch_form_unique : forall b o a o' a',
  os_arch_form b o a -> os_arch_form b o' a' -> o = o' /\ a = a'.
Proof.
  intros b o a o' a' H H'. apply nm_os_arch_form_iff in H as [Hin Hs], H' as [Hin' Hs'].
  apply in_prod_iff in Hin as [Ho Ha], Hin' as [Ho' Ha'].
  change ("_" ++ o ++ "_" ++ a) with (String "_" (o ++ String "_" a)) in Hs.
  change ("_" ++ o' ++ "_" ++ a') with (String "_" (o' ++ String "_" a')) in Hs'.
  apply nm_suffix_split2 in Hs;
    [| apply nm_known_free, in_or_app; left; assumption
     | apply nm_known_free, in_or_app; right; assumption].
  apply nm_suffix_split2 in Hs';
    [| apply nm_known_free, in_or_app; left; assumption
     | apply nm_known_free, in_or_app; right; assumption].
  destruct Hs as (q & _ & E), Hs' as (q' & _ & E'). rewrite E in E'.
  change (q ++ [o; a])%list with (q ++ ([o] ++ [a]))%list in E'.
  change (q' ++ [o'; a'])%list with (q' ++ ([o'] ++ [a']))%list in E'.
  rewrite !app_assoc in E'. apply app_inj_tail in E' as [E1 E2].
  apply app_inj_tail in E1 as [_ E1]. auto.
Qed.

Lemma nm_one_form_unique : forall b x x', one_form b x -> one_form b x' -> x = x'.
Proof.
  intros b x x' H H'. apply nm_one_form_iff in H as [Hin Hs], H' as [Hin' Hs'].
  change ("_" ++ x) with (String "_" x) in Hs. change ("_" ++ x') with (String "_" x') in Hs'.
  apply nm_suffix_split1 in Hs; [|apply nm_known_free; assumption].
  apply nm_suffix_split1 in Hs'; [|apply nm_known_free; assumption].
  destruct Hs as (q & _ & E), Hs' as (q' & _ & E'). rewrite E in E'.
  apply app_inj_tail in E' as [_ E']. exact E'.
Qed.

Lemma nm_find_os_arch_some : forall b o a, find_os_arch b = Some (o, a) -> os_arch_form b o a.
Proof.
  intros b o a F. unfold find_os_arch in F. apply find_some in F as [Hin Hs].
  cbn [fst snd] in Hs. apply nm_os_arch_form_iff. auto.
Qed.

Lemma nm_find_os_arch_none : forall b, find_os_arch b = None -> forall o a, ~ os_arch_form b o a.
Proof.
  intros b F o a H. apply nm_os_arch_form_iff in H as [Hin Hs].
  pose proof (find_none _ _ F (o, a) Hin) as N. cbn [fst snd] in N. congruence.
Qed.

Lemma nm_find_one_some : forall b x, find_one b = Some x -> one_form b x.
Proof.
  intros b x F. unfold find_one in F. apply find_some in F as [Hin Hs].
  apply nm_one_form_iff. auto.
Qed.

Lemma nm_find_one_none : forall b, find_one b = None -> forall x, ~ one_form b x.
Proof.
  intros b F x H. apply nm_one_form_iff in H as [Hin Hs].
  pose proof (find_none _ _ F x Hin) as N. cbv beta in N. congruence.
Qed.

Lemma nm_spec_stem_forms : forall name,
  stem_of name (cut_dot name) /\ untested (cut_dot name) (spec_stem name).
Proof.
  intros name. split; [apply nm_stem_of_iff; reflexivity | apply nm_untested_iff; reflexivity].
Qed.

Lemma nm_forms_spec_stem : forall name stem b, stem_of name stem -> untested stem b -> b = spec_stem name.
Proof.
  intros name stem b H1 H2. apply nm_stem_of_iff in H1. subst stem.
  apply nm_untested_iff in H2. exact H2.
Qed.

(* the rule satisfies the text-level specification ... *)
Theorem name_rule_sound_text_spec : forall name, name_requires name (name_tags name).
Proof.
  intros name. rewrite name_rule_eq_spec. unfold spec_name_tags.
  destruct (nm_spec_stem_forms name) as [H1 H2].
  destruct (find_os_arch (spec_stem name)) as [[o a]|] eqn:F.
  - eapply NR2; [exact H1 | exact H2 | apply nm_find_os_arch_some; exact F].
  - destruct (find_one (spec_stem name)) as [x|] eqn:G.
    + eapply NR1; [exact H1 | exact H2 | apply nm_find_os_arch_none; exact F
                  | apply nm_find_one_some; exact G].
    + eapply NR0; [exact H1 | exact H2 | apply nm_find_os_arch_none; exact F
                  | apply nm_find_one_none; exact G].
Qed.

(* ... and the text-level specification determines the tags *)
Theorem name_text_spec_functional : forall name ts, name_requires name ts -> ts = name_tags name.
Proof.
  intros name ts H. rewrite name_rule_eq_spec. unfold spec_name_tags.
  destruct H as [stem b o a H1 H2 H3 | stem b x H1 H2 H3 H4 | stem b H1 H2 H3 H4];
    rewrite <- (nm_forms_spec_stem name stem b H1 H2).
  - destruct (find_os_arch b) as [[o' a']|] eqn:F.
    + apply nm_find_os_arch_some in F. destruct (nm_os_arch_form_unique _ _ _ _ _ H3 F) as [-> ->].
      reflexivity.
    + exfalso. exact (nm_find_os_arch_none b F o a H3).
  - destruct (find_os_arch b) as [[o' a']|] eqn:F.
    + exfalso. apply nm_find_os_arch_some in F. exact (H3 _ _ F).
    + destruct (find_one b) as [x'|] eqn:G.
      * apply nm_find_one_some in G. rewrite (nm_one_form_unique _ _ _ H4 G). reflexivity.
      * exfalso. exact (nm_find_one_none b G x H4).
  - destruct (find_os_arch b) as [[o' a']|] eqn:F.
    + exfalso. apply nm_find_os_arch_some in F. exact (H3 _ _ F).
    + destruct (find_one b) as [x'|] eqn:G.
      * exfalso. apply nm_find_one_some in G. exact (H4 _ G).
      * reflexivity.
Qed.

Theorem name_rule_iff_text_spec : forall name ts, name_requires name ts <-> name_tags name = ts.
Proof.
  intros name ts. split.
  - intros H. symmetry. apply name_text_spec_functional. exact H.
  - intros <-. apply name_rule_sound_text_spec.
Qed.
