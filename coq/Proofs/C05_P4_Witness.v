(* C05 phase 4 — witnesses: the soundness statement without the spelling hypothesis is false (two
   recorded findings), and a non-vacuity example. *)
From Coq Require Import List String Bool NArith Arith.
From Verif Require Import Model.C05_Select Model.C05_Record Proofs.C05_Select Proofs.C05_P4_Record.
Import ListNotations.
Local Open Scope list_scope.
Local Open Scope string_scope.

Definition mkg (k : gkind) (name : string) (targs : tys) (root : bool) (b : list ref) : gdecl :=
  {| g_kind := k; g_pkg := "main"; g_name := name; g_targs := targs; g_root := root; g_body := b |}.

(* ---- witness 1: interface method write([]byte) rune, implementation write([]uint8) int32 -------- *)
Definition w1_main : gdecl :=
  mkg KFunc "main" TNil true [RType (TNamed "main" "buf" TNil); RIMeth (Some ("main", "sink")) "main" "write" sig_write_byte].
Definition w1_meth : gdecl := mkg (KMethod "write" sig_write_uint8) "buf" TNil false [].
Definition w1 : prog := [w1_main; mkg (KType TNil) "buf" TNil false []; w1_meth].

Lemma w1_reach : Reach w1 w1_meth.
Proof.
  apply (R_dispatch w1 w1_main (RIMeth (Some ("main", "sink")) "main" "write" sig_write_byte) w1_meth
                    w1_main (RType (TNamed "main" "buf" TNil))).
  - apply R_root; [simpl; auto|reflexivity].
  - simpl. auto.
  - apply D_imeth. exists sig_write_uint8. split; [reflexivity|]. split; [reflexivity|reflexivity].
  - simpl. auto.
  - apply R_root; [simpl; auto|reflexivity].
  - simpl. auto.
  - exists (TNamed "main" "buf" TNil), TNil. split; [reflexivity|]. split; [simpl; auto|reflexivity].
Qed.

Definition select_sound_full_statement : Prop :=
  forall p g i, Reach p g -> nth_error p i = Some g ->
  exists ids, select (compile p) = Some ids /\ In (N.of_nat i) ids.

(* since the repair of the alias-spelling findings the historic witness is selected *)
Theorem select_sound_alias_witness_iface :
  Reach w1 w1_meth /\ exists ids, select (compile w1) = Some ids /\ In 2%N ids.
Proof. split; [exact w1_reach|]. eexists. split; [vm_compute; reflexivity|]. vm_compute. tauto. Qed.

(* ---- witness 2: instance F[byte] named in dead code, F[uint8] needed by main --------------------- *)
Definition w2_main : gdecl := mkg KFunc "main" TNil true [RFunc "main" "F" (TCons (TBasic BUint8) TNil)].
Definition w2_inst : gdecl := mkg KFunc "F" (TCons (TBasic BByte) TNil) false [].
Definition w2 : prog := [w2_main; mkg (KHolder 1) "F" TNil false []; w2_inst].

Theorem select_sound_alias_witness_instance :
  Reach w2 w2_inst /\ exists ids, select (compile w2) = Some ids /\ In 2%N ids.
Proof.
  split.
  - apply (R_needs w2 w2_main (RFunc "main" "F" (TCons (TBasic BUint8) TNil)) w2_inst).
    + apply R_root; [simpl; auto|reflexivity].
    + simpl. auto.
    + apply N_func; [reflexivity|]. repeat split; reflexivity.
    + simpl. auto.
  - eexists. split; [vm_compute; reflexivity|]. vm_compute. tauto.
Qed.

(* ---- non-vacuity: unexported method of a generic instance reached only through an interface ------- *)
Definition tint : ty := TBasic BInt.
Definition sig_get_decl : msig := {| ms_params := TCons (TParam 0) TNil; ms_variadic := false; ms_results := TCons (TSlice (TParam 0)) TNil |}.
Definition sig_get_int : msig := {| ms_params := TCons tint TNil; ms_variadic := false; ms_results := TCons (TSlice tint) TNil |}.
Definition p4_example_main : gdecl :=
  mkg KFunc "main" TNil true [RType (TNamed "main" "G" (TCons tint TNil)); RIMeth (Some ("main", "I")) "main" "get" sig_get_int].
Definition p4_example_method : gdecl := mkg (KMethod "get" sig_get_decl) "G" (TCons tint TNil) false [].
Definition p4_example : prog :=
  [ p4_example_main;
    mkg (KHolder 1) "G" TNil false [];
    mkg (KType (TCons (TSlice tint) TNil)) "G" (TCons tint TNil) false [];
    p4_example_method;
    mkg (KType TNil) "U" TNil false [];
    mkg (KMethod "get" sig_get_int) "U" TNil false [] ].

Lemma p4_example_ok :
  prog_ok p4_example = true /\ Reach p4_example p4_example_method /\
  nth_error p4_example 3 = Some p4_example_method /\
  exists ids, select (compile p4_example) = Some ids /\ In 3%N ids /\ ~ In 5%N ids.
Proof.
  split; [vm_compute; reflexivity|]. split; [|split; [reflexivity|]].
  - apply (R_dispatch p4_example p4_example_main (RIMeth (Some ("main", "I")) "main" "get" sig_get_int) p4_example_method
                      p4_example_main (RType (TNamed "main" "G" (TCons tint TNil)))).
    + apply R_root; [simpl; auto|reflexivity].
    + simpl. auto.
    + apply D_imeth. exists sig_get_decl. split; [reflexivity|]. split; [reflexivity|reflexivity].
    + simpl. auto 6.
    + apply R_root; [simpl; auto|reflexivity].
    + simpl. auto.
    + exists (TNamed "main" "G" (TCons tint TNil)), (TCons tint TNil). split; [reflexivity|]. split; [simpl; auto|reflexivity].
  - eexists. split; [vm_compute; reflexivity|]. split.
    + vm_compute. auto 10.
    + vm_compute. intro Hin. repeat (destruct Hin as [Hin|Hin]; [discriminate|]). contradiction.
Qed.
