(* C13 — to_eq_linear instantiated with the real CaseRanges table regenerated from GOROOT. *)
From Coq Require Import ZArith List Bool.
From Verif Require Import Model.C13_Unicode Proofs.C13_Unicode Gen.C13_CaseRanges.
Local Open Scope Z_scope.

Lemma caseranges_sorted : table_sorted CaseRanges = true.
Proof. vm_compute. reflexivity. Qed.

Theorem to_caseranges_correct : forall c r,
  to_js CaseRanges c r = to_go CaseRanges c r /\ to_js CaseRanges c r = to_linear CaseRanges c r.
Proof. intros. split; [apply to_js_eq_go | apply to_eq_linear; exact caseranges_sorted]. Qed.
