(* C12 — constants keep their values: lemmas about Model.C12_Merge.file_consts under the
   rewrite of the original files, for both variants of the code. *)
From Coq Require Import List String Ascii Bool NArith ZArith Arith Lia.
From Verif Require Import Gen.C12_Tables Model.C12_Merge Model.C12_Law Proofs.C12_Merge.
Import ListNotations.
Local Open Scope string_scope.

Arguments String.eqb : simpl never.
Arguments has_key : simpl never.
Arguments Z.add : simpl never.

Definition raw_consts (f : file) : list (string * option Z) := flat_map decl_consts f.

Lemma in_file_consts n z f :
  In (n, z) (file_consts f) <-> In (n, z) (raw_consts f) /\ String.eqb n "_" = false.
Proof.
  unfold file_consts, raw_consts. rewrite filter_In. unfold is_blank. simpl.
  rewrite negb_true_iff. tauto.
Qed.

(* ---- pruneImports does not touch constants *)

Lemma apply_specs_consts act ss : forall idx i p,
  const_specs i p (fst (fst (apply_specs act idx ss))) = const_specs i p ss.
Proof.
  induction ss as [|s r IH]; intros idx i p; simpl; auto.
  destruct s as [im|t|v].
  - specialize (IH (S idx) i p). destruct (apply_specs act (S idx) r) as [[r' ch] n]. simpl in *.
    destruct (act idx); simpl; auto.
  - specialize (IH idx i p). destruct (apply_specs act idx r) as [[r' ch] n]. simpl in *. auto.
  - destruct (apply_specs act idx r) as [[r' ch] n] eqn:E. simpl. f_equal.
    specialize (IH idx). rewrite E in IH. simpl in IH. apply IH.
Qed.

Lemma apply_imports_consts act f : forall idx, raw_consts (apply_imports act idx f) = raw_consts f.
Proof.
  unfold raw_consts. induction f as [|d r IH]; intros idx; simpl; auto.
  destruct d as [fd|g].
  - simpl. apply IH.
  - pose proof (apply_specs_consts act (g_specs g) idx) as H.
    destruct (apply_specs act idx (g_specs g)) as [[ss ch] n]. simpl in H.
    destruct (ch && match ss with [] => true | _ :: _ => false end) eqn:E.
    + rewrite IH. destruct ss; [|rewrite andb_false_r in E; discriminate].
      specialize (H 0%Z []). simpl in H. simpl. destruct (g_tok g); simpl; auto. rewrite <- H. reflexivity.
    + simpl. rewrite IH. f_equal. destruct (g_tok g); auto.
Qed.

Lemma only_imports_consts f : is_only_imports f = true -> raw_consts f = [].
Proof.
  unfold raw_consts, is_only_imports. induction f as [|d r IH]; simpl; intros H; auto.
  apply andb_prop in H. destruct H as [H1 H2]. rewrite (IH H2). rewrite app_nil_r.
  destruct d as [fd|g]; simpl in *; [discriminate|].
  destruct (g_tok g); try discriminate; reflexivity.
Qed.

Lemma prune_consts f : raw_consts (prune_imports f) = raw_consts f.
Proof.
  unfold prune_imports.
  destruct (is_only_imports f && negb (has_directive_prefix f linkname_prefix)) eqn:E.
  - apply andb_prop in E. destruct E as [E _]. symmetry. apply only_imports_consts. exact E.
  - match goal with |- context [match ?u with [] => _ | _ => _ end] => destruct u end; auto.
    apply apply_imports_consts.
Qed.

(* ---- names and values *)

Lemma zip_blank ov i ns : forall vals n z,
  In (n, z) (zip_consts i ns vals) -> has_key n ov = false ->
  In (n, z) (zip_consts i (blank_names ov ns) vals).
Proof.
  induction ns as [|m r IH]; intros vals n z H K; simpl in *; [contradiction|].
  destruct vals as [|v vs]; simpl in *.
  - destruct H as [H|H].
    + injection H as H1 H2. subst. rewrite K. left; reflexivity.
    + right. apply (IH [] n z H K).
  - destruct H as [H|H].
    + injection H as H1 H2. subst. rewrite K. left; reflexivity.
    + right. apply (IH vs n z H K).
Qed.

Lemma zip_names i ns : forall vals n z, In (n, z) (zip_consts i ns vals) -> In n ns.
Proof.
  induction ns as [|m r IH]; intros vals n z H; simpl in *; [contradiction|].
  destruct vals as [|v vs]; simpl in *; destruct H as [H|H];
    try (injection H as H1 H2; subst; left; reflexivity); right; eapply IH; eauto.
Qed.

Lemma blank_names_id (ov : overrides) ns :
  forallb (fun n => negb (has_key n ov)) ns = true -> blank_names ov ns = ns.
Proof.
  induction ns as [|m r IH]; simpl; intros H; auto.
  apply andb_prop in H. destruct H as [H1 H2]. rewrite negb_true_iff in H1. rewrite H1. f_equal; auto.
Qed.

Lemma nokey_existsb (ov : overrides) ns :
  forallb (fun n => negb (has_key n ov)) ns = true -> existsb (fun n => has_key n ov) ns = false.
Proof.
  induction ns as [|m r IH]; simpl; intros H; auto.
  apply andb_prop in H. destruct H as [H1 H2]. rewrite negb_true_iff in H1. rewrite H1. simpl. auto.
Qed.

Lemma zip_filter ov i ns : forall vs n z,
  List.length ns = List.length vs ->
  In (n, z) (zip_consts i ns vs) -> has_key n ov = false ->
  In (n, z) (zip_consts i (fst (filter_pairs ov ns vs)) (snd (filter_pairs ov ns vs))).
Proof.
  induction ns as [|m r IH]; intros vs n z L H K; simpl in *; [contradiction|].
  destruct vs as [|v vs']; [discriminate|]. simpl in L. injection L as L. simpl in H.
  specialize (IH vs' n z L).
  destruct (filter_pairs ov r vs') as [a b] eqn:E. simpl in IH.
  destruct H as [H|H].
  - injection H as H1 H2. subst. rewrite K. simpl. left. reflexivity.
  - destruct (has_key m ov); simpl; [apply IH; auto|right; apply IH; auto].
Qed.

(* ---- a parenthesised const group under the blanking variant *)

Lemma specs_blank ov ss : forall i p n z,
  In (n, z) (const_specs i p ss) -> has_key n ov = false ->
  In (n, z) (const_specs i p (fst (fst (rewrite_specs true true ov ss)))).
Proof.
  induction ss as [|s r IH]; intros i p n z H K; simpl in *; [contradiction|].
  destruct (rewrite_specs true true ov r) as [[r' ch] dch] eqn:E. simpl in IH.
  destruct s as [im|t|v]; simpl in *.
  - exact (IH i p n z H K).
  - destruct (has_key (t_name t) ov); simpl; exact (IH i p n z H K).
  - unfold rewrite_vspec. simpl.
    apply in_app_or in H. apply in_or_app. destruct H as [H|H].
    + left. apply zip_blank; auto.
    + right. exact (IH _ _ n z H K).
Qed.

(* ---- specs without overridden names are left alone (as far as constants go) *)

Lemma vspec_nokey cb grp ov v :
  forallb (fun n => negb (has_key n ov)) (v_names v) = true ->
  exists v', fst (rewrite_vspec cb grp ov v) = Some v' /\ v_names v' = v_names v /\ v_values v' = v_values v.
Proof.
  intros H. pose proof (nokey_existsb ov _ H) as X. pose proof (blank_names_id ov _ H) as B.
  unfold rewrite_vspec. destruct (cb && grp).
  - eexists; split; [reflexivity|]. simpl. rewrite B. auto.
  - destruct (Nat.eqb (List.length (v_names v)) (List.length (v_values v))) eqn:L.
    + apply Nat.eqb_eq in L. rewrite (filter_pairs_id ov _ _ L X). rewrite X.
      destruct (v_names v) eqn:N; simpl.
      * exists v. split; [reflexivity|split; [exact N|reflexivity]].
      * eexists; split; [reflexivity|]. simpl. auto.
    + rewrite X. simpl. eexists; split; [reflexivity|]. simpl. rewrite B. auto.
Qed.

Lemma specs_nokey cb grp ov ss :
  forallb (fun n => negb (has_key n ov)) (flat_map spec_names ss) = true ->
  forall i p, const_specs i p (fst (fst (rewrite_specs cb grp ov ss))) = const_specs i p ss.
Proof.
  induction ss as [|s r IH]; intros H i p; simpl in *; auto.
  destruct (rewrite_specs cb grp ov r) as [[r' ch] dch] eqn:E. simpl in IH.
  destruct s as [im|t|v]; simpl in *.
  - apply IH; auto.
  - destruct (has_key (t_name t) ov); simpl; apply IH; auto.
  - rewrite forallb_app in H. apply andb_prop in H. destruct H as [H1 H2].
    destruct (vspec_nokey cb grp ov v H1) as [v' [A [B C]]].
    destruct (rewrite_vspec cb grp ov v) as [[v''|] c]; simpl in A; [|discriminate].
    injection A as A. subst v''. simpl. rewrite B, C. f_equal. apply IH; auto.
Qed.

(* ---- a declaration holding a single spec *)

Lemma single_vspec cb ov v n z :
  In (n, z) (zip_consts 0 (v_names v) (v_values v)) -> has_key n ov = false -> String.eqb n "_" = false ->
  match fst (rewrite_vspec cb false ov v) with
  | Some v' => In (n, z) (zip_consts 0 (v_names v') (v_values v'))
  | None => False
  end.
Proof.
  intros H K NB. unfold rewrite_vspec. rewrite andb_false_r.
  destruct (Nat.eqb (List.length (v_names v)) (List.length (v_values v))) eqn:L.
  - apply Nat.eqb_eq in L. pose proof (zip_filter ov 0%Z _ _ n z L H K) as F.
    destruct (filter_pairs ov (v_names v) (v_values v)) as [a b]. simpl in F.
    destruct a as [|a0 a']; simpl.
    + simpl in F. contradiction.
    + exact F.
  - pose proof (zip_blank ov 0%Z _ _ n z H K) as Bk.
    destruct (existsb (fun n0 => has_key n0 ov) (v_names v) && forallb (String.eqb "_") (blank_names ov (v_names v))) eqn:X; simpl.
    + apply andb_prop in X. destruct X as [_ X]. apply zip_names in Bk.
      rewrite forallb_forall in X. specialize (X n Bk). rewrite String.eqb_sym in X. congruence.
    + exact Bk.
Qed.

Definition odecl_consts (o : option decl) : list (string * option Z) :=
  match o with Some d => decl_consts d | None => [] end.

Lemma values_or_nil (vs : list vexpr) : match vs with [] => [] | v0 :: l => v0 :: l end = vs.
Proof. destruct vs; reflexivity. Qed.

Lemma rewrite_decl_consts cb ov d n z :
  wf_paren_decl d = true -> (cb = true \/ decl_nokey ov d = true) ->
  In (n, z) (decl_consts d) -> has_key n ov = false -> String.eqb n "_" = false ->
  In (n, z) (odecl_consts (fst (rewrite_decl cb ov d))).
Proof.
  destruct d as [f|g]; simpl; [intros _ _ []|].
  intros W C H K NB.
  destruct (g_tok g) eqn:T; try contradiction.
  destruct (g_paren g) eqn:Pn.
  - assert (G : is_const_group g = true) by (unfold is_const_group; rewrite T; exact Pn).
    rewrite G in *. simpl in C. destruct C as [C|C].
    + subst cb. pose proof (specs_blank ov (g_specs g) 0%Z [] n z H K) as S.
      destruct (rewrite_specs true true ov (g_specs g)) as [[ss ch] dch]. simpl in S.
      destruct (dch && match ss with [] => true | _ :: _ => false end) eqn:E; simpl.
      * destruct ss; [simpl in S; contradiction|rewrite andb_false_r in E; discriminate].
      * exact S.
    + pose proof (specs_nokey cb true ov (g_specs g) C 0%Z []) as S.
      destruct (rewrite_specs cb true ov (g_specs g)) as [[ss ch] dch]. simpl in S.
      destruct (dch && match ss with [] => true | _ :: _ => false end) eqn:E; simpl.
      * destruct ss; [|rewrite andb_false_r in E; discriminate]. simpl in S. rewrite <- S in H. contradiction.
      * rewrite S. exact H.
  - assert (G : is_const_group g = false) by (unfold is_const_group; rewrite T; exact Pn).
    rewrite G. simpl in W.
    destruct (g_specs g) as [|s [|s2 r]] eqn:SP; simpl in W; try discriminate.
    + simpl in H. contradiction.
    + destruct s as [im|t|v]; simpl in H; try contradiction.
      rewrite app_nil_r in H. rewrite values_or_nil in H.
      pose proof (single_vspec cb ov v n z H K NB) as S. simpl.
      destruct (rewrite_vspec cb false ov v) as [[v'|] c]; simpl in *; [|contradiction].
      rewrite app_nil_r. rewrite values_or_nil. exact S.
Qed.

Lemma rewrite_decls_consts cb ov ds n z :
  wf_paren ds = true -> (cb = true \/ no_override_in_const_groups ov ds = true) ->
  In (n, z) (raw_consts ds) -> has_key n ov = false -> String.eqb n "_" = false ->
  In (n, z) (raw_consts (fst (rewrite_decls cb ov ds))).
Proof.
  unfold wf_paren, no_override_in_const_groups, raw_consts.
  induction ds as [|d r IH]; simpl; intros W C H K NB; [contradiction|].
  apply andb_prop in W. destruct W as [W1 W2].
  assert (C12 : (cb = true \/ decl_nokey ov d = true) /\ (cb = true \/ forallb (decl_nokey ov) r = true)).
  { destruct C as [C|C]; [split; left; exact C|].
    apply andb_prop in C. destruct C as [Ca Cb]. split; right; assumption. }
  destruct C12 as [C1 C2].
  pose proof (rewrite_decl_consts cb ov d n z W1 C1) as D.
  destruct (rewrite_decl cb ov d) as [od c1]. destruct (rewrite_decls cb ov r) as [r' c2] eqn:E. simpl in *.
  apply in_app_or in H. destruct H as [H|H].
  - specialize (D H K NB). destruct od; simpl in D; [|contradiction]. simpl. apply in_or_app. left. exact D.
  - specialize (IH W2 C2 H K NB). destruct od; simpl; [apply in_or_app; right|]; exact IH.
Qed.

Lemma consts_untouched cb ov f :
  wf_paren f = true -> (cb = true \/ no_override_in_const_groups ov f = true) ->
  consts_preserved ov f (rewrite_original_file cb ov f).
Proof.
  intros W C n z K H. apply in_file_consts in H. destruct H as [H NB].
  apply in_file_consts. split; auto. unfold rewrite_original_file.
  pose proof (rewrite_decls_consts cb ov f n z W C H K NB) as R.
  destruct (rewrite_decls cb ov f) as [ds ch]. simpl in R.
  destruct ch; [rewrite prune_consts|]; exact R.
Qed.

Theorem untouched_values_blanking : forall ov f,
  wf_paren f = true -> consts_preserved ov f (rewrite_original_file true ov f).
Proof. intros. apply consts_untouched; auto. Qed.

Theorem untouched_values_partial : forall ov f,
  wf_paren f = true -> no_override_in_const_groups ov f = true ->
  consts_preserved ov f (rewrite_original_file false ov f).
Proof. intros. apply consts_untouched; auto. Qed.

(* overlay `const B = 100`, original `const (A = iota; B; C)` *)
Definition witness_overlay : file :=
  [DGen (mkg TConst false [] [SValue (mkv ["B"] false [VLit 100] [] [])])].
Definition witness_original : file :=
  [DGen (mkg TConst true [] [SValue (mkv ["A"] false [VIota 0] [] []);
                              SValue (mkv ["B"] false [] [] []);
                              SValue (mkv ["C"] false [] [] [])])].

Lemma witness_values :
  file_consts witness_original = [("A", Some 0%Z); ("B", Some 1%Z); ("C", Some 2%Z)] /\
  (let '(ov, _, origs') := merge false "x/p" [witness_overlay] [witness_original] in
   ov = [("B", plain)] /\ map file_consts origs' = [[("A", Some 0%Z); ("C", Some 1%Z)]]).
Proof. vm_compute. repeat split; reflexivity. Qed.

Theorem untouched_values_refuted :
  ~ (forall ov f, wf_paren f = true -> consts_preserved ov f (rewrite_original_file false ov f)).
Proof.
  intros H.
  assert (P : In ("C", Some 2%Z) (file_consts witness_original)) by (vm_compute; right; right; left; reflexivity).
  specialize (H [("B", plain)] witness_original eq_refl "C" (Some 2%Z) eq_refl P).
  vm_compute in H. destruct H as [H|[H|H]]; [discriminate|discriminate|contradiction].
Qed.

Theorem untouched_values_current :
  if const_group_blanking
  then (forall ov f, wf_paren f = true -> consts_preserved ov f (rewrite_original_file true ov f))
  else ~ (forall ov f, wf_paren f = true -> consts_preserved ov f (rewrite_original_file false ov f)).
Proof.
  destruct const_group_blanking.
  - exact untouched_values_blanking.
  - exact untouched_values_refuted.
Qed.

(* the tree has the repaired variant (Gen/C12_Tables.v is regenerated from a probe of the real code) *)
Lemma current_variant : const_group_blanking = true.
Proof. reflexivity. Qed.

Theorem untouched_values : forall ov f,
  wf_paren f = true -> consts_preserved ov f (rewrite_original_file const_group_blanking ov f).
Proof. rewrite current_variant. exact untouched_values_blanking. Qed.
