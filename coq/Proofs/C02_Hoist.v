(* C02 — proofs about the hoisting model (Model/C02_Hoist.v): call arguments keep Go's order (the `_arg`
   temporaries of translateArgs), expressions keep it on the [ordered] class, and the two recorded defects
   are exhibited by evaluation. *)
From Coq Require Import List Bool Arith Lia.
From Verif Require Import Model.C02_Hoist.
Import ListNotations.

(* induction principle for the nested type *)
Section HInd.
  Variable Q : hexpr -> Prop.
  Hypothesis Hleaf : Q HLeaf.
  Hypothesis Hbin : forall a b, Q a -> Q b -> Q (HBin a b).
  Hypothesis Hcall : forall blk id args, Forall Q args -> Q (HCall blk id args).
  Fixpoint hexpr_ind' (e : hexpr) : Q e :=
    match e with
    | HLeaf => Hleaf
    | HBin a b => Hbin a b (hexpr_ind' a) (hexpr_ind' b)
    | HCall blk id args =>
        Hcall blk id args
          ((fix go (l : list hexpr) : Forall Q l :=
              match l with
              | [] => Forall_nil Q
              | x :: r => Forall_cons x (hexpr_ind' x) (go r)
              end) args)
    end.
End HInd.

Definition seq_ok (e : hexpr) : Prop := fst (tr e) ++ snd (tr e) = go_order e.

Lemma unmarked_no_prelude : forall e, marked e = false -> fst (tr e) = [].
Proof.
  induction e using hexpr_ind'; simpl; intros Hm; auto.
  - apply orb_false_iff in Hm as [Ha Hb]. specialize (IHe1 Ha). specialize (IHe2 Hb).
    destruct (tr e1), (tr e2). simpl in *. subst. auto.
  - apply orb_false_iff in Hm as [-> Hargs]. rewrite Hargs. simpl.
    assert (Htl : existsb marked (tl args) = false).
    { destruct args; simpl in *; auto. apply orb_false_iff in Hargs as [_ ?]; auto. }
    rewrite Htl. unfold tr_args. simpl.
    induction args; simpl; auto.
    inversion H; subst. simpl in Hargs. apply orb_false_iff in Hargs as [Ha Hr].
    rewrite (H2 Ha). simpl. apply IHargs; auto.
    destruct args; simpl in *; auto. apply orb_false_iff in Hr as [_ ?]; auto.
Qed.

(* translateArgs: whatever the arguments are, if each of them is sequenced correctly then so is the call *)
Lemma args_order_preserved : forall blk id args,
  Forall seq_ok args -> seq_ok (HCall blk id args).
Proof.
  intros blk id args H. unfold seq_ok. simpl.
  destruct (existsb marked (tl args)) eqn:Ep.
  - (* some later argument blocks: every argument goes through an _arg temporary *)
    assert (Hm : existsb marked args = true).
    { destruct args; simpl in *; [discriminate|]. rewrite Ep. apply orb_true_r. }
    rewrite Hm, orb_true_r. unfold tr_args. simpl. rewrite !app_nil_r.
    f_equal. clear Ep Hm. induction H; simpl; auto. unfold seq_ok in H. rewrite H. f_equal. auto.
  - (* only the first argument can contain hoisted calls *)
    assert (Hs : concat (map fst (map tr args)) ++ concat (map snd (map tr args)) = concat (map go_order args)).
    { destruct args as [|a0 rest]; simpl; auto. simpl in Ep.
      inversion H; subst. unfold seq_ok in H2. rewrite <- H2.
      assert (Hr : concat (map fst (map tr rest)) = [] /\ concat (map snd (map tr rest)) = concat (map go_order rest)).
      { clear - Ep H3. induction H3; simpl in *; auto.
        apply orb_false_iff in Ep as [Hx Hl]. destruct (IHForall Hl) as [A B].
        pose proof (unmarked_no_prelude _ Hx) as Hp. unfold seq_ok in H. rewrite Hp in *. simpl in *.
        rewrite A, B, H. auto. }
      destruct Hr as [A B]. rewrite A, B, app_nil_r, app_assoc. auto. }
    unfold tr_args.
    destruct (blk || existsb marked args); simpl; rewrite ?app_nil_r, ?app_assoc; rewrite <- Hs, ?app_assoc; auto.
Qed.

Lemma delegated_order_preserved : forall args,
  Forall seq_ok args -> trace_delegated args = go_delegated args.
Proof.
  intros args H. pose proof (args_order_preserved false 0 args H) as A.
  unfold seq_ok, trace_delegated, go_delegated in *. simpl in A.
  destruct (tr_args (map tr args) (existsb marked (tl args))) as [p i].
  destruct (existsb marked args); simpl in A.
  - rewrite app_nil_r in A. rewrite app_assoc in A. apply app_inv_tail in A. auto.
  - rewrite app_assoc in A. apply app_inv_tail in A. auto.
Qed.

Lemma ordered_sound : forall e, ordered e = true -> seq_ok e.
Proof.
  induction e using hexpr_ind'; intros Ho.
  - reflexivity.
  - simpl in Ho. apply andb_true_iff in Ho as [Ho Hc]. apply andb_true_iff in Ho as [Ha Hb].
    specialize (IHe1 Ha). specialize (IHe2 Hb). unfold seq_ok in *. simpl.
    destruct (tr e1) as [pa ia] eqn:E1. destruct (tr e2) as [pb ib] eqn:E2. simpl in *.
    rewrite <- IHe1, <- IHe2.
    apply orb_true_iff in Hc as [Hc|Hc].
    + destruct ia; [|discriminate]. rewrite ?app_nil_r; simpl; repeat rewrite <- app_assoc; reflexivity.
    + apply negb_true_iff in Hc. pose proof (unmarked_no_prelude _ Hc) as Hp. rewrite E2 in Hp. simpl in Hp. subst.
      rewrite ?app_nil_r; simpl; repeat rewrite <- app_assoc; reflexivity.
  - apply args_order_preserved. simpl in Ho. rewrite forallb_forall in Ho.
    rewrite Forall_forall in *. intros x Hx. apply H; auto.
Qed.

Lemma hoist_order_preserved : forall e, ordered e = true -> trace_assign e = go_order e.
Proof.
  intros e H. pose proof (ordered_sound e H) as Hs. unfold seq_ok, trace_assign in *. destruct (tr e); auto.
Qed.

(* recorded finding hoisted-blocking-call-overtakes-earlier-nonblocking-call:  nb#1() + yv#2()  runs 2 before 1 *)
Lemma hoist_order_refuted : exists e, trace_assign e <> go_order e.
Proof. exists (HBin (HCall false 1 []) (HCall true 2 [])). vm_compute. discriminate. Qed.

(* recorded finding assign-rhs-blocking-call-evaluated-before-lhs-operand-call:  a[yv#1()] = yv#2()  runs 2 before 1 *)
Lemma index_assign_refuted : exists idx rhs,
  ordered idx = true /\ ordered rhs = true /\ trace_index_assign idx rhs <> go_index_assign idx rhs.
Proof. exists (HCall true 1 []), (HCall true 2 []). vm_compute. repeat split; discriminate. Qed.

Lemma index_assign_preserved : forall idx rhs,
  ordered idx = true -> ordered rhs = true ->
  marked rhs = false \/ go_order idx = [] ->
  trace_index_assign idx rhs = go_index_assign idx rhs.
Proof.
  intros idx rhs Hi Hr Hc. pose proof (ordered_sound _ Hi) as Si. pose proof (ordered_sound _ Hr) as Sr.
  unfold seq_ok, trace_index_assign, go_index_assign in *.
  destruct (tr rhs) as [pr ir] eqn:Er. destruct (tr idx) as [pi ii] eqn:Ei. simpl in *.
  destruct Hc as [Hc|Hc].
  - pose proof (unmarked_no_prelude _ Hc) as Hp. rewrite Er in Hp. simpl in Hp. subst. simpl.
    simpl in Sr. rewrite <- Si, <- Sr. repeat rewrite <- app_assoc. reflexivity.
  - rewrite Hc in *. apply app_eq_nil in Si as [-> ->]. simpl. rewrite Sr. auto.
Qed.
