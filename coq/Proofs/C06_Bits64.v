(* C06 — & | ^ &^ and unary ^ of the 64-bit kinds *)
From Coq Require Import ZArith Znumtheory Bool List Lia ZifyBool.
From Verif Require Import Base.C06_JsNum Model.C06_Prelude64 Model.C06_Spec Gen.C06_Tables Model.C06_Templates
  Proofs.C06_Arith Proofs.C06_Fix Proofs.C06_Ops64.
Import ListNotations.
Local Open Scope Z_scope.
Ltac Zify.zify_post_hook ::= Z.div_mod_to_equations.

(* the constructor applied to halves that are right modulo 2^32 *)
Lemma bit64_norm : forall tr k A L v, is64 k = true -> in_range k v ->
  - two32 <= A <= two32 -> A mod two32 = (v / two32) mod two32 -> L = v mod two32 ->
  new64v tr (signed k) (Fin A) (Fin L) = enc64 k v.
Proof.
  intros tr k A L v H R BA EA EL. subst L.
  rewrite new64_norm by (unfold two32, two53 in *; lia). rewrite k64_signed by assumption.
  f_equal. rewrite <- (wrap_id k v R) at 2. apply wrap_congr.
  replace (bits k) with 64 by (destruct k; try discriminate H; reflexivity). change (2 ^ 64) with 18446744073709551616.
  unfold two32 in *. lia.
Qed.

Lemma and32_mod : forall a b, and32 a b mod two32 = Z.land a b mod two32.
Proof. intros a b. unfold and32. rewrite two32_eq, !land_mod by lia. rewrite <- two32_eq, !to_int32_mod. reflexivity. Qed.
Lemma or32_mod : forall a b, or32 a b mod two32 = Z.lor a b mod two32.
Proof. intros a b. unfold or32. rewrite two32_eq, !lor_mod by lia. rewrite <- two32_eq, !to_int32_mod. reflexivity. Qed.
Lemma xor32_mod : forall a b, xor32 a b mod two32 = Z.lxor a b mod two32.
Proof. intros a b. unfold xor32. rewrite two32_eq, !lxor_mod by lia. rewrite <- two32_eq, !to_int32_mod. reflexivity. Qed.
Lemma not32_mod : forall a, not32 a mod two32 = Z.lnot a mod two32.
Proof. intro a. unfold not32. rewrite two32_eq. apply lnot_mod_congr. rewrite <- two32_eq. apply to_int32_mod. Qed.

Lemma op32_bound_and : forall a b, - two32 <= and32 a b <= two32.
Proof.
  intros a b. unfold and32. pose proof (to_int32_range a). pose proof (to_int32_range b).
  pose proof (land_srange 32 (to_int32 a) (to_int32 b) ltac:(lia)) as S. change (2 ^ (32 - 1)) with two31 in S. unfold two31, two32 in *. lia.
Qed.
Lemma op32_bound_or : forall a b, - two32 <= or32 a b <= two32.
Proof.
  intros a b. unfold or32. pose proof (to_int32_range a). pose proof (to_int32_range b).
  pose proof (lor_srange 32 (to_int32 a) (to_int32 b) ltac:(lia)) as S. change (2 ^ (32 - 1)) with two31 in S. unfold two31, two32 in *. lia.
Qed.
Lemma op32_bound_xor : forall a b, - two32 <= xor32 a b <= two32.
Proof.
  intros a b. unfold xor32. pose proof (to_int32_range a). pose proof (to_int32_range b).
  pose proof (lxor_srange 32 (to_int32 a) (to_int32 b) ltac:(lia)) as S. change (2 ^ (32 - 1)) with two31 in S. unfold two31, two32 in *. lia.
Qed.
Lemma op32_bound_not : forall a, - two32 <= not32 a <= two32.
Proof. intro a. unfold not32, Z.lnot. pose proof (to_int32_range a). unfold two31, two32 in *. lia. Qed.

Lemma div32_shiftr : forall z, z / two32 = Z.shiftr z 32.
Proof. intro z. rewrite Z.shiftr_div_pow2 by lia. reflexivity. Qed.

Lemma and64_correct : forall V k x y, is64 k = true -> in_range k x -> in_range k y ->
  bin64 V k And (enc64 k x) (enc64 k y) = Ret (enc64 k (Z.land x y)).
Proof.
  intros V k x y H Rx Ry. cbn [bin64 enc64 o_hi o_lo]. unfold N64, js_and, js_ushr, lift2; cbn [trunc_of]. f_equal.
  apply bit64_norm; [assumption | apply land_in_range; assumption | apply op32_bound_and | |].
  - rewrite and32_mod. f_equal. rewrite !div32_shiftr. symmetry. apply Z.shiftr_land.
  - rewrite ushr32_0. unfold to_uint32. rewrite and32_mod. rewrite two32_eq, !land_mod by lia. rewrite !Z.mod_mod by lia. reflexivity.
Qed.
Lemma or64_correct : forall V k x y, is64 k = true -> in_range k x -> in_range k y ->
  bin64 V k Or (enc64 k x) (enc64 k y) = Ret (enc64 k (Z.lor x y)).
Proof.
  intros V k x y H Rx Ry. cbn [bin64 enc64 o_hi o_lo]. unfold N64, js_or, js_ushr, lift2; cbn [trunc_of]. f_equal.
  apply bit64_norm; [assumption | apply lor_in_range; assumption | apply op32_bound_or | |].
  - rewrite or32_mod. f_equal. rewrite !div32_shiftr. symmetry. apply Z.shiftr_lor.
  - rewrite ushr32_0. unfold to_uint32. rewrite or32_mod. rewrite two32_eq, !lor_mod by lia. rewrite !Z.mod_mod by lia. reflexivity.
Qed.
Lemma xor64_correct : forall V k x y, is64 k = true -> in_range k x -> in_range k y ->
  bin64 V k Xor (enc64 k x) (enc64 k y) = Ret (enc64 k (wrap k (Z.lxor x y))).
Proof.
  intros V k x y H Rx Ry. rewrite (wrap_id k _ (lxor_in_range k x y Rx Ry)).
  cbn [bin64 enc64 o_hi o_lo]. unfold N64, js_xor, js_ushr, lift2; cbn [trunc_of]. f_equal.
  apply bit64_norm; [assumption | apply lxor_in_range; assumption | apply op32_bound_xor | |].
  - rewrite xor32_mod. f_equal. rewrite !div32_shiftr. symmetry. apply Z.shiftr_lxor.
  - rewrite ushr32_0. unfold to_uint32. rewrite xor32_mod. rewrite two32_eq, !lxor_mod by lia. rewrite !Z.mod_mod by lia. reflexivity.
Qed.

Lemma lnot_div32 : forall z, Z.lnot z / two32 = Z.lnot (z / two32).
Proof. intro z. unfold Z.lnot, two32. lia. Qed.
Lemma lnot_in_range_s : forall k z, signed k = true -> in_range k z -> in_range k (Z.lnot z).
Proof. intros k z S R. unfold in_range, kmin, kmax, Z.lnot in *. rewrite S in *. lia. Qed.

Lemma not64_correct : forall V k x, is64 k = true -> in_range k x ->
  un64 V k Not (enc64 k x) = Ret (enc64 k (wrap k (Z.lnot x))).
Proof.
  intros V k x H R. cbn [un64 enc64 o_hi o_lo]. unfold N64, js_not, js_ushr, lift1, lift2; cbn [trunc_of]. f_equal.
  rewrite new64_norm by (pose proof (op32_bound_not (x / two32)); pose proof (to_uint32_range (not32 (x mod two32))); rewrite ushr32_0; unfold two32, two53 in *; lia).
  rewrite k64_signed by assumption. f_equal. apply wrap_congr.
  replace (bits k) with 64 by (destruct k; try discriminate H; reflexivity). change (2 ^ 64) with 18446744073709551616.
  rewrite ushr32_0. unfold to_uint32.
  pose proof (not32_mod (x / two32)) as A. pose proof (not32_mod (x mod two32)) as B. rewrite B.
  unfold Z.lnot, two32 in *. lia.
Qed.

Lemma land_split : forall a b, Z.land a b = Z.land (a / two32) (b / two32) * two32 + Z.land (a mod two32) (b mod two32).
Proof.
  intros a b. pose proof (Z.div_mod (Z.land a b) two32 ltac:(discriminate)) as D.
  assert (Q : Z.land a b / two32 = Z.land (a / two32) (b / two32)) by (rewrite !div32_shiftr; apply Z.shiftr_land).
  assert (M : Z.land a b mod two32 = Z.land (a mod two32) (b mod two32)) by (rewrite two32_eq; apply land_mod; lia).
  rewrite Q, M in D. rewrite D at 1. ring.
Qed.

Lemma andnot64_correct : forall V k x y, is64 k = true ->
  bin64 V k AndNot (enc64 k x) (enc64 k y) = Ret (enc64 k (wrap k (Z.land x (Z.lnot y)))).
Proof.
  intros V k x y H. cbn [bin64 enc64 o_hi o_lo]. unfold N64, js_and, js_not, js_ushr, lift1, lift2; cbn [trunc_of]. f_equal.
  set (hx := x / two32). set (hy := y / two32). set (lx := x mod two32). set (ly := y mod two32).
  rewrite new64_norm by (pose proof (op32_bound_and hx (not32 hy)); pose proof (to_uint32_range (and32 lx (not32 ly))); rewrite ushr32_0; unfold two32, two53 in *; lia).
  rewrite k64_signed by assumption. f_equal. apply wrap_congr.
  replace (bits k) with 64 by (destruct k; try discriminate H; reflexivity). change (2 ^ 64) with 18446744073709551616.
  rewrite ushr32_0. rewrite (land_split x (Z.lnot y)), lnot_div32. fold hx hy lx.
  assert (F1 : and32 hx (not32 hy) mod two32 = Z.land hx (Z.lnot hy) mod two32).
  { rewrite and32_mod. rewrite two32_eq, !land_mod by lia. rewrite <- two32_eq, not32_mod. reflexivity. }
  assert (F2 : to_uint32 (and32 lx (not32 ly)) = Z.land lx (Z.lnot y mod two32)).
  { unfold to_uint32. rewrite and32_mod. rewrite two32_eq, land_mod by lia. rewrite <- two32_eq, not32_mod.
    unfold lx at 1. rewrite two32_eq, Z.mod_mod by lia. rewrite <- two32_eq. fold lx. f_equal.
    rewrite two32_eq. apply lnot_mod_congr. unfold ly. rewrite <- two32_eq. apply Z.mod_mod. discriminate. }
  rewrite F2. set (P := Z.land hx (Z.lnot hy)) in *. set (A := and32 hx (not32 hy)) in *. set (Qv := Z.land lx (Z.lnot y mod two32)).
  clearbody P A Qv. unfold two32 in *. lia.
Qed.

(* ---- conversion of a 64-bit value to a kind of at most 32 bits ---------------------------------- *)
Lemma wrap_low32 : forall k2 x, is64 k2 = false -> forall z, z mod two32 = x mod two32 -> wrap k2 z = wrap k2 x.
Proof.
  intros k2 x H z E. apply wrap_congr. assert (B : 0 < bits k2 <= 32) by (destruct k2; try discriminate H; cbn; lia).
  rewrite <- (mod_mod_pow z (bits k2) 32), <- (mod_mod_pow x (bits k2) 32) by lia. rewrite <- two32_eq, E. reflexivity.
Qed.

Lemma conv_on_correct : forall k1 k2 x, is64 k1 = true -> is64 k2 = false -> in_range k1 x ->
  conv_on k1 k2 (enc64 k1 x) = Ret (Fin (go_conv k2 x)).
Proof.
  intros k1 k2 x H1 H2 R. unfold conv_on, go_conv. cbn [enc64 o_hi o_lo].
  destruct (signed k2 && signed k1) eqn:S.
  - apply andb_prop in S. destruct S as [S2 S1].
    assert (Hh : - two31 <= x / two32 < two31).
    { destruct k1; try discriminate H1; try discriminate S1. unfold in_range, kmin, kmax in R. cbn in R. unfold two31, two32. lia. }
    unfold js_shr, lift2; cbn [trunc_of]. unfold shr32. rewrite cnt_small by lia. rewrite to_int32_id by assumption.
    rewrite Z.shiftr_div_pow2 by lia. change (2 ^ 31) with two31.
    destruct (Z_lt_le_dec (x / two32) 0) as [N | N].
    + replace (x / two32 / two31) with (-1) by (unfold two31, two32 in *; lia).
      cbn [js_mul jval jneg_sign Z.mul Z.eqb Pos.mul Z.ltb Z.compare xorb]. unfold chk. cbn [Z.abs].
      change (4294967296 <=? two53) with true. cbn [js_add]. rewrite chk_ok by (unfold two32, two53; lia). rewrite fixnum_fin by assumption. do 2 f_equal.
      apply wrap_low32; [assumption | unfold two32; lia].
    + replace (x / two32 / two31) with 0 by (unfold two31, two32 in *; lia).
      cbn [js_mul jval jneg_sign Z.mul Z.eqb Z.ltb Z.compare xorb]. cbn [js_add]. rewrite chk_ok by (unfold two32, two53; lia).
      rewrite fixnum_fin by assumption. do 2 f_equal. apply wrap_low32; [assumption | unfold two32; lia].
  - rewrite fixnum_fin by assumption. do 2 f_equal. apply wrap_low32; [assumption | unfold two32; lia].
Qed.
