(* C01 — simulation proof, part 6: interpreter equations, simple statements *)
From Coq Require Import ZArith List String Bool Lia.
From Verif Require Import Model.C01_GoSem Model.C01_JsSem Model.C01_Compile Model.C01_Wf
  Proofs.C01_Arith Proofs.C01_SimBase Proofs.C01_SimExpr Proofs.C01_SimExpr2 Proofs.C01_SimBin Proofs.C01_SimStatic.
Import ListNotations.
Local Open Scope Z_scope.

(* ---------------------------------------------------------------- prepend *)
Lemma prepend_nil : forall S (r : sres S), prepend [] r = r.
Proof. intros S [g s o|o| |]; reflexivity. Qed.
Lemma prepend_app : forall S o1 o2 (r : sres S), prepend o1 (prepend o2 r) = prepend (o1 ++ o2) r.
Proof. intros S o1 o2 [g s o|o| |]; cbn; rewrite ?app_assoc; reflexivity. Qed.

(* ---------------------------------------------------------------- MiniJS equations *)
Lemma jexec_list_nil : forall f s, jexec_list f [] s = ROk SNormal s [].
Proof. reflexivity. Qed.
Lemma jexec_list_cons : forall f a r s,
  jexec_list f (a :: r) s = match jexec f a s with
                            | ROk SNormal s1 o1 => prepend o1 (jexec_list f r s1)
                            | q => q
                            end.
Proof. reflexivity. Qed.
Lemma jexec_list_app : forall f l1 l2 s,
  jexec_list f (l1 ++ l2) s = match jexec_list f l1 s with
                              | ROk SNormal s1 o1 => prepend o1 (jexec_list f l2 s1)
                              | q => q
                              end.
Proof.
  induction l1 as [|a l1 IH]; intros l2 s.
  - cbn [app]. rewrite jexec_list_nil, prepend_nil. reflexivity.
  - cbn [app]. rewrite !jexec_list_cons. destruct (jexec f a s) as [g s1 o1|o| |]; try reflexivity.
    destruct g; try reflexivity. rewrite IH.
    destruct (jexec_list f l1 s1) as [g2 s2 o2|o| |]; try reflexivity.
    destruct g2; try reflexivity. cbn [prepend]. rewrite prepend_app. reflexivity.
Qed.
Lemma jexec_list_single : forall f a s, jexec_list f [a] s = jexec f a s.
Proof.
  intros. rewrite jexec_list_cons. destruct (jexec f a s) as [g s1 o1|o| |]; try reflexivity.
  destruct g; try reflexivity. rewrite jexec_list_nil. cbn [prepend]. rewrite app_nil_r. reflexivity.
Qed.

Definition exec_else (f : nat) (je : jelse) (s : store jval) : sres (store jval) :=
  match je with
  | JNoElse => ROk SNormal s []
  | JElse b => jexec_list f b s
  | JElif i => jexec f i s
  end.

Lemma jexec_expr : forall f e s,
  jexec f (JSExpr e) s = match jeval s e with
                         | JOk _ s1 => ROk SNormal s1 []
                         | JThrow => RPanic []
                         | JStuck => RStuck
                         end.
Proof. destruct f; reflexivity. Qed.
Lemma jexec_if : forall f c t e s,
  jexec f (JSIf c t e) s = match jeval s c with
                           | JOk (JB true) s1 => jexec_list f t s1
                           | JOk (JB false) s1 => exec_else f e s1
                           | JOk _ _ => RStuck
                           | JThrow => RPanic []
                           | JStuck => RStuck
                           end.
Proof. destruct f; reflexivity. Qed.
Lemma jexec_break : forall f l s, jexec f (JSBreak l) s = ROk (SBrk l) s [].
Proof. destruct f; reflexivity. Qed.
Lemma jexec_continue : forall f l s, jexec f (JSContinue l) s = ROk (SCont l) s [].
Proof. destruct f; reflexivity. Qed.
Lemma jexec_log : forall f args s,
  jexec f (JSLog args) s = match jeval_list s args with
                           | inl (Some (vs, s1)) => ROk SNormal s1 [vs]
                           | inl None => RStuck
                           | inr JThrow => RPanic []
                           | inr _ => RStuck
                           end.
Proof. destruct f; reflexivity. Qed.
Lemma jexec_while : forall f l body s,
  jexec f (JSWhile l body) s =
  match jexec_list f body s with
  | ROk g s1 o1 =>
      match g with
      | SBrk t => if catches l t then ROk SNormal s1 o1 else ROk g s1 o1
      | _ => if match g with SCont t => catches l t | _ => true end then
               match f with
               | O => ROOF
               | S f' => prepend o1 (jexec f' (JSWhile l body) s1)
               end
             else ROk g s1 o1
      end
  | r => r
  end.
Proof. destruct f; reflexivity. Qed.

(* ---------------------------------------------------------------- MiniGo equations *)
Definition is_simple (s : stmt) : bool :=
  match s with SSkip | SDefine _ _ _ | SAssign _ _ | SOpAssign _ _ _ _ | SIncDec _ _ _ => true | _ => false end.

Lemma exec_simple_eq : forall f p s, is_simple p = true -> exec f p s = exec_simple p s.
Proof. intros f p s H. destruct p; try discriminate; destruct f; reflexivity. Qed.

Lemma exec_skip : forall f s, exec f SSkip s = ROk SNormal s [].
Proof. destruct f; reflexivity. Qed.
Lemma exec_noelse : forall f s, exec f SNoElse s = ROk SNormal s [].
Proof. destruct f; reflexivity. Qed.
Lemma exec_seq : forall f a b s,
  exec f (SSeq a b) s = match exec f a s with
                        | ROk SNormal s1 o1 => prepend o1 (exec f b s1)
                        | r => r
                        end.
Proof. destruct f; reflexivity. Qed.
Lemma exec_if : forall f c t e s,
  exec f (SIf c t e) s = match eval s c with
                         | EV (VB true) => exec f t s
                         | EV (VB false) => exec f e s
                         | EV _ => RStuck
                         | EPanic => RPanic []
                         | EStuck => RStuck
                         end.
Proof. destruct f; reflexivity. Qed.
Lemma exec_break : forall f l s, exec f (SBreak l) s = ROk (SBrk l) s [].
Proof. destruct f; reflexivity. Qed.
Lemma exec_continue : forall f l s, exec f (SContinue l) s = ROk (SCont l) s [].
Proof. destruct f; reflexivity. Qed.
Lemma exec_print : forall f es s,
  exec f (SPrint es) s = match eval_list s es with
                         | inl (Some vs) => ROk SNormal s [vs]
                         | inl None => RStuck
                         | inr EPanic => RPanic []
                         | inr _ => RStuck
                         end.
Proof. destruct f; reflexivity. Qed.

(* one round of a for loop: the part after the condition, and the round starting at the condition *)
Definition loop_iter (fuel : nat) (l : option string) (c : option expr) (post body : stmt) (s1 : store val)
  : sres (store val) :=
  match exec fuel body s1 with
  | ROk g s2 o2 =>
      match g with
      | SBrk t => if catches l t then ROk SNormal s2 o2 else ROk g s2 o2
      | _ =>
          if match g with SCont t => catches l t | _ => true end then
            match exec fuel post s2 with
            | ROk SNormal s3 o3 =>
                match fuel with
                | O => ROOF
                | S f => prepend (o2 ++ o3) (exec f (SFor l SSkip c post body) s3)
                end
            | ROk _ _ _ => RStuck
            | r => prepend o2 r
            end
          else ROk g s2 o2
      end
  | r => r
  end.

Definition loop_go (fuel : nat) (l : option string) (c : option expr) (post body : stmt) (s1 : store val)
  : sres (store val) :=
  match (match c with None => EV (VB true) | Some ce => eval s1 ce end) with
  | EV (VB true) => loop_iter fuel l c post body s1
  | EV (VB false) => ROk SNormal s1 []
  | EV _ => RStuck
  | EPanic => RPanic []
  | EStuck => RStuck
  end.

Lemma exec_for : forall f l init c post body s,
  exec f (SFor l init c post body) s =
  match exec f init s with
  | ROk SNormal s1 o1 => prepend o1 (loop_go f l c post body s1)
  | ROk _ _ _ => RStuck
  | r => r
  end.
Proof. destruct f; reflexivity. Qed.

Lemma exec_for_skip : forall f l c post body s,
  exec f (SFor l SSkip c post body) s = loop_go f l c post body s.
Proof. intros. rewrite exec_for, exec_skip, prepend_nil. reflexivity. Qed.
