(* C08, part A — every emitted guard fires exactly when the Go specification
   requires a run-time panic, and otherwise the guarded expression has Go's value.
   All statements are over unbounded Z operands. *)
From Coq Require Import List ZArith Bool Lia.
From Verif Require Import Model.C08_Guards Gen.C08_Consts.
Import ListNotations.
Local Open Scope Z_scope.

Ltac zb :=
  repeat match goal with
  | |- context [?a <? ?b] => destruct (Z.ltb_spec a b)
  | |- context [?a <=? ?b] => destruct (Z.leb_spec a b)
  | |- context [?a >? ?b] => rewrite (Z.gtb_ltb a b)
  | |- context [?a >=? ?b] => rewrite (Z.geb_leb a b)
  | |- context [?a =? ?b] => destruct (Z.eqb_spec a b)
  end; cbn [orb andb negb]; try reflexivity; try lia.

(* the constants in the source are the ones the model uses *)
Lemma gen_consts_ok :
  gen_makeslice_len_max = MAXINT /\ gen_makeslice_cap_max = MAXINT /\
  gen_makechan_max = MAXINT /\ gen_makemap_max = MAXINT /\ gen_recover_delta = 2.
Proof. repeat split; reflexivity. Qed.

Lemma index_guard_iff : forall i len, impl_index i len = spec_index i len.
Proof. intros; unfold impl_index, spec_index; zb. Qed.

Lemma index_throws_iff : forall i len, impl_index i len = GThrow <-> ~ (0 <= i < len).
Proof.
  intros; unfold impl_index.
  destruct (Z.ltb_spec i 0); destruct (Z.leb_spec len i); rewrite ?Z.geb_leb;
  repeat match goal with |- context [?a <=? ?b] => destruct (Z.leb_spec a b) end;
  cbn [orb]; split; intros; try lia; try reflexivity; try discriminate.
Qed.

(* string index: no guard is emitted (finding string-index-out-of-range-no-panic) *)
Lemma strindex_in_range : forall i len, 0 <= i < len -> impl_strindex i len = spec_index i len.
Proof. intros; unfold impl_strindex, spec_index; zb. Qed.
Lemma strindex_refuted : forall i len, ~ (0 <= i < len) -> impl_strindex i len <> spec_index i len.
Proof.
  intros i len H; unfold impl_strindex, spec_index.
  destruct (Z.leb_spec 0 i); destruct (Z.ltb_spec i len); cbn [andb]; try discriminate; lia.
Qed.

(* constant index (a non-negative constant, checked by go/types) on a slice or string *)
Lemma index_const_guard_iff : forall i len, 0 <= i -> impl_index_const i len = spec_index i len.
Proof. intros; unfold impl_index_const, spec_index; zb. Qed.

Lemma subslice_guard_iff : forall offset len cap low high max,
  impl_subslice offset len cap low high max = spec_subslice offset len cap low high max.
Proof.
  intros; unfold impl_subslice, spec_subslice.
  destruct high as [h|]; destruct max as [m|]; zb.
Qed.

Lemma subslice_throws_iff : forall offset len cap low h m,
  impl_subslice offset len cap low (Some h) (Some m) = GThrow <-> ~ (0 <= low <= h /\ h <= m <= cap).
Proof.
  intros. rewrite subslice_guard_iff. unfold spec_subslice.
  destruct (Z.leb_spec 0 low); destruct (Z.leb_spec low h); destruct (Z.leb_spec h m); destruct (Z.leb_spec m cap);
  cbn [andb]; split; intros; try lia; try reflexivity; try discriminate.
Qed.

(* $substring with both bounds: exact *)
Lemma substring_guard_iff : forall len low h,
  impl_substring len low (Some h) = spec_substring len low (Some h).
Proof. intros; unfold impl_substring, spec_substring; zb. Qed.

(* s[low:] — holds exactly when low <= len ... *)
Lemma substring_open_guard_iff : forall len low, 0 <= len -> low <= len ->
  impl_substring len low None = spec_substring len low None.
Proof.
  intros; unfold impl_substring, spec_substring.
  rewrite (Z.min_l low len) by lia. zb.
Qed.
(* ... and fails for every low beyond the length (finding string-slice-low-beyond-len-no-panic) *)
Lemma substring_open_refuted : forall len low, 0 <= len < low ->
  impl_substring len low None <> spec_substring len low None.
Proof.
  intros; unfold impl_substring, spec_substring.
  destruct (Z.ltb_spec low 0); try lia.
  destruct (Z.leb_spec 0 low); try lia. destruct (Z.leb_spec low len); try lia.
  cbn [andb]. discriminate.
Qed.

Lemma substring_fixed_guard_iff : forall len low high,
  impl_substring_fixed len low high = spec_substring len low high.
Proof. intros; unfold impl_substring_fixed, spec_substring; destruct high; zb. Qed.

Lemma makeslice_guard_iff : forall len cap, impl_makeslice len cap = spec_makeslice len cap.
Proof. intros; unfold impl_makeslice, spec_makeslice, MAXINT; destruct cap as [c|]; zb. Qed.

Lemma makeslice_throws_iff : forall len c,
  impl_makeslice len (Some c) = GThrow <-> (len < 0 \/ c < len \/ MAXINT < c).
Proof.
  intros. rewrite makeslice_guard_iff. unfold spec_makeslice, MAXINT.
  destruct (Z.leb_spec 0 len); destruct (Z.leb_spec len c); destruct (Z.leb_spec c 2147483647);
  cbn [andb]; split; intros; try lia; try reflexivity; try discriminate.
Qed.

Lemma makesize_guard_iff : forall n, impl_makesize n = spec_makesize n.
Proof. intros; unfold impl_makesize, spec_makesize, MAXINT; zb. Qed.

Lemma quo_guard_iff : forall signed x y, impl_quo signed x y = spec_quo signed x y.
Proof.
  intros; unfold impl_quo, spec_quo, div_class.
  destruct (Z.eqb_spec y 0); [destruct (x =? 0); [reflexivity | destruct (x >? 0); reflexivity] | reflexivity].
Qed.

Lemma quo_throws_iff : forall signed x y, impl_quo signed x y = GThrow <-> y = 0.
Proof.
  intros. rewrite quo_guard_iff. unfold spec_quo. destruct (Z.eqb_spec y 0); split; intros; try lia; try reflexivity; discriminate.
Qed.

Lemma rem_guard_iff : forall x y, impl_rem x y = spec_rem x y.
Proof. reflexivity. Qed.

Lemma slice2arr_guard_iff : forall slen alen, impl_slice2arr slen alen = spec_slice2arr slen alen.
Proof. intros; unfold impl_slice2arr, spec_slice2arr; zb. Qed.

(* a quotient that is representable is not changed by the 32-bit wrapping *)
Lemma wrap32_id_signed : forall z, -2147483648 <= z <= 2147483647 -> wrap32 true z = z.
Proof.
  intros. unfold wrap32. cbn [andb].
  destruct (Z.leb_spec 0 z).
  - rewrite Z.mod_small by lia. rewrite Z.geb_leb. destruct (Z.leb_spec 2147483648 z); lia.
  - replace (z mod 4294967296) with (z + 4294967296).
    + rewrite Z.geb_leb. destruct (Z.leb_spec 2147483648 (z + 4294967296)); lia.
    + apply Z.mod_unique with (q := -1); lia.
Qed.
Lemma wrap32_id_unsigned : forall z, 0 <= z <= 4294967295 -> wrap32 false z = z.
Proof. intros. unfold wrap32. cbn [andb]. apply Z.mod_small. lia. Qed.
