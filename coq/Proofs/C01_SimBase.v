(* C01 — simulation proof, part 1: names, allocator, store invariants *)
From Coq Require Import ZArith List String Bool Lia.
From Verif Require Import Model.C01_GoSem Model.C01_JsSem Model.C01_Compile Model.C01_Wf
  Proofs.C01_Arith Proofs.C01_Arith2 Proofs.C01_Arith3.
Import ListNotations.
Local Open Scope Z_scope.

Lemma name_eqb_eq : forall a b, name_eqb a b = true <-> a = b.
Proof.
  intros [a1 a2] [b1 b2]. unfold name_eqb. cbn [fst snd]. rewrite andb_true_iff, String.eqb_eq, N.eqb_eq.
  split; [intros [-> ->]; reflexivity | intros H; inversion H; auto].
Qed.
Lemma name_eqb_neq : forall a b, a <> b -> name_eqb a b = false.
Proof. intros a b H. destruct (name_eqb a b) eqn:E; [apply name_eqb_eq in E; contradiction|reflexivity]. Qed.

Lemma get_set_same : forall V (s : store V) n v, get (set s n v) n = Some v.
Proof. intros. cbn [get set]. now rewrite name_eqb_refl. Qed.
Lemma get_set_other : forall V (s : store V) n m v, n <> m -> get (set s n v) m = get s m.
Proof. intros. cbn [get set]. now rewrite name_eqb_neq. Qed.

(* ---------------------------------------------------------------- allocator *)
Definition below (st : cstate) (n : name) : Prop := (snd n < count_of (cnt st) (fst n))%N.
Definition st_le (a b : cstate) : Prop := forall n, below a n -> below b n.

Lemma st_le_refl : forall a, st_le a a. Proof. unfold st_le; auto. Qed.
Lemma st_le_trans : forall a b c, st_le a b -> st_le b c -> st_le a c. Proof. unfold st_le; auto. Qed.

Lemma alloc_spec : forall st b n st', alloc st b = (n, st') ->
  ~ below st n /\ below st' n /\ st_le st st' /\ rho st' = rho st.
Proof.
  intros st b n st' H. unfold alloc in H. inversion H; subst; clear H.
  unfold st_le, below. cbn [fst snd cnt rho count_of]. rewrite String.eqb_refl.
  repeat split; try lia.
  intros [m i] Hm. cbn [fst snd cnt count_of] in *. destruct (String.eqb b m) eqn:E.
  - apply String.eqb_eq in E. subst. lia.
  - assumption.
Qed.

(* ---------------------------------------------------------------- invariants *)
Definition inj (v : val) : jval := match v with VI z => JI z | VB b => JB b end.
Definition val_ok (t : ty) (v : val) : Prop :=
  match t, v with TI k, VI z => in_range k z = true | TB, VB _ => True | _, _ => False end.

Definition env_fun (g : env) : Prop := forall v t t', In (v, t) g -> In (v, t') g -> t = t'.

(* every variable in scope is defined, typed, and mirrored in the JavaScript store under its name *)
Definition Inv (g : env) (r : list (name * name)) (sg : store val) (sj : store jval) : Prop :=
  env_fun g /\
  forall v t, In (v, t) g ->
    exists a n, get sg v = Some a /\ val_ok t a /\ lookup r v = Some n /\ get sj n = Some (inj a).

Definition rho_ok (st : cstate) : Prop :=
  (forall v n, lookup (rho st) v = Some n -> below st n) /\
  (forall v1 v2 n, lookup (rho st) v1 = Some n -> lookup (rho st) v2 = Some n -> v1 = v2).

Definition frame (st : cstate) (sj sj' : store jval) : Prop := forall n, below st n -> get sj' n = get sj n.

Lemma frame_refl : forall st s, frame st s s. Proof. unfold frame; auto. Qed.
Lemma frame_trans : forall st st1 s s1 s2, st_le st st1 -> frame st s s1 -> frame st1 s1 s2 -> frame st s s2.
Proof. unfold frame, st_le. intros. rewrite H1 by auto. auto. Qed.
Lemma frame_set : forall st s n v, ~ below st n -> frame st s (set s n v).
Proof. unfold frame. intros. apply get_set_other. intro; subst; contradiction. Qed.

Lemma env_get_In : forall g v t, env_get g v = Some t -> In (v, t) g.
Proof.
  induction g as [| [u t'] g IH]; cbn [env_get]; intros v t H. discriminate.
  destruct (name_eqb u v) eqn:E.
  - apply name_eqb_eq in E. inversion H; subst. left; reflexivity.
  - right. auto.
Qed.

Lemma Inv_frame : forall g st sg sj sj', (forall v n, lookup (rho st) v = Some n -> below st n) ->
  Inv g (rho st) sg sj -> frame st sj sj' -> Inv g (rho st) sg sj'.
Proof.
  intros g st sg sj sj' Hr [Hf HI] Hfr. split. assumption.
  intros v t Hin. destruct (HI v t Hin) as [a [n [H1 [H2 [H3 H4]]]]].
  exists a, n. repeat split; auto. rewrite Hfr; auto. eapply Hr; eauto.
Qed.

Lemma Inv_incl : forall g g' r sg sj, incl g g' -> Inv g' r sg sj -> Inv g r sg sj.
Proof.
  intros g g' r sg sj Hi [Hf HI]. split.
  - intros v t t' H1 H2. eapply Hf; apply Hi; eassumption.
  - intros v t H. apply HI. apply Hi. assumption.
Qed.

Definition rho_ext (r r' : list (name * name)) : Prop := forall v n, lookup r v = Some n -> lookup r' v = Some n.
Lemma rho_ext_refl : forall r, rho_ext r r. Proof. unfold rho_ext; auto. Qed.
Lemma rho_ext_trans : forall a b c, rho_ext a b -> rho_ext b c -> rho_ext a c. Proof. unfold rho_ext; auto. Qed.

Lemma Inv_ext : forall g r r' sg sj, rho_ext r r' -> Inv g r sg sj -> Inv g r' sg sj.
Proof.
  intros g r r' sg sj He [Hf HI]. split. assumption.
  intros v t H. destruct (HI v t H) as [a [n [H1 [H2 [H3 H4]]]]]. exists a, n. auto.
Qed.

Lemma Inv_back : forall g r r' sg0 sj0 sg sj, rho_ext r r' -> Inv g r sg0 sj0 -> Inv g r' sg sj -> Inv g r sg sj.
Proof.
  intros g r r' sg0 sj0 sg sj He [_ H0] [Hf HI]. split. assumption.
  intros v t H. destruct (HI v t H) as [a [n [H1 [H2 [H3 H4]]]]].
  destruct (H0 v t H) as [a0 [n0 [_ [_ [L0 _]]]]].
  assert (n0 = n) by (apply He in L0; congruence). subst.
  exists a, n. auto.
Qed.
