(* C07 — lemmas about type.zero / type.copy / $clone of the heap model (Model/C07_Heap.v):
   a clone has the same deep value as its source, lives entirely in freshly allocated nodes, and writes outside a
   value's node set do not change its deep value.  All statements are for arbitrary nested type shapes. *)
From Coq Require Import List ZArith Bool Arith Lia.
From Verif Require Import Model.C07_Heap.
Import ListNotations.

(* ------------------------------------------------------------------ induction over nested type shapes *)

Lemma ty_ind' (P : ty -> Prop) :
  P TNum -> P TScalar -> P TRef -> (forall n e, P e -> P (TArr n e)) ->
  (forall fs, Forall P fs -> P (TStruct fs)) -> forall t, P t.
Proof.
  intros H1 H2 H3 H4 H5. fix IH 1. intros [| | | n e | fs].
  - exact H1.
  - exact H2.
  - exact H3.
  - apply H4, IH.
  - apply H5. induction fs as [|f fs IHfs]; constructor; [apply IH | exact IHfs].
Qed.

(* ------------------------------------------------------------------ heap basics *)

Definition wf (h : heap) : Prop := forall l o, lookup h l = Some o -> l < hnext h.

Lemma lookup_store h l o l' : lookup (store h l o) l' = if Nat.eqb l' l then Some o else lookup h l'.
Proof. unfold lookup, store; simpl. reflexivity. Qed.

Lemma lookup_store_same h l o : lookup (store h l o) l = Some o.
Proof. rewrite lookup_store, Nat.eqb_refl. reflexivity. Qed.

Lemma lookup_store_other h l o l' : l' <> l -> lookup (store h l o) l' = lookup h l'.
Proof. intro H. rewrite lookup_store. apply Nat.eqb_neq in H. rewrite H. reflexivity. Qed.

Lemma hnext_store h l o : hnext (store h l o) = hnext h.
Proof. reflexivity. Qed.

Lemma wf_store h l o : wf h -> l < hnext h -> wf (store h l o).
Proof.
  intros W Hl l' o' H. rewrite lookup_store in H. rewrite hnext_store.
  destruct (Nat.eqb_spec l' l); [subst; exact Hl | eapply W; eauto].
Qed.

Lemma alloc_spec h o v h1 : alloc h o = (v, h1) ->
  v = VLoc (hnext h) /\ hnext h1 = S (hnext h) /\ lookup h1 (hnext h) = Some o /\
  (forall l, l <> hnext h -> lookup h1 l = lookup h l).
Proof.
  unfold alloc. intro H. inversion H; subst; clear H. repeat split.
  - unfold lookup; simpl. rewrite Nat.eqb_refl. reflexivity.
  - intros l Hl. unfold lookup; simpl. apply Nat.eqb_neq in Hl. rewrite Hl. reflexivity.
Qed.

Lemma wf_alloc h o v h1 : wf h -> alloc h o = (v, h1) -> wf h1.
Proof.
  intros W A. destruct (alloc_spec _ _ _ _ A) as (_ & Hn & Hs & Ho). intros l o' H.
  rewrite Hn. destruct (Nat.eq_dec l (hnext h)); [lia|]. rewrite Ho in H by assumption. apply W in H. lia.
Qed.

Lemma wf_fresh h l : wf h -> hnext h <= l -> lookup h l = None.
Proof.
  intros W Hl. destruct (lookup h l) eqn:E; [|reflexivity]. apply W in E. lia.
Qed.

(* ------------------------------------------------------------------ deep values *)

Inductive dval := DLeaf (z : Z) | DNode (ds : list dval).

(* [R h t v d ns]: in heap h the value v of type t has deep value d, and ns are the array/struct nodes it is made of
   (reached through value fields only; references stored in leaves are not followed).  An array of n elements of
   type e is read like a struct with fields [repeat e n]; its backing store is a typed array iff e is numeric. *)
Inductive R (h : heap) : ty -> val -> dval -> list nat -> Prop :=
| R_num z : R h TNum (VNum z) (DLeaf z) []
| R_scalar z : R h TScalar (VNum z) (DLeaf z) []
| R_ref z : R h TRef (VNum z) (DLeaf z) []
| R_arr n e l cells ds ns :
    lookup h l = Some (OArr (is_num e) cells) -> RL h (repeat e n) cells ds ns ->
    R h (TArr n e) (VLoc l) (DNode ds) (l :: ns)
| R_struct fs l cells ds ns :
    lookup h l = Some (OStruct cells) -> RL h fs cells ds ns ->
    R h (TStruct fs) (VLoc l) (DNode ds) (l :: ns)
with RL (h : heap) : list ty -> list val -> list dval -> list nat -> Prop :=
| RL_nil : RL h [] [] [] []
| RL_cons t ts v vs d ds n1 n2 :
    R h t v d n1 -> RL h ts vs ds n2 -> RL h (t :: ts) (v :: vs) (d :: ds) (n1 ++ n2).

Scheme R_mut := Minimality for R Sort Prop
  with RL_mut := Minimality for RL Sort Prop.
Combined Scheme R_RL_ind from R_mut, RL_mut.

(* the deep value only depends on the nodes of the value *)
Lemma R_RL_frame h h' :
  (forall t v d ns, R h t v d ns -> (forall l, In l ns -> lookup h' l = lookup h l) -> R h' t v d ns) /\
  (forall ts vs ds ns, RL h ts vs ds ns -> (forall l, In l ns -> lookup h' l = lookup h l) -> RL h' ts vs ds ns).
Proof.
  apply R_RL_ind; intros; try (constructor; fail).
  - apply R_arr with cells.
    + rewrite H2 by (left; reflexivity). assumption.
    + apply H1. intros. apply H2. right; assumption.
  - apply R_struct with cells.
    + rewrite H2 by (left; reflexivity). assumption.
    + apply H1. intros. apply H2. right; assumption.
  - constructor.
    + apply H0. intros. apply H3. apply in_or_app; left; assumption.
    + apply H2. intros. apply H3. apply in_or_app; right; assumption.
Qed.

Lemma R_frame h h' t v d ns :
  R h t v d ns -> (forall l, In l ns -> lookup h' l = lookup h l) -> R h' t v d ns.
Proof. intros. eapply (proj1 (R_RL_frame h h')); eauto. Qed.

Lemma RL_frame h h' ts vs ds ns :
  RL h ts vs ds ns -> (forall l, In l ns -> lookup h' l = lookup h l) -> RL h' ts vs ds ns.
Proof. intros. eapply (proj2 (R_RL_frame h h')); eauto. Qed.

(* the deep value and the node set are functions of (heap, type, value) *)
Lemma R_RL_det h :
  (forall t v d ns, R h t v d ns -> forall d' ns', R h t v d' ns' -> d = d' /\ ns = ns') /\
  (forall ts vs ds ns, RL h ts vs ds ns -> forall ds' ns', RL h ts vs ds' ns' -> ds = ds' /\ ns = ns').
Proof.
  apply R_RL_ind; intros.
  - inversion H; subst; auto.
  - inversion H; subst; auto.
  - inversion H; subst; auto.
  - inversion H2; subst.
    match goal with [A : lookup h l = Some (OArr _ ?c) |- _] =>
      rewrite H in A; inversion A; subst end.
    match goal with [X : RL h _ _ ?a ?b |- DNode _ = DNode ?a /\ _] => destruct (H1 _ _ X) as [-> ->] end. auto.
  - inversion H2; subst.
    match goal with [A : lookup h l = Some (OStruct ?c) |- _] =>
      rewrite H in A; inversion A; subst end.
    match goal with [X : RL h _ _ ?a ?b |- DNode _ = DNode ?a /\ _] => destruct (H1 _ _ X) as [-> ->] end. auto.
  - inversion H; subst; auto.
  - inversion H3; subst.
    match goal with [X : R h _ _ ?a ?b, Y : RL h _ _ ?c ?e |- _ :: _ = ?a :: ?c /\ _] =>
      destruct (H0 _ _ X) as [-> ->]; destruct (H2 _ _ Y) as [-> ->] end. auto.
Qed.

Lemma R_det h t v d ns d' ns' : R h t v d ns -> R h t v d' ns' -> d = d' /\ ns = ns'.
Proof. intros. eapply (proj1 (R_RL_det h)); eauto. Qed.

Lemma R_nodes_allocated h :
  (forall t v d ns, R h t v d ns -> forall l, In l ns -> lookup h l <> None) /\
  (forall ts vs ds ns, RL h ts vs ds ns -> forall l, In l ns -> lookup h l <> None).
Proof.
  apply R_RL_ind; intros; try (simpl in *; tauto).
  - destruct H2 as [<-|H2]; [congruence | eauto].
  - destruct H2 as [<-|H2]; [congruence | eauto].
  - apply in_app_or in H3. destruct H3; eauto.
Qed.

Lemma R_leaf h t v d ns : is_node t = false -> R h t v d ns -> ns = [] /\ exists z, v = VNum z /\ d = DLeaf z.
Proof. intros Hn H. inversion H; subst; simpl in Hn; try discriminate; eauto. Qed.

Lemma R_leaf_any h h' t z : is_node t = false -> R h t (VNum z) (DLeaf z) [] -> R h' t (VNum z) (DLeaf z) [].
Proof. intros Hn H. inversion H; subst; constructor. Qed.

Lemma RL_length h ts vs ds ns : RL h ts vs ds ns -> length vs = length ts /\ length ds = length ts.
Proof. induction 1; simpl; [auto | lia]. Qed.

(* ------------------------------------------------------------------ small list facts *)

Lemma NoDup_app_intro {A} (l1 l2 : list A) :
  NoDup l1 -> NoDup l2 -> (forall x, In x l1 -> ~ In x l2) -> NoDup (l1 ++ l2).
Proof.
  induction l1 as [|a l1 IH]; simpl; intros H1 H2 H3; [assumption|].
  inversion H1; subst. constructor.
  - intro Hin. apply in_app_or in Hin. destruct Hin; [contradiction | eapply H3; eauto].
  - apply IH; auto.
Qed.

Lemma NoDup_app_l {A} (l1 l2 : list A) : NoDup (l1 ++ l2) -> NoDup l1.
Proof. induction l1; simpl; intros H; [constructor|]. inversion H; subst. constructor; [intro; apply H2, in_or_app; auto | auto]. Qed.

Lemma NoDup_app_r {A} (l1 l2 : list A) : NoDup (l1 ++ l2) -> NoDup l2.
Proof. induction l1; simpl; intros H; [assumption|]. inversion H; subst. auto. Qed.

Lemma NoDup_app_disj {A} (l1 l2 : list A) x : NoDup (l1 ++ l2) -> In x l1 -> ~ In x l2.
Proof.
  induction l1; simpl; intros H H1; [contradiction|]. inversion H; subst. destruct H1 as [->|H1].
  - intro. apply H3, in_or_app; auto.
  - auto.
Qed.

Lemma set_nth_app {A} (l1 l2 : list A) x y : set_nth (l1 ++ x :: l2) (length l1) y = Some (l1 ++ y :: l2).
Proof. induction l1; simpl; [reflexivity | rewrite IHl1; reflexivity]. Qed.

Lemma nth_error_app_mid {A} (l1 l2 : list A) x : nth_error (l1 ++ x :: l2) (length l1) = Some x.
Proof. induction l1; simpl; auto. Qed.

Lemma cells_with_cells o c : cells_of (with_cells o c) = c.
Proof. destruct o; reflexivity. Qed.

Lemma with_cells_twice o c c' : with_cells (with_cells o c) c' = with_cells o c'.
Proof. destruct o; reflexivity. Qed.

Lemma with_cells_id o : with_cells o (cells_of o) = o.
Proof. destruct o; reflexivity. Qed.

(* ------------------------------------------------------------------ zero values *)

(* what an allocating computation guarantees *)
Definition zero_ok (t : ty) (z : heap -> val * heap) : Prop :=
  forall h v h', wf h -> z h = (v, h') ->
    wf h' /\ hnext h <= hnext h' /\ (forall l, l < hnext h -> lookup h' l = lookup h l) /\
    exists d ns, R h' t v d ns /\ NoDup ns /\ (forall l, In l ns -> hnext h <= l < hnext h').

Definition zeros_ok (ts : list ty) (z : heap -> list val * heap) : Prop :=
  forall h vs h', wf h -> z h = (vs, h') ->
    wf h' /\ hnext h <= hnext h' /\ (forall l, l < hnext h -> lookup h' l = lookup h l) /\
    exists ds ns, RL h' ts vs ds ns /\ NoDup ns /\ (forall l, In l ns -> hnext h <= l < hnext h').

Lemma zeros_nil : zeros_ok [] (fun h => ([], h)).
Proof.
  intros h vs h' W E. inversion E; subst. repeat split; auto.
  exists [], []. repeat split; [constructor | constructor | simpl in *; contradiction | simpl in *; contradiction].
Qed.

Lemma zeros_cons t ts z zs :
  zero_ok t z -> zeros_ok ts zs ->
  zeros_ok (t :: ts) (fun h => let '(v, h1) := z h in let '(vs, h2) := zs h1 in (v :: vs, h2)).
Proof.
  intros Hz Hzs h vs h' W E.
  destruct (z h) as [v h1] eqn:E1. destruct (zs h1) as [vs' h2] eqn:E2. inversion E; subst; clear E.
  destruct (Hz _ _ _ W E1) as (W1 & N1 & X1 & d & n1 & R1 & D1 & B1).
  destruct (Hzs _ _ _ W1 E2) as (W2 & N2 & X2 & ds & n2 & R2 & D2 & B2).
  split; [assumption|]. split; [lia|]. split.
  { intros l Hl. rewrite X2 by lia. apply X1; assumption. }
  exists (d :: ds), (n1 ++ n2). split; [|split].
  - constructor; [|assumption]. eapply R_frame; [exact R1|]. intros l Hl. apply X2. apply B1 in Hl. lia.
  - apply NoDup_app_intro; auto. intros x Hx Hx'. apply B1 in Hx. apply B2 in Hx'. lia.
  - intros l Hl. apply in_app_or in Hl. destruct Hl as [Hl|Hl]; [apply B1 in Hl | apply B2 in Hl]; lia.
Qed.

Lemma zero_n_ok e z n : zero_ok e z -> zeros_ok (repeat e n) (zero_n z n).
Proof.
  intro Hz. induction n as [|n IH]; simpl.
  - apply zeros_nil.
  - apply (zeros_cons e (repeat e n) z (zero_n z n) Hz IH).
Qed.

Lemma RL_num_zeros h n : RL h (repeat TNum n) (repeat (VNum 0) n) (repeat (DLeaf 0) n) [].
Proof. induction n; simpl; [constructor|]. change (@nil nat) with (@nil nat ++ []). constructor; [constructor | assumption]. Qed.

Lemma zero_ok_all : forall t, zero_ok t (zero t).
Proof.
  induction t as [| | | n e IH | fs IH] using ty_ind'.
  1-3: (intros h v h' W E; simpl in E; inversion E; subst; repeat split; auto;
        eexists; exists []; repeat split; [constructor | constructor | simpl in *; contradiction | simpl in *; contradiction]).
  - (* arrays *)
    intros h v h' W E. simpl in E. destruct (is_num e) eqn:En.
    + destruct e; try discriminate.
      destruct (alloc_spec _ _ _ _ E) as (-> & Hn & Hs & Ho).
      split; [eapply wf_alloc; eauto|]. split; [lia|]. split; [intros; apply Ho; lia|].
      exists (DNode (repeat (DLeaf 0) n)), [hnext h]. split; [|split].
      * apply R_arr with (repeat (VNum 0) n); [exact Hs | apply RL_num_zeros].
      * constructor; [simpl; tauto | constructor].
      * intros l [<-|[]]. lia.
    + destruct (zero_n (zero e) n h) as [vs h1] eqn:E1.
      destruct (zero_n_ok e (zero e) n IH _ _ _ W E1) as (W1 & N1 & X1 & ds & ns & R1 & D1 & B1).
      destruct (alloc_spec _ _ _ _ E) as (-> & Hn & Hs & Ho).
      split; [eapply wf_alloc; eauto|]. split; [lia|]. split; [intros; rewrite Ho by lia; apply X1; lia|].
      exists (DNode ds), (hnext h1 :: ns). split; [|split].
      * apply R_arr with vs; [rewrite En; exact Hs|].
        eapply RL_frame; [exact R1|]. intros l Hl. apply Ho. apply B1 in Hl. lia.
      * constructor; [intro Hin; apply B1 in Hin; lia | assumption].
      * intros l [<-|Hl]; [lia | apply B1 in Hl; lia].
  - (* structs *)
    intros h v h' W E. simpl in E.
    set (zs := fix zs (fs : list ty) (h : heap) {struct fs} : list val * heap :=
           match fs with
           | [] => ([], h)
           | f :: r => let '(v, h1) := zero f h in let '(vs, h2) := zs r h1 in (v :: vs, h2)
           end) in *.
    assert (Hzs : zeros_ok fs (zs fs)).
    { clear E. induction IH as [|f fs Hf _ IHfs]; simpl.
      - apply zeros_nil.
      - apply (zeros_cons f fs (zero f) (zs fs) Hf IHfs). }
    destruct (zs fs h) as [vs h1] eqn:E1.
    destruct (Hzs _ _ _ W E1) as (W1 & N1 & X1 & ds & ns & R1 & D1 & B1).
    destruct (alloc_spec _ _ _ _ E) as (-> & Hn & Hs & Ho).
    split; [eapply wf_alloc; eauto|]. split; [lia|]. split; [intros; rewrite Ho by lia; apply X1; lia|].
    exists (DNode ds), (hnext h1 :: ns). split; [|split].
    + apply R_struct with vs; [exact Hs|].
      eapply RL_frame; [exact R1|]. intros l Hl. apply Ho. apply B1 in Hl. lia.
    + constructor; [intro Hin; apply B1 in Hin; lia | assumption].
    + intros l [<-|Hl]; [lia | apply B1 in Hl; lia].
Qed.

(* ------------------------------------------------------------------ type.copy *)

(* the common shape of the struct field loop and of the (non-overlapping, forward) array element loop:
   destination cells i, i+1, ... receive source cells j, j+1, ... *)
Fixpoint cells_loop (d s : nat) (ts : list ty) (i j : nat) (h : heap) : option heap :=
  match ts with
  | [] => Some h
  | f :: r =>
      match get_cell h s j, get_cell h d i with
      | Some sv, Some dv =>
          match (if is_node f then copy f h dv sv else set_cell h d i sv) with
          | Some h' => cells_loop d s r (S i) (S j) h'
          | None => None
          end
      | _, _ => None
      end
  end.

Lemma copy_struct_loop fs h d s : copy (TStruct fs) h (VLoc d) (VLoc s) = cells_loop d s fs 0 0 h.
Proof.
  simpl. generalize 0%nat. revert h. induction fs as [|f fs IH]; intros h i; simpl; [reflexivity|].
  destruct (get_cell h s i); [|reflexivity]. destruct (get_cell h d i); [|reflexivity].
  destruct (if is_node f then copy f h v0 v else set_cell h d i v); [apply IH | reflexivity].
Qed.

Lemma set_cell_none h d i v : get_cell h d i = None -> set_cell h d i v = None.
Proof.
  unfold get_cell, set_cell. destruct (lookup h d) as [o|]; [|reflexivity]. generalize (cells_of o) as c.
  intros c. revert i. induction c as [|x c IH]; intros [|i] H; simpl in *; try reflexivity; try discriminate.
  specialize (IH _ H). destruct (set_nth c i v); [discriminate | reflexivity].
Qed.

Lemma copy_array_loop_node e d s dO sO n : is_node e = true -> forall k h,
  copy_loop (fun h i => match get_cell h d (dO + i), get_cell h s (sO + i) with
                        | Some dv, Some sv => copy e h dv sv | _, _ => None end) (seq k n) h
  = cells_loop d s (repeat e n) (dO + k) (sO + k) h.
Proof.
  intros En. induction n as [|n IH]; intros k h; simpl; [reflexivity|]. rewrite En.
  destruct (get_cell h d (dO + k)) as [dv|], (get_cell h s (sO + k)) as [sv|]; try reflexivity.
  destruct (copy e h dv sv); [|reflexivity]. rewrite <- !Nat.add_succ_r. apply IH.
Qed.

Lemma copy_array_loop_leaf e d s dO sO n : is_node e = false -> forall k h,
  copy_loop (fun h i => match get_cell h s (sO + i) with
                        | Some sv => set_cell h d (dO + i) sv | None => None end) (seq k n) h
  = cells_loop d s (repeat e n) (dO + k) (sO + k) h.
Proof.
  intros En. induction n as [|n IH]; intros k h; simpl; [reflexivity|]. rewrite En.
  destruct (get_cell h s (sO + k)) as [sv|]; [|reflexivity].
  destruct (get_cell h d (dO + k)) as [dv|] eqn:Ed.
  - destruct (set_cell h d (dO + k) sv); [|reflexivity]. rewrite <- !Nat.add_succ_r. apply IH.
  - rewrite (set_cell_none _ _ _ _ Ed). reflexivity.
Qed.

(* what type.copy guarantees for one type *)
Definition copy_ok (t : ty) : Prop :=
  is_node t = true ->
  forall h dst src d d0 nss nsd,
    wf h -> R h t src d nss -> R h t dst d0 nsd -> NoDup nsd -> (forall l, In l nsd -> ~ In l nss) ->
    exists h', copy t h dst src = Some h' /\ hnext h' = hnext h /\ wf h' /\
               (forall l, ~ In l nsd -> lookup h' l = lookup h l) /\ R h' t dst d nsd.

Lemma cells_loop_ok d s :
  forall ts, Forall copy_ok ts ->
  forall od dc2 sc2 ds2 d02 nss2 nsd2 dc1 sc1 dc3 sc3 os hk,
    wf hk -> d <> s ->
    lookup hk d = Some od -> cells_of od = dc1 ++ dc2 ++ dc3 ->
    lookup hk s = Some os -> cells_of os = sc1 ++ sc2 ++ sc3 ->
    RL hk ts sc2 ds2 nss2 -> RL hk ts dc2 d02 nsd2 -> NoDup nsd2 ->
    ~ In d nsd2 -> ~ In s nsd2 -> ~ In d nss2 -> (forall l, In l nsd2 -> ~ In l nss2) ->
    exists h' dc2', cells_loop d s ts (length dc1) (length sc1) hk = Some h' /\ hnext h' = hnext hk /\ wf h' /\
                    (forall l, l <> d -> ~ In l nsd2 -> lookup h' l = lookup hk l) /\
                    lookup h' d = Some (with_cells od (dc1 ++ dc2' ++ dc3)) /\ RL h' ts dc2' ds2 nsd2.
Proof.
  induction 1 as [|f ts Hf Hts IH]; intros od dc2 sc2 ds2 d02 nss2 nsd2 dc1 sc1 dc3 sc3 os hk W Hds Ld Cd Ls Cs RS RD ND Hd Hs Hdn Disj.
  - inversion RS; subst. inversion RD; subst. exists hk, []. simpl.
    repeat split; auto. simpl in Cd. rewrite <- Cd, with_cells_id. assumption.
  - inversion RS as [|? ? sv sc2' df ds2' ns1 ns2' RSf RSr]; subst.
    inversion RD as [|? ? dv dc2' d0f d02' nd1 nd2' RDf RDr]; subst.
    simpl in Cd, Cs. simpl.
    assert (Gs : get_cell hk s (length sc1) = Some sv).
    { unfold get_cell. rewrite Ls, Cs. apply nth_error_app_mid. }
    assert (Gd : get_cell hk d (length dc1) = Some dv).
    { unfold get_cell. rewrite Ld, Cd. apply nth_error_app_mid. }
    rewrite Gs, Gd.
    assert (ND1 : NoDup nd1) by (eapply NoDup_app_l; eauto).
    assert (ND2 : NoDup nd2') by (eapply NoDup_app_r; eauto).
    destruct (is_node f) eqn:Ef.
    + (* nested array/struct field: recursive copy into the existing node *)
      destruct (Hf Ef hk dv sv df d0f ns1 nd1 W RSf RDf ND1) as (h1 & C1 & N1 & W1 & F1 & R1).
      { intros l Hl Hl'. apply (Disj l); apply in_or_app; left; assumption. }
      rewrite C1.
      assert (Ld1 : lookup h1 d = Some od).
      { rewrite F1; [assumption|]. intro Hin. apply Hd, in_or_app; left; assumption. }
      assert (Ls1 : lookup h1 s = Some os).
      { rewrite F1; [assumption|]. intro Hin. apply Hs, in_or_app; left; assumption. }
      destruct (IH od dc2' sc2' ds2' d02' ns2' nd2' (dc1 ++ [dv]) (sc1 ++ [sv]) dc3 sc3 os h1) as (h' & dc' & L & N' & W' & F' & Ld' & RL').
      * assumption.
      * assumption.
      * assumption.
      * rewrite <- app_assoc. assumption.
      * assumption.
      * rewrite <- app_assoc. assumption.
      * eapply RL_frame; [exact RSr|]. intros l Hl. apply F1. intro Hin.
        apply (Disj l); apply in_or_app; [left | right]; assumption.
      * eapply RL_frame; [exact RDr|]. intros l Hl. apply F1. intro Hin.
        eapply NoDup_app_disj; eauto.
      * assumption.
      * intro Hin. apply Hd, in_or_app; right; assumption.
      * intro Hin. apply Hs, in_or_app; right; assumption.
      * intro Hin. apply Hdn, in_or_app; right; assumption.
      * intros l Hl Hl'. apply (Disj l); apply in_or_app; right; assumption.
      * rewrite !app_length in L. simpl in L. rewrite !Nat.add_1_r in L.
        exists h', (dv :: dc'). rewrite L. split; [reflexivity|]. split; [congruence|]. split; [assumption|].
        split; [|split].
        -- intros l Hl Hn. rewrite F'; [apply F1|assumption|]; intro Hin; apply Hn, in_or_app; [left | right]; assumption.
        -- rewrite Ld'. rewrite <- app_assoc. reflexivity.
        -- constructor; [|assumption]. eapply R_frame; [exact R1|]. intros l Hl. apply F'.
           ++ intro; subst. apply Hd, in_or_app; left; assumption.
           ++ intro Hin. eapply NoDup_app_disj; eauto.
    + (* leaf field: plain store into the destination object *)
      destruct (R_leaf _ _ _ _ _ Ef RSf) as (-> & z & -> & ->).
      destruct (R_leaf _ _ _ _ _ Ef RDf) as (-> & z0 & -> & ->).
      simpl in *.
      set (od1 := with_cells od (dc1 ++ VNum z :: dc2' ++ dc3)).
      assert (S1 : set_cell hk d (length dc1) (VNum z) = Some (store hk d od1)).
      { unfold set_cell. rewrite Ld, Cd, set_nth_app. reflexivity. }
      rewrite S1.
      assert (Wd : d < hnext hk) by (eapply W; eauto).
      destruct (IH od1 dc2' sc2' ds2' d02' ns2' nd2' (dc1 ++ [VNum z]) (sc1 ++ [VNum z]) dc3 sc3 os (store hk d od1)) as (h' & dc' & L & N' & W' & F' & Ld' & RL').
      * apply wf_store; assumption.
      * assumption.
      * apply lookup_store_same.
      * unfold od1. rewrite cells_with_cells, <- app_assoc. reflexivity.
      * rewrite lookup_store_other by (intro; subst; auto). assumption.
      * rewrite <- app_assoc. assumption.
      * eapply RL_frame; [exact RSr|]. intros l Hl. apply lookup_store_other. intro; subst. apply Hdn. assumption.
      * eapply RL_frame; [exact RDr|]. intros l Hl. apply lookup_store_other. intro; subst. apply Hd. assumption.
      * assumption.
      * assumption.
      * assumption.
      * assumption.
      * assumption.
      * rewrite !app_length in L. simpl in L. rewrite !Nat.add_1_r in L.
        exists h', (VNum z :: dc'). rewrite L. split; [reflexivity|]. split; [rewrite N'; reflexivity|]. split; [assumption|].
        split; [|split].
        -- intros l Hl Hn. rewrite F' by assumption. apply lookup_store_other. assumption.
        -- rewrite Ld'. unfold od1. rewrite with_cells_twice, <- app_assoc. reflexivity.
        -- change nd2' with ([] ++ nd2'). constructor; [|assumption]. eapply R_leaf_any; eauto.
Qed.

Lemma RL_leaves h h' ts vs ds ns :
  Forall (fun t => is_node t = false) ts -> RL h ts vs ds ns -> ns = [] /\ RL h' ts vs ds [].
Proof.
  intros F H. induction H; [split; [reflexivity | constructor]|].
  inversion F; subst. destruct (R_leaf _ _ _ _ _ H3 H) as (-> & z & -> & ->).
  destruct (IHRL H4) as [-> IH]. split; [reflexivity|].
  change (@nil nat) with (@nil nat ++ []). constructor; [eapply R_leaf_any; eauto | assumption].
Qed.

Lemma Forall_repeat {A} (P : A -> Prop) x n : P x -> Forall P (repeat x n).
Proof. intros. induction n; simpl; constructor; auto. Qed.

Lemma copy_ok_all : forall t, copy_ok t.
Proof.
  induction t as [| | | n e IH | fs IH] using ty_ind'; intro Hn; try discriminate.
  - (* arrays *)
    intros h dst src d d0 nss nsd W RS RD ND Disj.
    inversion RS as [| | |? ? s sc ds nss' Ls RLs|]; subst.
    inversion RD as [| | |? ? dd dc d0s nsd' Ld RLd|]; subst.
    assert (Hds : dd <> s).
    { intro; subst. apply (Disj s); left; reflexivity. }
    destruct (RL_length _ _ _ _ _ RLs) as [Lsc _]. destruct (RL_length _ _ _ _ _ RLd) as [Ldc _].
    rewrite repeat_length in Lsc, Ldc.
    assert (Wd : dd < hnext h) by (eapply W; eauto).
    simpl copy. rewrite Ls. unfold copy_array.
    apply Nat.eqb_neq in Hds. rewrite Hds. simpl andb. rewrite orb_false_r. apply Nat.eqb_neq in Hds.
    destruct n as [|n].
    { (* empty array: nothing to do *)
      destruct sc; [|discriminate]. destruct dc; [|discriminate]. simpl.
      exists h. repeat split; auto.
      inversion RLs; subst. inversion RLd; subst. eapply R_arr; eauto; try constructor. }
    replace (Nat.eqb (length sc) 0) with false by (symmetry; apply Nat.eqb_neq; lia).
    rewrite Ls, Ld.
    destruct (is_num e) eqn:En.
    + (* typed arrays: dst.set(src.subarray(..)) *)
      destruct e; try discriminate.
      assert (Fl : Forall (fun t => is_node t = false) (repeat TNum (S n))) by (apply Forall_repeat; reflexivity).
      destruct (RL_leaves h (store h dd (OArr true sc)) _ _ _ _ Fl RLs) as [-> RLs'].
      destruct (RL_leaves h h _ _ _ _ Fl RLd) as [-> _].
      assert (Hc : (Nat.leb (length sc) (length sc) && Nat.leb (length sc) (length dc)) = true)
        by (apply andb_true_iff; split; apply Nat.leb_le; lia).
      simpl Nat.add.
      assert (Esp : splice dc 0 (sublist sc 0 (length sc)) = sc).
      { unfold splice, sublist. simpl. rewrite firstn_all. rewrite skipn_all2 by lia. apply app_nil_r. }
      rewrite Esp.
      exists (store h dd (OArr true sc)). split; [rewrite Hc; reflexivity|]. split; [reflexivity|].
      split; [apply wf_store; assumption|]. split.
      * intros l Hl. apply lookup_store_other. intro; subst. apply Hl; left; reflexivity.
      * eapply R_arr; [apply lookup_store_same | exact RLs'].
    + (* ordinary Arrays: element-wise loop, forwards because dst and src are different objects *)
      replace (Nat.eqb dd s) with false by (symmetry; apply Nat.eqb_neq; assumption). simpl andb. cbv iota.
      assert (HL : (if is_node e
                    then copy_loop (fun h i => match get_cell h dd (0 + i), get_cell h s (0 + i) with
                                               | Some dv, Some sv => copy e h dv sv | _, _ => None end) (seq 0 (length sc)) h
                    else copy_loop (fun h i => match get_cell h s (0 + i) with
                                               | Some sv => set_cell h dd (0 + i) sv | None => None end) (seq 0 (length sc)) h)
                   = cells_loop dd s (repeat e (S n)) 0 0 h).
      { rewrite Lsc. destruct (is_node e) eqn:Ee; [apply (copy_array_loop_node e dd s 0 0 (S n) Ee 0 h) | apply (copy_array_loop_leaf e dd s 0 0 (S n) Ee 0 h)]. }
      rewrite HL.
      destruct (cells_loop_ok dd s (repeat e (S n)) (Forall_repeat _ _ _ IH) (OArr false dc) dc sc ds d0s nss' nsd' [] [] [] []
                              (OArr false sc) h) as (h' & dc' & L & N' & W' & F' & Ld' & RL'); auto.
      * simpl. rewrite app_nil_r. reflexivity.
      * simpl. rewrite app_nil_r. reflexivity.
      * inversion ND; assumption.
      * inversion ND; assumption.
      * intro Hin. apply (Disj s); [right; assumption | left; reflexivity].
      * intro Hin. apply (Disj dd); [left; reflexivity | right; assumption].
      * intros l Hl Hl'. apply (Disj l); right; assumption.
      * simpl in L. exists h'. split; [exact L|]. split; [assumption|]. split; [assumption|]. split.
        -- intros l Hl. apply F'; intro; apply Hl; [left; congruence | right; assumption].
        -- simpl in Ld'. rewrite app_nil_r in Ld'. eapply R_arr; [rewrite En; exact Ld' | exact RL'].
  - (* structs *)
    intros h dst src d d0 nss nsd W RS RD ND Disj.
    inversion RS as [| | | |? s sc ds nss' Ls RLs]; subst.
    inversion RD as [| | | |? dd dc d0s nsd' Ld RLd]; subst.
    assert (Hds : dd <> s).
    { intro; subst. apply (Disj s); left; reflexivity. }
    rewrite copy_struct_loop.
    destruct (cells_loop_ok dd s fs IH (OStruct dc) dc sc ds d0s nss' nsd' [] [] [] [] (OStruct sc) h)
      as (h' & dc' & L & N' & W' & F' & Ld' & RL'); auto.
    + simpl. rewrite app_nil_r. reflexivity.
    + simpl. rewrite app_nil_r. reflexivity.
    + inversion ND; assumption.
    + inversion ND; assumption.
    + intro Hin. apply (Disj s); [right; assumption | left; reflexivity].
    + intro Hin. apply (Disj dd); [left; reflexivity | right; assumption].
    + intros l Hl Hl'. apply (Disj l); right; assumption.
    + simpl in L. exists h'. split; [exact L|]. split; [assumption|]. split; [assumption|]. split.
      * intros l Hl. apply F'; intro; apply Hl; [left; congruence | right; assumption].
      * simpl in Ld'. rewrite app_nil_r in Ld'. eapply R_struct; [exact Ld' | exact RL'].
Qed.

(* ------------------------------------------------------------------ $clone *)

Lemma R_nodes_lt h t v d ns : wf h -> R h t v d ns -> forall l, In l ns -> l < hnext h.
Proof.
  intros W H l Hl. pose proof (proj1 (R_nodes_allocated h) _ _ _ _ H l Hl) as A.
  destruct (lookup h l) eqn:E; [eapply W; eauto | congruence].
Qed.

Theorem clone_ok t h src d nss :
  is_node t = true -> wf h -> R h t src d nss ->
  exists c h' nsc, clone t h src = Some (c, h') /\ wf h' /\ hnext h <= hnext h' /\
    (forall l, l < hnext h -> lookup h' l = lookup h l) /\
    R h' t c d nsc /\ NoDup nsc /\ (forall l, In l nsc -> hnext h <= l < hnext h').
Proof.
  intros Hn W RS. unfold clone. destruct (zero t h) as [c h1] eqn:Z.
  destruct (zero_ok_all t h c h1 W Z) as (W1 & N1 & X1 & d0 & nsc & RC & DC & BC).
  assert (RS1 : R h1 t src d nss).
  { eapply R_frame; [exact RS|]. intros l Hl. apply X1. eapply R_nodes_lt; eauto. }
  destruct (copy_ok_all t Hn h1 c src d d0 nss nsc W1 RS1 RC DC) as (h2 & C2 & N2 & W2 & F2 & R2).
  { intros l Hl Hl'. apply BC in Hl. pose proof (R_nodes_lt _ _ _ _ _ W RS l Hl'). lia. }
  rewrite C2. exists c, h2, nsc. split; [reflexivity|]. split; [assumption|]. split; [lia|]. split.
  { intros l Hl. rewrite F2; [apply X1; assumption|]. intro Hin. apply BC in Hin. lia. }
  split; [assumption|]. split; [assumption|]. intros l Hl. rewrite N2. apply BC; assumption.
Qed.

(* everything that could be read before the clone reads the same afterwards, and shares no node with the clone *)
Theorem clone_disjoint t h src d nss c h' :
  is_node t = true -> wf h -> R h t src d nss -> clone t h src = Some (c, h') ->
  exists nsc, R h' t c d nsc /\
    forall t' v' d' ns', R h t' v' d' ns' -> R h' t' v' d' ns' /\ (forall l, In l nsc -> ~ In l ns').
Proof.
  intros Hn W RS C. destruct (clone_ok t h src d nss Hn W RS) as (c' & h2 & nsc & C' & W' & N' & X' & RC & DC & BC).
  rewrite C in C'. inversion C'; subst. exists nsc. split; [assumption|].
  intros t' v' d' ns' R'. split.
  - eapply R_frame; [exact R'|]. intros l Hl. apply X'. eapply R_nodes_lt; eauto.
  - intros l Hl Hl'. apply BC in Hl. pose proof (R_nodes_lt _ _ _ _ _ W R' l Hl'). lia.
Qed.

Lemma set_cell_confined h l i v h' : set_cell h l i v = Some h' -> forall l', l' <> l -> lookup h' l' = lookup h l'.
Proof.
  unfold set_cell. destruct (lookup h l) as [o|]; [|discriminate]. destruct (set_nth (cells_of o) i v); [|discriminate].
  intro E; inversion E; subst. intros. apply lookup_store_other. assumption.
Qed.

(* two values with disjoint node sets: any sequence of stores into the nodes of one leaves the deep value of the other unchanged *)
Theorem disjoint_frame h t1 v1 d1 ns1 h' :
  R h t1 v1 d1 ns1 -> (forall l, In l ns1 -> lookup h' l = lookup h l) -> R h' t1 v1 d1 ns1.
Proof. apply R_frame. Qed.

Theorem write_other_side h t1 v1 d1 ns1 l i v h' :
  R h t1 v1 d1 ns1 -> ~ In l ns1 -> set_cell h l i v = Some h' -> R h' t1 v1 d1 ns1.
Proof.
  intros H Hl S. eapply R_frame; [exact H|]. intros l' Hl'. eapply set_cell_confined; eauto. intro; subst; auto.
Qed.

(* reference-kind fields are copied by reference: equal deep values store the same reference identity *)
Lemma RL_ref_field h fs cs ss ds n1 n2 :
  RL h fs cs ds n1 -> RL h fs ss ds n2 -> forall i, nth_error fs i = Some TRef ->
  nth_error cs i = nth_error ss i /\ exists z, nth_error cs i = Some (VNum z).
Proof.
  intros H. revert ss n2. induction H; intros ss n2' H' i Hi; [destruct i; discriminate|].
  inversion H'; subst. destruct i as [|i]; simpl in *.
  - inversion Hi; subst. inversion H; subst.
    match goal with [X : R h TRef _ (DLeaf _) _ |- _] => inversion X; subst end. eauto.
  - eapply IHRL; eauto.
Qed.

Theorem ref_field_shared h fs c s ds nc ns i :
  R h (TStruct fs) (VLoc c) (DNode ds) nc -> R h (TStruct fs) (VLoc s) (DNode ds) ns ->
  nth_error fs i = Some TRef ->
  get_cell h c i = get_cell h s i /\ exists z, get_cell h c i = Some (VNum z).
Proof.
  intros H1 H2 Hi. inversion H1; subst. inversion H2; subst. unfold get_cell.
  repeat match goal with [X : lookup _ _ = Some _ |- _] => rewrite X; clear X end. simpl.
  eapply RL_ref_field; eauto.
Qed.

(* ------------------------------------------------------------------ the statements re-exported in Props/C07.v *)

Theorem clone_value_eq t h src d nss :
  is_node t = true -> wf h -> R h t src d nss ->
  exists c h' nsc, clone t h src = Some (c, h') /\ R h' t c d nsc /\ R h' t src d nss.
Proof.
  intros Hn W RS. destruct (clone_ok t h src d nss Hn W RS) as (c & h' & nsc & C & W' & N' & X' & RC & DC & BC).
  exists c, h', nsc. split; [assumption|]. split; [assumption|].
  eapply R_frame; [exact RS|]. intros l Hl. apply X'. eapply R_nodes_lt; eauto.
Qed.

Theorem clone_frame t h src d nss c h' :
  is_node t = true -> wf h -> R h t src d nss -> clone t h src = Some (c, h') ->
  exists nsc, R h' t c d nsc /\ R h' t src d nss /\ (forall l, In l nsc -> ~ In l nss) /\
    (forall h'', (forall l, ~ In l nsc -> lookup h'' l = lookup h' l) -> R h'' t src d nss) /\
    (forall h'', (forall l, ~ In l nss -> lookup h'' l = lookup h' l) -> R h'' t c d nsc).
Proof.
  intros Hn W RS C. destruct (clone_disjoint t h src d nss c h' Hn W RS C) as (nsc & RC & Hall).
  destruct (Hall _ _ _ _ RS) as [RS' Dj]. exists nsc. split; [assumption|]. split; [assumption|]. split; [assumption|]. split.
  - intros h'' F. eapply R_frame; [exact RS'|]. intros l Hl. apply F. intro Hin. exact (Dj l Hin Hl).
  - intros h'' F. eapply R_frame; [exact RC|]. intros l Hl. apply F. exact (Dj l Hl).
Qed.

Theorem copy_makes_equal_keeps_disjoint t h dst src d d0 nss nsd :
  is_node t = true -> wf h -> R h t src d nss -> R h t dst d0 nsd -> NoDup nsd -> (forall l, In l nsd -> ~ In l nss) ->
  exists h', copy t h dst src = Some h' /\ R h' t dst d nsd /\ R h' t src d nss /\
             (forall l, ~ In l nsd -> lookup h' l = lookup h l).
Proof.
  intros Hn W RS RD ND Dj. destruct (copy_ok_all t Hn h dst src d d0 nss nsd W RS RD ND Dj) as (h' & C & N' & W' & F & RD').
  exists h'. split; [assumption|]. split; [assumption|]. split; [|assumption].
  eapply R_frame; [exact RS|]. intros l Hl. apply F. intro Hin. exact (Dj l Hin Hl).
Qed.

Lemma wf_empty : wf empty_heap.
Proof. intros l o H. unfold lookup in H; simpl in H. discriminate. Qed.

Theorem zero_then_clone_exists t :
  is_node t = true ->
  exists v h d ns, zero t empty_heap = (v, h) /\ wf h /\ R h t v d ns /\ NoDup ns /\
                   exists c h', clone t h v = Some (c, h').
Proof.
  intro Hn. destruct (zero t empty_heap) as [v h] eqn:Z.
  destruct (zero_ok_all t empty_heap v h wf_empty Z) as (W & _ & _ & d & ns & RV & DV & _).
  destruct (clone_ok t h v d ns Hn W RV) as (c & h' & _ & C & _).
  exists v, h, d, ns. repeat split; auto. exists c, h'. assumption.
Qed.
