(* C06 — arithmetic facts about ToInt32/ToUint32, 32-bit shifts and bitwise operators, and
   the fixNumber suffixes. *)
From Coq Require Import ZArith Znumtheory Bool List Lia ZifyBool.
From Verif Require Import Base.C06_JsNum Model.C06_Spec.
Import ListNotations.
Local Open Scope Z_scope.
Ltac Zify.zify_post_hook ::= Z.div_mod_to_equations.

Lemma two32_eq : two32 = 2 ^ 32. Proof. reflexivity. Qed.
Lemma two31_eq : two31 = 2 ^ 31. Proof. reflexivity. Qed.

Lemma to_uint32_range : forall z, 0 <= to_uint32 z < two32.
Proof. intro z; unfold to_uint32, two32; lia. Qed.

Lemma to_int32_range : forall z, - two31 <= to_int32 z < two31.
Proof. intro z; unfold to_int32, two32, two31; destruct (Z.ltb_spec (z mod 4294967296) 2147483648); lia. Qed.

Lemma to_int32_id : forall z, - two31 <= z < two31 -> to_int32 z = z.
Proof. intros z H; unfold to_int32, two32, two31 in *; destruct (Z.ltb_spec (z mod 4294967296) 2147483648); lia. Qed.

Lemma to_uint32_id : forall z, 0 <= z < two32 -> to_uint32 z = z.
Proof. intros z H; unfold to_uint32, two32 in *; lia. Qed.

Lemma to_int32_mod : forall z, to_int32 z mod two32 = z mod two32.
Proof. intro z; unfold to_int32, two32, two31; destruct (Z.ltb_spec (z mod 4294967296) 2147483648); lia. Qed.

Lemma to_uint32_of_int32 : forall z, to_uint32 (to_int32 z) = to_uint32 z.
Proof. intro z; unfold to_uint32; apply to_int32_mod. Qed.

Lemma to_int32_congr : forall a b, a mod two32 = b mod two32 -> to_int32 a = to_int32 b.
Proof. intros a b H; unfold to_int32; rewrite H; reflexivity. Qed.

Lemma to_int32_of_uint32 : forall z, to_int32 (to_uint32 z) = to_int32 z.
Proof. intro z; apply to_int32_congr; unfold to_uint32, two32; lia. Qed.

Lemma to_int32_wraps : forall z, to_int32 z = wraps 32 z.
Proof. reflexivity. Qed.
Lemma to_uint32_wrapu : forall z, to_uint32 z = wrapu 32 z.
Proof. reflexivity. Qed.

(* ---- wrap ------------------------------------------------------------------- *)
Lemma wraps_range : forall w z, 0 < w -> - 2 ^ (w - 1) <= wraps w z < 2 ^ (w - 1).
Proof.
  intros w z Hw; unfold wraps.
  assert (E : 2 ^ w = 2 * 2 ^ (w - 1)) by (replace w with (Z.succ (w - 1)) at 1 by lia; apply Z.pow_succ_r; lia).
  assert (0 < 2 ^ (w - 1)) by (apply Z.pow_pos_nonneg; lia).
  pose proof (Z.mod_pos_bound z (2 ^ w)) as B.
  destruct (Z.ltb_spec (z mod 2 ^ w) (2 ^ (w - 1))); lia.
Qed.

Lemma wraps_id : forall w z, 0 < w -> - 2 ^ (w - 1) <= z < 2 ^ (w - 1) -> wraps w z = z.
Proof.
  intros w z Hw H; unfold wraps.
  assert (E : 2 ^ w = 2 * 2 ^ (w - 1)) by (replace w with (Z.succ (w - 1)) at 1 by lia; apply Z.pow_succ_r; lia).
  assert (P : 0 < 2 ^ (w - 1)) by (apply Z.pow_pos_nonneg; lia).
  destruct (Z_lt_le_dec z 0).
  - assert (M : z mod 2 ^ w = z + 2 ^ w) by (symmetry; apply Z.mod_unique with (-1); lia).
    rewrite M. destruct (Z.ltb_spec (z + 2 ^ w) (2 ^ (w - 1))); lia.
  - rewrite Z.mod_small by lia. destruct (Z.ltb_spec z (2 ^ (w - 1))); lia.
Qed.

Lemma wrapu_id : forall w z, 0 <= z < 2 ^ w -> wrapu w z = z.
Proof. intros; unfold wrapu; apply Z.mod_small; assumption. Qed.

Lemma wraps_congr : forall w a b, a mod 2 ^ w = b mod 2 ^ w -> wraps w a = wraps w b.
Proof. intros w a b H; unfold wraps; rewrite H; reflexivity. Qed.

Lemma wrap_congr : forall k a b, a mod 2 ^ bits k = b mod 2 ^ bits k -> wrap k a = wrap k b.
Proof. intros k a b H; unfold wrap, wrapu; destruct (signed k); [apply wraps_congr; assumption | assumption]. Qed.

Lemma in_range_wrap : forall k z, in_range k (wrap k z).
Proof.
  intros k z; unfold in_range, kmin, kmax, wrap.
  assert (0 < bits k) by (destruct k; reflexivity).
  destruct (signed k).
  - pose proof (wraps_range (bits k) z); lia.
  - unfold wrapu. pose proof (Z.mod_pos_bound z (2 ^ bits k)). assert (0 < 2 ^ bits k) by (apply Z.pow_pos_nonneg; lia). lia.
Qed.

Lemma wrap_id : forall k z, in_range k z -> wrap k z = z.
Proof.
  intros k z; unfold in_range, kmin, kmax, wrap.
  assert (0 < bits k) by (destruct k; reflexivity).
  destruct (signed k); intro R.
  - apply wraps_id; lia.
  - apply wrapu_id; lia.
Qed.

(* a 32-bit reduction does not change the wrap into a kind of at most 32 bits *)
Lemma mod_mod_pow : forall z a b, 0 <= a <= b -> (z mod 2 ^ b) mod 2 ^ a = z mod 2 ^ a.
Proof.
  intros z a b H. symmetry. apply Zmod_div_mod.
  - apply Z.pow_pos_nonneg; lia.
  - apply Z.pow_pos_nonneg; lia.
  - exists (2 ^ (b - a)). rewrite <- Z.pow_add_r by lia. f_equal; lia.
Qed.

Lemma wrap_to_int32 : forall k z, bits k <= 32 -> wrap k (to_int32 z) = wrap k z.
Proof.
  intros k z H. apply wrap_congr.
  assert (0 < bits k) by (destruct k; reflexivity).
  rewrite <- (mod_mod_pow (to_int32 z) (bits k) 32) by lia.
  rewrite <- (mod_mod_pow z (bits k) 32) by lia.
  rewrite <- two32_eq, to_int32_mod. reflexivity.
Qed.

Lemma wrap_to_uint32 : forall k z, bits k <= 32 -> wrap k (to_uint32 z) = wrap k z.
Proof. intros k z H. rewrite <- (wrap_to_int32 k (to_uint32 z)), to_int32_of_uint32 by assumption. apply wrap_to_int32; assumption. Qed.

(* ---- counts and shifts ---------------------------------------------------------- *)
Lemma cnt_small : forall n, 0 <= n < 32 -> cnt n = n.
Proof. intros n H; unfold cnt, to_uint32, two32; lia. Qed.

Lemma shr32_0 : forall z, shr32 z 0 = to_int32 z.
Proof. intro z; unfold shr32; rewrite cnt_small by lia; apply Z.shiftr_0_r. Qed.
Lemma ushr32_0 : forall z, ushr32 z 0 = to_uint32 z.
Proof. intro z; unfold ushr32; rewrite cnt_small by lia; apply Z.shiftr_0_r. Qed.

(* z << n >> n  (n = 32 - w): sign-extending wrap to w bits *)
Lemma shl_shr_wraps : forall w z, 0 < w <= 32 -> shr32 (shl32 z (32 - w)) (32 - w) = wraps w z.
Proof.
  intros w z Hw. unfold shr32, shl32. rewrite !cnt_small by lia.
  rewrite to_int32_id by apply to_int32_range.
  rewrite Z.shiftr_div_pow2 by lia.
  set (s := 32 - w). assert (Ew : w = 32 - s) by (unfold s; lia). 
  assert (Ps : 0 < 2 ^ s) by (apply Z.pow_pos_nonneg; lia).
  assert (Pw : 0 < 2 ^ (w - 1)) by (apply Z.pow_pos_nonneg; lia).
  assert (E32 : two32 = 2 ^ s * 2 ^ w) by (rewrite two32_eq, <- Z.pow_add_r by lia; f_equal; lia).
  assert (E2w : 2 ^ w = 2 * 2 ^ (w - 1)) by (replace w with (Z.succ (w - 1)) at 1 by lia; apply Z.pow_succ_r; lia).
  assert (E31 : two31 = 2 ^ s * 2 ^ (w - 1)) by (unfold two32, two31 in *; lia).
  (* to_int32 z * 2^s  is congruent to  z * 2^s  mod 2^32 *)
  assert (C : (to_int32 z * 2 ^ s) mod two32 = (z mod 2 ^ w) * 2 ^ s).
  { rewrite E32. rewrite (Z.mul_comm (to_int32 z)). rewrite Z.mul_mod_distr_l by lia.
    rewrite Z.mul_comm. f_equal.
    rewrite <- (mod_mod_pow (to_int32 z) w 32) by lia. rewrite <- two32_eq, to_int32_mod, two32_eq. apply mod_mod_pow; lia. }
  unfold to_int32 at 1. rewrite C. unfold wraps.
  set (m := z mod 2 ^ w).
  assert (Hiff : m * 2 ^ s < two31 <-> m < 2 ^ (w - 1)).
  { rewrite E31. clear - Ps. split; intro; nia. }
  destruct (Z.ltb_spec (m * 2 ^ s) two31); destruct (Z.ltb_spec m (2 ^ (w - 1))); try (exfalso; clear - Hiff H H0; lia).
  - apply Z.div_mul; lia.
  - rewrite E32. replace (m * 2 ^ s - 2 ^ s * 2 ^ w) with ((m - 2 ^ w) * 2 ^ s) by ring. apply Z.div_mul; lia.
Qed.

Lemma shl_ushr_wrapu : forall w z, 0 < w <= 32 -> ushr32 (shl32 z (32 - w)) (32 - w) = wrapu w z.
Proof.
  intros w z Hw. unfold ushr32, shl32. rewrite !cnt_small by lia.
  rewrite to_uint32_of_int32.
  rewrite Z.shiftr_div_pow2 by lia.
  set (s := 32 - w).
  assert (Ps : 0 < 2 ^ s) by (apply Z.pow_pos_nonneg; unfold s; lia).
  assert (E32 : two32 = 2 ^ s * 2 ^ w) by (rewrite two32_eq, <- Z.pow_add_r by (unfold s; lia); f_equal; unfold s; lia).
  assert (Pw : 0 < 2 ^ w) by (apply Z.pow_pos_nonneg; lia).
  unfold to_uint32. rewrite E32. rewrite (Z.mul_comm (to_int32 z)). rewrite Z.mul_mod_distr_l by lia.
  rewrite Z.mul_comm, Z.div_mul by lia. unfold wrapu.
  rewrite <- (mod_mod_pow (to_int32 z) w 32) by lia. rewrite <- two32_eq, to_int32_mod, two32_eq. apply mod_mod_pow; lia.
Qed.

(* ---- bitwise operators and reduction modulo 2^n ------------------------------- *)
Lemma testbit_mod_pow2 : forall a n i, 0 <= n -> 0 <= i ->
  Z.testbit (a mod 2 ^ n) i = (i <? n) && Z.testbit a i.
Proof.
  intros a n i Hn Hi. destruct (Z.ltb_spec i n).
  - rewrite Z.mod_pow2_bits_low by lia. reflexivity.
  - rewrite Z.mod_pow2_bits_high by lia. reflexivity.
Qed.

Lemma land_mod : forall a b n, 0 <= n -> Z.land a b mod 2 ^ n = Z.land (a mod 2 ^ n) (b mod 2 ^ n).
Proof.
  intros a b n Hn. apply Z.bits_inj'; intros i Hi.
  rewrite Z.land_spec, !testbit_mod_pow2, Z.land_spec by lia. destruct (i <? n); cbn; try reflexivity.
Qed.
Lemma lor_mod : forall a b n, 0 <= n -> Z.lor a b mod 2 ^ n = Z.lor (a mod 2 ^ n) (b mod 2 ^ n).
Proof.
  intros a b n Hn. apply Z.bits_inj'; intros i Hi.
  rewrite Z.lor_spec, !testbit_mod_pow2, Z.lor_spec by lia. destruct (i <? n); cbn; try reflexivity.
Qed.
Lemma lxor_mod : forall a b n, 0 <= n -> Z.lxor a b mod 2 ^ n = Z.lxor (a mod 2 ^ n) (b mod 2 ^ n).
Proof.
  intros a b n Hn. apply Z.bits_inj'; intros i Hi.
  rewrite Z.lxor_spec, !testbit_mod_pow2, Z.lxor_spec by lia. destruct (i <? n); cbn; try reflexivity.
Qed.
Lemma lnot_mod_congr : forall a b n, a mod 2 ^ n = b mod 2 ^ n -> Z.lnot a mod 2 ^ n = Z.lnot b mod 2 ^ n.
Proof.
  intros a b n H. replace (Z.lnot a) with ((-1) - a) by (unfold Z.lnot; lia). replace (Z.lnot b) with ((-1) - b) by (unfold Z.lnot; lia).
  rewrite (Zminus_mod (-1) a), (Zminus_mod (-1) b), H. reflexivity.
Qed.

(* signed w-bit range <-> the bits from w-1 upward are all equal *)
Lemma srange_shiftr : forall w a, 0 < w ->
  (- 2 ^ (w - 1) <= a < 2 ^ (w - 1)) <-> (Z.shiftr a (w - 1) = 0 \/ Z.shiftr a (w - 1) = -1).
Proof.
  intros w a Hw. rewrite Z.shiftr_div_pow2 by lia.
  assert (P : 0 < 2 ^ (w - 1)) by (apply Z.pow_pos_nonneg; lia).
  split; intro H.
  - destruct (Z_lt_le_dec a 0); [right | left].
    + symmetry; apply Z.div_unique with (a + 2 ^ (w - 1)); lia.
    + apply Z.div_small; lia.
  - pose proof (Z.div_mod a (2 ^ (w - 1))) as D. pose proof (Z.mod_pos_bound a (2 ^ (w - 1))) as B.
    destruct H as [H | H]; rewrite H in D; lia.
Qed.

Lemma land_srange : forall w a b, 0 < w -> - 2 ^ (w - 1) <= a < 2 ^ (w - 1) -> - 2 ^ (w - 1) <= b < 2 ^ (w - 1) ->
  - 2 ^ (w - 1) <= Z.land a b < 2 ^ (w - 1).
Proof.
  intros w a b Hw Ha Hb. apply srange_shiftr in Ha; [| assumption]. apply srange_shiftr in Hb; [| assumption].
  apply srange_shiftr; [assumption |]. rewrite Z.shiftr_land.
  destruct Ha as [-> | ->]; destruct Hb as [-> | ->]; cbn; auto.
Qed.
Lemma lor_srange : forall w a b, 0 < w -> - 2 ^ (w - 1) <= a < 2 ^ (w - 1) -> - 2 ^ (w - 1) <= b < 2 ^ (w - 1) ->
  - 2 ^ (w - 1) <= Z.lor a b < 2 ^ (w - 1).
Proof.
  intros w a b Hw Ha Hb. apply srange_shiftr in Ha; [| assumption]. apply srange_shiftr in Hb; [| assumption].
  apply srange_shiftr; [assumption |]. rewrite Z.shiftr_lor.
  destruct Ha as [-> | ->]; destruct Hb as [-> | ->]; cbn; auto.
Qed.
Lemma lxor_srange : forall w a b, 0 < w -> - 2 ^ (w - 1) <= a < 2 ^ (w - 1) -> - 2 ^ (w - 1) <= b < 2 ^ (w - 1) ->
  - 2 ^ (w - 1) <= Z.lxor a b < 2 ^ (w - 1).
Proof.
  intros w a b Hw Ha Hb. apply srange_shiftr in Ha; [| assumption]. apply srange_shiftr in Hb; [| assumption].
  apply srange_shiftr; [assumption |]. rewrite Z.shiftr_lxor.
  destruct Ha as [-> | ->]; destruct Hb as [-> | ->]; cbn; auto.
Qed.

Lemma urange_mod : forall w a, 0 <= w -> (0 <= a < 2 ^ w) <-> a mod 2 ^ w = a.
Proof.
  intros w a Hw. assert (0 < 2 ^ w) by (apply Z.pow_pos_nonneg; lia). split; intro H0.
  - apply Z.mod_small; assumption.
  - rewrite <- H0. apply Z.mod_pos_bound; assumption.
Qed.
Lemma land_urange : forall w a b, 0 <= w -> 0 <= a < 2 ^ w -> 0 <= b < 2 ^ w -> 0 <= Z.land a b < 2 ^ w.
Proof. intros w a b Hw Ha Hb. apply urange_mod; [assumption |]. rewrite land_mod by assumption. f_equal; apply urange_mod; assumption. Qed.
Lemma lor_urange : forall w a b, 0 <= w -> 0 <= a < 2 ^ w -> 0 <= b < 2 ^ w -> 0 <= Z.lor a b < 2 ^ w.
Proof. intros w a b Hw Ha Hb. apply urange_mod; [assumption |]. rewrite lor_mod by assumption. f_equal; apply urange_mod; assumption. Qed.
Lemma lxor_urange : forall w a b, 0 <= w -> 0 <= a < 2 ^ w -> 0 <= b < 2 ^ w -> 0 <= Z.lxor a b < 2 ^ w.
Proof. intros w a b Hw Ha Hb. apply urange_mod; [assumption |]. rewrite lxor_mod by assumption. f_equal; apply urange_mod; assumption. Qed.

(* range facts per kind *)
Lemma in_range_s : forall k z, signed k = true -> in_range k z <-> - 2 ^ (bits k - 1) <= z < 2 ^ (bits k - 1).
Proof. intros k z S; unfold in_range, kmin, kmax; rewrite S; lia. Qed.
Lemma in_range_u : forall k z, signed k = false -> in_range k z <-> 0 <= z < 2 ^ bits k.
Proof. intros k z S; unfold in_range, kmin, kmax; rewrite S; lia. Qed.
Lemma bits_pos : forall k, 0 < bits k. Proof. destruct k; reflexivity. Qed.

Lemma land_in_range : forall k a b, in_range k a -> in_range k b -> in_range k (Z.land a b).
Proof.
  intros k a b Ha Hb. pose proof (bits_pos k). destruct (signed k) eqn:S.
  - rewrite in_range_s in * by assumption. apply land_srange; assumption.
  - rewrite in_range_u in * by assumption. apply land_urange; lia || assumption.
Qed.
Lemma lor_in_range : forall k a b, in_range k a -> in_range k b -> in_range k (Z.lor a b).
Proof.
  intros k a b Ha Hb. pose proof (bits_pos k). destruct (signed k) eqn:S.
  - rewrite in_range_s in * by assumption. apply lor_srange; assumption.
  - rewrite in_range_u in * by assumption. apply lor_urange; lia || assumption.
Qed.
Lemma lxor_in_range : forall k a b, in_range k a -> in_range k b -> in_range k (Z.lxor a b).
Proof.
  intros k a b Ha Hb. pose proof (bits_pos k). destruct (signed k) eqn:S.
  - rewrite in_range_s in * by assumption. apply lxor_srange; assumption.
  - rewrite in_range_u in * by assumption. apply lxor_urange; lia || assumption.
Qed.

(* a value of a kind of at most 32 bits, seen through ToInt32, is congruent to itself *)
Lemma in_range_32 : forall k z, is64 k = false -> in_range k z -> - two31 <= z < two32.
Proof. intros k z H R; destruct k; try discriminate H; unfold in_range, kmin, kmax in R; cbn in R; unfold two31, two32; lia. Qed.
Lemma in_range_s32 : forall k z, is64 k = false -> signed k = true -> in_range k z -> - two31 <= z < two31.
Proof. intros k z H S R; destruct k; try discriminate H; try discriminate S; unfold in_range, kmin, kmax in R; cbn in R; unfold two31; lia. Qed.
