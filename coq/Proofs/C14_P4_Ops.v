(* C14 (phase 4) — lemmas about the emitted string operators (Model/C14_Ops.v). *)
From Coq Require Import List NArith ZArith Bool Arith Lia ZifyN ZifyNat ZifyBool.
From Verif Require Import Model.C14_Utf8 Model.C14_Ops Proofs.C14_Encode Proofs.C14_Strings.
Import ListNotations.
Local Open Scope N_scope.

(* ---------- code-unit equality ---------- *)
Lemma units_eqb_eq a : forall b, units_eqb a b = true <-> a = b.
Proof.
  induction a as [|x a IH]; intros [|y b]; cbn [units_eqb]; try (split; [discriminate|discriminate]); [tauto|].
  rewrite andb_true_iff, IH, N.eqb_eq. split; [intros [-> ->]; reflexivity|intros H; injection H; auto].
Qed.

Lemma units_eqb_refl a : units_eqb a a = true.
Proof. apply units_eqb_eq. reflexivity. Qed.

Lemma units_eqb_neq a b : units_eqb a b = false <-> a <> b.
Proof.
  split; intros H.
  - intros E. apply units_eqb_eq in E. congruence.
  - destruct (units_eqb a b) eqn:E; [apply units_eqb_eq in E; contradiction|reflexivity].
Qed.

(* ---------- the ECMAScript comparison = the plain lexicographic recursion ---------- *)
Fixpoint lt_rec (a b : list N) : bool :=
  match a, b with
  | _, [] => false
  | [], _ :: _ => true
  | x :: a', y :: b' => if x =? y then lt_rec a' b' else x <? y
  end.

Lemma js_str_lt_rec a : forall b, js_str_lt a b = lt_rec a b.
Proof.
  induction a as [|x a IH]; intros [|y b]; try reflexivity.
  specialize (IH b). unfold js_str_lt in *. cbn [is_prefix first_diff lt_rec].
  rewrite (N.eqb_sym y x). destruct (x =? y); cbn [andb]; [exact IH|reflexivity].
Qed.


Lemma bytes_lt_cons x a b : bytes_lt a b -> bytes_lt (x :: a) (x :: b).
Proof.
  intros [(c & t & ->)|(p & u & v & ta & tb & -> & -> & H)].
  - left. exists c, t. reflexivity.
  - right. exists (x :: p), u, v, ta, tb. auto.
Qed.

Lemma bytes_lt_cons_inv x y a b : bytes_lt (x :: a) (y :: b) -> (x = y /\ bytes_lt a b) \/ x < y.
Proof.
  intros [(c & t & E)|(p & u & v & ta & tb & Ea & Eb & H)].
  - injection E as -> ->. left. split; [reflexivity|]. left. exists c, t. reflexivity.
  - destruct p as [|z p]; cbn [app] in *.
    + injection Ea as -> ->. injection Eb as -> ->. right. exact H.
    + injection Ea as -> ->. injection Eb as -> ->. left. split; [reflexivity|]. right. exists p, u, v, ta, tb. auto.
Qed.

Lemma lt_rec_iff a : forall b, lt_rec a b = true <-> bytes_lt a b.
Proof.
  induction a as [|x a IH]; intros [|y b]; cbn [lt_rec].
  - split; [discriminate|]. intros [(c & t & E)|(p & u & v & ta & tb & E & _)]; [discriminate E|destruct p; discriminate E].
  - split; [|reflexivity]. intros _. left. exists y, b. reflexivity.
  - split; [discriminate|]. intros [(c & t & E)|(p & u & v & ta & tb & _ & E & _)]; [discriminate E|destruct p; discriminate E].
  - destruct (N.eqb_spec x y) as [->|Hne].
    + rewrite IH. split; [apply bytes_lt_cons|]. intros H. apply bytes_lt_cons_inv in H as [[_ H]|H]; [exact H|lia].
    + rewrite N.ltb_lt. split.
      * intros H. right. exists [], x, y, a, b. auto.
      * intros H. apply bytes_lt_cons_inv in H as [[E _]|H]; [contradiction|exact H].
Qed.

Lemma js_str_lt_iff a b : js_str_lt a b = true <-> bytes_lt a b.
Proof. rewrite js_str_lt_rec. apply lt_rec_iff. Qed.

(* strict total order *)
Lemma lt_rec_irrefl a : lt_rec a a = false.
Proof. induction a as [|x a IH]; cbn [lt_rec]; [reflexivity|]. rewrite N.eqb_refl. exact IH. Qed.

Lemma lt_rec_asym a : forall b, lt_rec a b = true -> lt_rec b a = false.
Proof.
  induction a as [|x a IH]; intros [|y b]; cbn [lt_rec]; try reflexivity; try discriminate.
  rewrite (N.eqb_sym y x). destruct (N.eqb_spec x y) as [->|Hne]; [apply IH|]. lia.
Qed.

Lemma lt_rec_trich a : forall b, lt_rec a b = false -> lt_rec b a = false -> a = b.
Proof.
  induction a as [|x a IH]; intros [|y b]; cbn [lt_rec]; try reflexivity; try discriminate.
  rewrite (N.eqb_sym y x). destruct (N.eqb_spec x y) as [->|Hne]; [intros H1 H2; f_equal; apply IH; assumption|]. lia.
Qed.

Lemma lt_rec_trans a : forall b c, lt_rec a b = true -> lt_rec b c = true -> lt_rec a c = true.
Proof.
  induction a as [|x a IH]; intros [|y b] [|z c]; cbn [lt_rec]; try reflexivity; try discriminate.
  destruct (N.eqb_spec x y) as [->|Hxy]; destruct (N.eqb_spec y z) as [->|Hyz].
  - apply IH.
  - intros _ H. exact H.
  - intros H _. destruct (N.eqb_spec x z); [contradiction|exact H].
  - intros H1 H2. destruct (N.eqb_spec x z); lia.
Qed.

Lemma bytes_lt_irrefl a : ~ bytes_lt a a.
Proof. rewrite <- lt_rec_iff, lt_rec_irrefl. discriminate. Qed.

Lemma bytes_lt_trans a b c : bytes_lt a b -> bytes_lt b c -> bytes_lt a c.
Proof. rewrite <- !lt_rec_iff. apply lt_rec_trans. Qed.

Lemma bytes_lt_trichotomy a b : bytes_lt a b \/ a = b \/ bytes_lt b a.
Proof.
  rewrite <- !lt_rec_iff. destruct (lt_rec a b) eqn:E1; [auto|]. destruct (lt_rec b a) eqn:E2; [auto|].
  right. left. apply lt_rec_trich; assumption.
Qed.

Lemma bytes_lt_asym a b : bytes_lt a b -> ~ bytes_lt b a.
Proof. rewrite <- !lt_rec_iff. intros H. rewrite (lt_rec_asym _ _ H). discriminate. Qed.

Lemma bytes_lt_strict_total_order :
  (forall a, ~ bytes_lt a a) /\ (forall a b c, bytes_lt a b -> bytes_lt b c -> bytes_lt a c) /\
  (forall a b, bytes_lt a b \/ a = b \/ bytes_lt b a) /\ (forall a b, bytes_lt a b -> ~ bytes_lt b a).
Proof. repeat split; [apply bytes_lt_irrefl|apply bytes_lt_trans|apply bytes_lt_trichotomy|apply bytes_lt_asym]. Qed.

(* ---------- the six emitted comparison templates ---------- *)

Lemma le_iff a b : js_str_le a b = true <-> bytes_lt a b \/ a = b.
Proof.
  unfold js_str_le. rewrite negb_true_iff. split.
  - intros H. destruct (bytes_lt_trichotomy a b) as [H1|[H1|H1]]; auto.
    apply js_str_lt_iff in H1. congruence.
  - intros [H| ->].
    + destruct (js_str_lt b a) eqn:E; [|reflexivity]. apply js_str_lt_iff in E. exfalso. exact (bytes_lt_asym _ _ H E).
    + rewrite js_str_lt_rec. apply lt_rec_irrefl.
Qed.

Lemma compare_iff_bytes_compare a b :
  (holds T_Eql a b <-> a = b) /\ (holds T_Neq a b <-> a <> b) /\
  (holds T_Lss a b <-> bytes_lt a b) /\ (holds T_Leq a b <-> bytes_lt a b \/ a = b) /\
  (holds T_Gtr a b <-> bytes_lt b a) /\ (holds T_Geq a b <-> bytes_lt b a \/ b = a) /\
  (forall t, In t [T_Eql; T_Neq; T_Lss; T_Leq; T_Gtr; T_Geq] -> holds t a b \/ fails t a b).
Proof.
  unfold holds, fails, run. cbn [jeval nth_error bind binop_eval cmp_eval seq_eval T_Eql T_Neq T_Lss T_Leq T_Gtr T_Geq X0 X1].
  repeat split.
  - intros H. apply units_eqb_eq. congruence.
  - intros H. apply units_eqb_eq in H. rewrite H. reflexivity.
  - intros H E. apply units_eqb_eq in E. rewrite E in H. discriminate.
  - intros H. apply units_eqb_neq in H. rewrite H. reflexivity.
  - intros H. apply js_str_lt_iff. congruence.
  - intros H. apply js_str_lt_iff in H. rewrite H. reflexivity.
  - intros H. apply le_iff. congruence.
  - intros H. apply le_iff in H. rewrite H. reflexivity.
  - intros H. apply js_str_lt_iff. unfold js_str_gt in H. congruence.
  - intros H. apply js_str_lt_iff in H. unfold js_str_gt. rewrite H. reflexivity.
  - intros H. apply (le_iff b a). unfold js_str_ge, js_str_le in *. congruence.
  - intros H. apply (le_iff b a) in H. unfold js_str_ge, js_str_le in *. rewrite H. reflexivity.
  - intros t Ht. cbn [In] in Ht.
    destruct Ht as [<-|[<-|[<-|[<-|[<-|[<-|[]]]]]]];
      cbn [jeval nth_error bind binop_eval cmp_eval seq_eval T_Eql T_Neq T_Lss T_Leq T_Gtr T_Geq X0 X1];
      match goal with |- Ok (VBool ?b) = _ \/ _ => destruct b; auto end.
Qed.

(* ---------- len, + ---------- *)
Lemma len_spec s : run T_Len [VStr s] = Ok (VNum (Z.of_nat (length s))).
Proof. reflexivity. Qed.

Lemma is_bytes_app a b : is_bytes (a ++ b) = is_bytes a && is_bytes b.
Proof. apply forallb_app. Qed.

Lemma concat_spec a b :
  run T_Add [VStr a; VStr b] = Ok (VStr (a ++ b)) /\
  run T_Len [VStr (a ++ b)] = Ok (VNum (Z.of_nat (length a) + Z.of_nat (length b))) /\
  (is_bytes a = true -> is_bytes b = true -> is_bytes (a ++ b) = true).
Proof.
  split; [reflexivity|]. split.
  - rewrite len_spec, app_length, Nat2Z.inj_add. reflexivity.
  - intros Ha Hb. rewrite is_bytes_app, Ha, Hb. reflexivity.
Qed.

Lemma concat_assoc_unit a b c :
  run T_Add [VStr (a ++ b); VStr c] = run T_Add [VStr a; VStr (b ++ c)] /\
  run T_Add [VStr []; VStr a] = Ok (VStr a) /\ run T_Add [VStr a; VStr []] = Ok (VStr a).
Proof. unfold run. cbn. rewrite app_assoc, app_nil_r. auto. Qed.

(* ---------- slicing through the templates ---------- *)
Lemma sl2_spec s lo hi : run T_Sl2 [VStr s; VNum lo; VNum hi] = sub_res (spec_slice s lo hi).
Proof. unfold run. cbn. rewrite substring_three_arg. reflexivity. Qed.

Lemma sllo_spec s lo : run T_SlLo [VStr s; VNum lo] = sub_res (spec_slice s lo (Z.of_nat (length s))).
Proof. unfold run. cbn. rewrite substring_low_only. reflexivity. Qed.

Lemma slhi_spec s hi : run T_SlHi [VStr s; VNum hi] = sub_res (spec_slice s 0 hi).
Proof. unfold run. cbn -[substring]. rewrite substring_three_arg. reflexivity. Qed.

Lemma spec_slice_in s lo hi : (0 <= lo <= hi)%Z -> (hi <= Z.of_nat (length s))%Z ->
  spec_slice s lo hi = Some (firstn (Z.to_nat (hi - lo)) (skipn (Z.to_nat lo) s)).
Proof.
  intros H1 H2. unfold spec_slice.
  replace ((0 <=? lo) && (lo <=? hi) && (hi <=? Z.of_nat (length s)))%Z with true by lia. reflexivity.
Qed.

Lemma firstn_length_app {A} (a b : list A) : firstn (length a) (a ++ b) = a.
Proof. induction a; cbn; [destruct b; reflexivity|f_equal; assumption]. Qed.

(* (a + b)[:len(a)] = a,  (a + b)[len(a):] = b,  (a + b)[0:len(a)] = a *)
Lemma slice_of_concat a b :
  run T_SlHi [VStr (a ++ b); VNum (Z.of_nat (length a))] = Ok (VStr a) /\
  run T_SlLo [VStr (a ++ b); VNum (Z.of_nat (length a))] = Ok (VStr b) /\
  run T_Sl2 [VStr (a ++ b); VNum 0; VNum (Z.of_nat (length a))] = Ok (VStr a).
Proof.
  assert (L : (Z.of_nat (length a) <= Z.of_nat (length (a ++ b)))%Z) by (rewrite app_length; lia).
  rewrite slhi_spec, sllo_spec, sl2_spec, !spec_slice_in by lia.
  rewrite Z.sub_0_r, !Nat2Z.id. cbn [Z.to_nat skipn sub_res].
  rewrite firstn_length_app, skipn_length_app. repeat split.
  rewrite app_length. replace (Z.to_nat (Z.of_nat (length a + length b) - Z.of_nat (length a))) with (length b) by lia.
  rewrite firstn_all. reflexivity.
Qed.

(* s[:i] + s[i:] = s, len(s[:i]) = i, for every 0 <= i <= len(s); and s[i:j] sits between s[:i] and s[j:] *)
Lemma concat_of_slices s i j : (0 <= i <= j)%Z -> (j <= Z.of_nat (length s))%Z ->
  exists p m q,
    run T_SlHi [VStr s; VNum i] = Ok (VStr p) /\ run T_Sl2 [VStr s; VNum i; VNum j] = Ok (VStr m) /\
    run T_SlLo [VStr s; VNum j] = Ok (VStr q) /\
    p ++ m ++ q = s /\ Z.of_nat (length p) = i /\ Z.of_nat (length m) = (j - i)%Z.
Proof.
  intros H1 H2. rewrite slhi_spec, sllo_spec, sl2_spec, !spec_slice_in by lia.
  cbn [sub_res Z.to_nat skipn]. do 3 eexists. repeat split.
  - rewrite Z.sub_0_r.
    replace (firstn (Z.to_nat (Z.of_nat (length s) - j)) (skipn (Z.to_nat j) s)) with (skipn (Z.to_nat j) s)
      by (symmetry; apply firstn_all2; rewrite skipn_length; lia).
    replace (Z.to_nat j) with (Z.to_nat i + Z.to_nat (j - i))%nat by lia.
    rewrite <- (skipn_skipn' s (Z.to_nat (j - i)) (Z.to_nat i)), firstn_skipn, firstn_skipn. reflexivity.
  - rewrite Z.sub_0_r, firstn_length. lia.
  - rewrite firstn_length, skipn_length. lia.
Qed.

(* slicing never looks beyond its bounds: a slice of the left part is not affected by what is appended *)
Lemma slice_left_of_concat a b lo hi : (0 <= lo <= hi)%Z -> (hi <= Z.of_nat (length a))%Z ->
  run T_Sl2 [VStr (a ++ b); VNum lo; VNum hi] = run T_Sl2 [VStr a; VNum lo; VNum hi].
Proof.
  intros H1 H2. rewrite !sl2_spec, !spec_slice_in by (try rewrite app_length; lia). do 2 f_equal.
  rewrite skipn_app, firstn_app, skipn_length.
  replace (Z.to_nat (hi - lo) - (length a - Z.to_nat lo))%nat with 0%nat by lia.
  replace (Z.to_nat lo - length a)%nat with 0%nat by lia. cbn [firstn skipn]. apply app_nil_r.
Qed.

(* ---------- indexing through the template ---------- *)

Lemma idx_spec s i : run T_Idx [VStr s; VNum i] = idx_res (spec_index s i).
Proof.
  rewrite <- (index_emitted_spec false) by discriminate.
  unfold run, index_emitted. cbn [jeval T_Idx X0 X1 nth_error bind binop_eval cmp_eval fld_eval].
  destruct (i <? 0)%Z eqn:E1; cbn [bind orb call1 idx_res]; [reflexivity|].
  destruct (Z.of_nat (length s) <=? i)%Z eqn:E2; cbn [bind call1 idx_res]; [reflexivity|].
  destruct (index_unchecked s i); reflexivity.
Qed.

Lemma idx_in_range s i : (0 <= i < Z.of_nat (length s))%Z ->
  exists c, nth_error s (Z.to_nat i) = Some c /\ run T_Idx [VStr s; VNum i] = Ok (VNum (Z.of_N c)).
Proof.
  intros H. rewrite idx_spec. unfold spec_index.
  replace ((0 <=? i) && (i <? Z.of_nat (length s)))%Z with true by lia.
  destruct (nth_error s (Z.to_nat i)) eqn:E; [eauto|]. apply nth_error_None in E. lia.
Qed.

Lemma idx_of_concat a b i : (0 <= i)%Z ->
  run T_Idx [VStr (a ++ b); VNum i] =
  if (i <? Z.of_nat (length a))%Z then run T_Idx [VStr a; VNum i] else run T_Idx [VStr b; VNum (i - Z.of_nat (length a))].
Proof.
  intros H. rewrite !idx_spec. unfold spec_index. rewrite app_length.
  destruct (i <? Z.of_nat (length a))%Z eqn:E.
  - replace (0 <=? i)%Z with true by lia. replace (i <? Z.of_nat (length a + length b))%Z with true by lia.
    cbn [andb]. rewrite nth_error_app1 by lia. reflexivity.
  - replace ((0 <=? i - Z.of_nat (length a)) && (i - Z.of_nat (length a) <? Z.of_nat (length b)))%Z
      with ((0 <=? i) && (i <? Z.of_nat (length a + length b)))%Z by lia.
    destruct ((0 <=? i) && (i <? Z.of_nat (length a + length b)))%Z; [|reflexivity].
    rewrite nth_error_app2 by lia. replace (Z.to_nat (i - Z.of_nat (length a))) with (Z.to_nat i - length a)%nat by lia.
    reflexivity.
Qed.

(* ---------- []byte(s) / string(b) through the templates ---------- *)
Lemma is_bytes_skipn n : forall s, is_bytes s = true -> is_bytes (skipn n s) = true.
Proof.
  unfold is_bytes. induction n; intros [|c s] Hb; cbn [skipn forallb] in *; auto.
  apply andb_true_iff in Hb as [_ H2]. auto.
Qed.

Lemma is_bytes_window arr off len : is_bytes arr = true -> is_bytes (window arr off len) = true.
Proof. intros H. unfold window. apply is_bytes_firstn, is_bytes_skipn, H. Qed.

Lemma window_length {A} (arr : list A) off len : (off + len <= length arr)%nat -> length (window arr off len) = len.
Proof. intros H. unfold window. rewrite firstn_length, skipn_length. lia. Qed.

(* string(b) for EVERY slice (any offset, length, capacity, any chunk count) is the window of the array, and
   []byte of it is a fresh slice with offset 0 and length = capacity = len(b) holding exactly those bytes *)
Lemma bytes_conv_roundtrip arr off len cap : is_bytes arr = true -> (off + len <= length arr)%nat ->
  run T_FromBytes [VBytes arr off len cap] = Ok (VStr (window arr off len)) /\
  is_bytes (window arr off len) = true /\
  run T_Len [VStr (window arr off len)] = Ok (VNum (Z.of_nat len)) /\
  run T_ToBytes [VStr (window arr off len)] = Ok (VBytes (window arr off len) 0 len len).
Proof.
  intros Hb Hl. unfold run. cbn [jeval T_FromBytes T_ToBytes T_Len X0 nth_error bind call1 new_slice fld_eval].
  rewrite bytes_to_string_spec, string_to_bytes_id by (apply is_bytes_window, Hb).
  rewrite window_length by exact Hl. repeat split. apply is_bytes_window, Hb.
Qed.

(* string([]byte(s)) = s for every Go string *)
Lemma string_conv_roundtrip s : is_bytes s = true ->
  run T_ToBytes [VStr s] = Ok (VBytes s 0 (length s) (length s)) /\
  run T_FromBytes [VBytes s 0 (length s) (length s)] = Ok (VStr s).
Proof.
  intros Hb. unfold run. cbn [jeval T_FromBytes T_ToBytes X0 nth_error bind call1 new_slice].
  rewrite string_to_bytes_id by exact Hb. split; [reflexivity|].
  rewrite bytes_to_string_spec. unfold window. cbn [skipn]. rewrite firstn_all. reflexivity.
Qed.

(* the chunked loop with the chunk size read from prelude.js, for every positive chunk size *)
Lemma bytes_to_string_chunk_indep k arr off len : (0 < k)%nat ->
  bytes_to_string_k k arr off len = bytes_to_string arr off len.
Proof. intros Hk. rewrite bytes_to_string_k_spec, bytes_to_string_spec by exact Hk. reflexivity. Qed.

(* ---------- []rune / string(rune) / string(int64) through the templates ---------- *)
Lemma runes_templates s rs off len cap r hi lo :
  run T_ToRunes [VStr s] =
    Ok (VRunes (map Z.of_N (string_to_runes s)) 0 (length (string_to_runes s)) (length (string_to_runes s))) /\
  run T_FromRunes [VRunes rs off len cap] = Ok (VStr (runes_to_string rs off len)) /\
  run T_FromRune [VNum r] = Ok (VStr (spec_string_of_rune r)) /\
  run T_FromI64 [VI64 hi lo] = Ok (VStr (encode_rune (if (hi =? 0)%Z then lo else (-1)%Z))).
Proof.
  unfold run. cbn [jeval T_ToRunes T_FromRunes T_FromRune T_FromI64 X0 nth_error bind call1 new_slice fld_eval binop_eval seq_eval].
  rewrite map_length, encode_eq_spec. repeat split. destruct (hi =? 0)%Z; reflexivity.
Qed.

(* string(x) for an int64 x = (hi, lo) with hi = floor(x / 2^32), lo = x mod 2^32 *)
Lemma from_i64_spec x :
  run T_FromI64 [VI64 (x / 4294967296) (x mod 4294967296)] = Ok (VStr (spec_string_of_rune x)).
Proof.
  rewrite <- string_of_int64_spec. unfold run, string_of_int64.
  cbn [jeval T_FromI64 X0 nth_error bind call1 fld_eval binop_eval seq_eval].
  destruct (x / 4294967296 =? 0)%Z; reflexivity.
Qed.

Lemma is_bytes_flat_map {A} (f : A -> list N) l : (forall x, is_bytes (f x) = true) -> is_bytes (flat_map f l) = true.
Proof. intros H. induction l; cbn [flat_map]; [reflexivity|]. rewrite is_bytes_app, H, IHl. reflexivity. Qed.

Lemma runes_to_string_bytes rs off len : is_bytes (runes_to_string rs off len) = true.
Proof. apply is_bytes_flat_map, encode_rune_bytes. Qed.

(* ---------- every string-producing template returns a well-formed representation ---------- *)
Lemma results_wellformed :
  (forall a b, is_bytes a = true -> is_bytes b = true -> exists r, run T_Add [VStr a; VStr b] = Ok (VStr r) /\ is_bytes r = true) /\
  (forall s lo hi r, is_bytes s = true -> run T_Sl2 [VStr s; VNum lo; VNum hi] = Ok (VStr r) -> is_bytes r = true) /\
  (forall s lo r, is_bytes s = true -> run T_SlLo [VStr s; VNum lo] = Ok (VStr r) -> is_bytes r = true) /\
  (forall s hi r, is_bytes s = true -> run T_SlHi [VStr s; VNum hi] = Ok (VStr r) -> is_bytes r = true) /\
  (forall arr off len cap, is_bytes arr = true -> exists r, run T_FromBytes [VBytes arr off len cap] = Ok (VStr r) /\ is_bytes r = true) /\
  (forall rs off len cap, exists r, run T_FromRunes [VRunes rs off len cap] = Ok (VStr r) /\ is_bytes r = true) /\
  (forall x, exists r, run T_FromRune [VNum x] = Ok (VStr r) /\ is_bytes r = true) /\
  (forall hi lo, exists r, run T_FromI64 [VI64 hi lo] = Ok (VStr r) /\ is_bytes r = true) /\
  (forall s, exists arr n, run T_ToBytes [VStr s] = Ok (VBytes arr 0 n n) /\ is_bytes arr = true /\ n = length s /\ length arr = n) /\
  (forall s, is_bytes s = true -> is_bytes (key_for s) = true).
Proof.
  assert (S : forall s lo hi r, is_bytes s = true -> sub_res (spec_slice s lo hi) = Ok (VStr r) -> is_bytes r = true).
  { intros s lo hi r Hb. unfold spec_slice. destruct ((0 <=? lo) && (lo <=? hi) && (hi <=? Z.of_nat (length s)))%Z; [|discriminate].
    cbn [sub_res]. intros E. injection E as <-. apply is_bytes_firstn, is_bytes_skipn, Hb. }
  repeat split.
  - intros a b Ha Hb. eexists. split; [reflexivity|]. rewrite is_bytes_app, Ha, Hb. reflexivity.
  - intros s lo hi r Hb. rewrite sl2_spec. apply S, Hb.
  - intros s lo r Hb. rewrite sllo_spec. apply S, Hb.
  - intros s hi r Hb. rewrite slhi_spec. apply S, Hb.
  - intros arr off len cap Hb. eexists. split; [reflexivity|]. rewrite bytes_to_string_spec. apply is_bytes_window, Hb.
  - intros rs off len cap. eexists. split; [reflexivity|]. apply runes_to_string_bytes.
  - intros x. eexists. split; [reflexivity|]. apply encode_rune_bytes.
  - intros hi lo. exists (encode_rune (if (hi =? 0)%Z then lo else (-1)%Z)). split; [|apply encode_rune_bytes].
    unfold run. cbn [jeval T_FromI64 X0 nth_error bind call1 fld_eval binop_eval seq_eval]. destruct (hi =? 0)%Z; reflexivity.
  - intros s. exists (string_to_bytes s), (length s). unfold run.
    cbn [jeval T_ToBytes X0 nth_error bind call1 new_slice]. unfold string_to_bytes at 2 3. rewrite map_length.
    repeat split. apply string_to_bytes_bytes. unfold string_to_bytes. apply map_length.
  - intros s Hb. unfold key_for, is_bytes in *. cbn [forallb]. rewrite Hb. reflexivity.
Qed.

(* ---------- map keys ---------- *)
Lemma key_injective a b : key_for a = key_for b -> a = b.
Proof. unfold key_for. intros H. injection H. auto. Qed.

Lemma key_eqb a b : units_eqb (key_for a) (key_for b) = units_eqb a b.
Proof. reflexivity. Qed.

Lemma map_get_set m key e : forall key',
  map_get (map_set m key e) key' = if units_eqb key key' then Some e else map_get m key'.
Proof.
  induction m as [|[k0 e0] m IH]; intros key'; cbn [map_set map_get]; [reflexivity|].
  destruct (units_eqb k0 key) eqn:E1; cbn [map_get].
  - apply units_eqb_eq in E1. subst k0. destruct (units_eqb key key'); reflexivity.
  - rewrite IH. destruct (units_eqb k0 key') eqn:E2; [|reflexivity].
    apply units_eqb_eq in E2. subst k0.
    replace (units_eqb key key') with false; [reflexivity|].
    symmetry. apply units_eqb_neq. apply units_eqb_neq in E1. congruence.
Qed.

(* m[k] = v; then m[k'] reads v iff k' has the same bytes as k — for every pair of byte strings, whatever they
   contain ('$', NUL, invalid UTF-8): distinct Go strings never share a Map key, equal ones always do *)
Lemma go_map_get_set m k v k' :
  go_map_get2 (go_map_set m k v) k' = if units_eqb k k' then (v, true) else go_map_get2 m k'.
Proof.
  unfold go_map_get2, go_map_set. rewrite map_get_set, key_eqb. destruct (units_eqb k k'); reflexivity.
Qed.

Lemma map_get_template m k : run T_MapGet [VMap m; VStr k] = Ok (VNum (fst (go_map_get2 m k))).
Proof.
  unfold run, go_map_get2. cbn [jeval T_MapGet X0 X1 nth_error bind call1 call2].
  destruct (map_get m (key_for k)) as [[k0 v]|]; reflexivity.
Qed.

(* ---------- the emitted string switch ---------- *)
Lemma existsb_units tag cs : existsb (units_eqb tag) cs = true <-> In tag cs.
Proof.
  rewrite existsb_exists. split.
  - intros (x & Hx & E). apply units_eqb_eq in E. subst. exact Hx.
  - intros H. exists tag. split; [exact H|apply units_eqb_refl].
Qed.

Lemma switch_some tag : forall cls i j, switch_emitted tag cls i = Some j ->
  exists n cl, j = (i + n)%nat /\ nth_error cls n = Some cl /\ In tag cl /\
               forall n' cl', (n' < n)%nat -> nth_error cls n' = Some cl' -> ~ In tag cl'.
Proof.
  induction cls as [|cs cls IH]; intros i j; cbn [switch_emitted]; [discriminate|].
  destruct (existsb (units_eqb tag) cs) eqn:E.
  - intros H. injection H as <-. exists 0%nat, cs. repeat split; [lia|apply existsb_units, E|]. intros n' cl' Hn. lia.
  - intros H. apply IH in H as (n & cl & -> & Hn & Hin & Hfirst). exists (S n), cl. repeat split; [lia|exact Hn|exact Hin|].
    intros [|n'] cl' Hlt Hn'; cbn [nth_error] in Hn'.
    + injection Hn' as <-. intros Hc. apply existsb_units in Hc. congruence.
    + apply (Hfirst n'); [lia|exact Hn'].
Qed.

Lemma switch_none tag : forall cls i, switch_emitted tag cls i = None -> forall cl, In cl cls -> ~ In tag cl.
Proof.
  induction cls as [|cs cls IH]; intros i; cbn [switch_emitted]; [intros _ cl []|].
  destruct (existsb (units_eqb tag) cs) eqn:E; [discriminate|].
  intros H cl [<-|Hin]; [intros Hc; apply existsb_units in Hc; congruence|exact (IH _ H cl Hin)].
Qed.
