(* C01 stage 2 — simulation proof, part 2: statements with calls and returns, functions, programs *)
From Coq Require Import ZArith List String Bool Lia.
From Verif Require Import Model.C01_GoSem Model.C01_JsSem Model.C01_Compile Model.C01_Wf
  Model.C01_S2_GoSem Model.C01_S2_JsSem Model.C01_S2_Compile Model.C01_S2_Wf
  Proofs.C01_Arith Proofs.C01_SimBase Proofs.C01_SimExpr Proofs.C01_SimExpr2 Proofs.C01_SimBin Proofs.C01_SimStatic
  Proofs.C01_SimStmt1 Proofs.C01_SimStmt2 Proofs.C01_SimStmt3 Proofs.C01_SimStmt4 Proofs.C01_S2_Base.
Import ListNotations.
Local Open Scope Z_scope.

Definition retv_ok (rt : option ty) (v : option val) : Prop :=
  match rt, v with
  | None, None => True
  | Some t, Some a => val_ok t a
  | _, _ => False
  end.

(* how the result of a stage-2 MiniGo statement and the result of its translation are related
   (rt = result type of the enclosing function) *)
Definition Res2 (rt : option ty) (g' : env) (r' : list (name * name))
  (rg : res2 (store val) val) (rj : res2 (store jval) jval) : Prop :=
  match rg with
  | Q2Ok GNorm sg' out => exists sj', rj = Q2Ok GNorm sj' out /\ Inv g' r' sg' sj'
  | Q2Ok (GRet v) sg' out => retv_ok rt v /\ exists sj', rj = Q2Ok (GRet (option_map inj v)) sj' out
  | Q2Ok GBrk _ _ => True          (* every MiniGo context turns it into Stuck *)
  | Q2Panic out => rj = Q2Panic out
  | Q2OOF => True
  | Q2Stuck => True
  end.

Lemma Res2_prepend : forall rt g' r' rg rj o, Res2 rt g' r' rg rj -> Res2 rt g' r' (prepend2 o rg) (prepend2 o rj).
Proof.
  intros rt g' r' rg rj o H. destruct rg as [[| |v] sg' out|out| |]; cbn [prepend2 Res2] in *; auto.
  - destruct H as [sj' [-> HI]]. exists sj'. auto.
  - destruct H as [Rv [sj' ->]]. split; auto. exists sj'. reflexivity.
  - subst. reflexivity.
Qed.

Lemma Res2_mono : forall rt g' r' g0' r'' rg rj,
  incl g0' g' -> rho_ext r' r'' -> Res2 rt g' r' rg rj -> Res2 rt g0' r'' rg rj.
Proof.
  intros rt g' r' g0' r'' rg rj I E H. destruct rg as [[| |v] sg' out|out| |]; cbn [Res2] in *; auto.
  destruct H as [sj' [-> HI]]. exists sj'. split; auto. eapply Inv_ext; eauto. eapply Inv_incl; eauto.
Qed.

(* a call seen by the caller *)
Definition CRes (rt : option ty) (cg : cres val) (cj : cres jval) : Prop :=
  match cg with
  | CRet v o => match v with Some a => exists t, rt = Some t /\ val_ok t a | None => True end /\
                cj = CRet (option_map inj v) o
  | CPanic o => cj = CPanic o
  | COOF => True
  | CStuck => True
  end.

Lemma after_call_sim : forall rt frt g' r' (updG : store val -> val -> store val) (updJ : store jval -> jval -> store jval)
  d sg sj1 cg cj,
  CRes frt cg cj ->
  (d = true -> forall a t, frt = Some t -> val_ok t a -> Inv g' r' (updG sg a) (updJ sj1 (inj a))) ->
  (d = false -> Inv g' r' sg sj1) ->
  Res2 rt g' r' (after_call updG d sg cg) (after_call updJ d sj1 cj).
Proof.
  intros rt frt g' r' updG updJ d sg sj1 cg cj H H1 H2. destruct cg as [v o|o| |]; cbn [CRes after_call] in *; auto.
  - destruct H as [Hv ->]. cbn [after_call]. destruct d.
    + destruct v as [a|]; cbn [option_map Res2]; auto.
      destruct Hv as [t [E Va]]. exists (updJ sj1 (inj a)). split. reflexivity. eapply H1; eauto.
    + cbn [Res2]. exists sj1. split. reflexivity. auto.
  - subst. reflexivity.
Qed.

Section Sim2.
  Variable fe : fenv.
  Hypothesis fe_wf : forall f fd, find_fn fe f = Some fd -> wf_fn fe fd = true.
  Let jfe := compile_fns fe.

  Definition Dyn2 (fuel : nat) (s : stmt2) : Prop := forall rt st js st' g g' sg sj,
    cstmt2 st s = (js, st') -> wf_stmt2 fe rt g s = Some g' ->
    fresh st (defs2 s) -> NoDup (defs2 s) -> rho_ok st -> Inv g (rho st) sg sj ->
    Res2 rt g' (rho st') (exec2 fe fuel s sg) (jexec2_list jfe fuel js sj).

  Definition FnSim (fuel : nat) : Prop := forall f fd vs s0,
    find_fn fe f = Some fd -> Forall2 val_ok (map snd (f_params fd)) vs ->
    bind_params (map fst (f_params fd)) vs [] = Some s0 ->
    exists sj0, bind_params (jf_params (compile_fn fd)) (map inj vs) [] = Some sj0 /\
      CRes (f_ret fd) (finish_call (exec2 fe fuel (f_body fd) s0))
                      (finish_call (jexec2_list jfe fuel (jf_body (compile_fn fd)) sj0)).

  Lemma fresh_nil : forall st, fresh st [].
  Proof. intros st v []. Qed.

  Lemma fn_sim : forall fuel, (forall s, Dyn2 fuel s) -> FnSim fuel.
  Proof.
    intros fuel D f fd vs s0 Hfind HV HB. pose proof (fe_wf _ _ Hfind) as Hwf. unfold wf_fn in Hwf.
    destruct (wf_stmt2 fe (f_ret fd) (rev (f_params fd)) (f_body fd)) as [g'|] eqn:W; [|discriminate].
    apply andb_true_iff in Hwf as [Hnd _]. apply nodupb_NoDup in Hnd.
    unfold compile_fn. destruct (cparams cstate0 (map fst (f_params fd))) as [ns st0] eqn:CP.
    destruct (cstmt2 st0 (f_body fd)) as [jb st] eqn:CB. cbn [jf_params jf_body].
    assert (Hr : rho_ok cstate0) by (split; cbn; intros; discriminate).
    assert (F0 : fresh cstate0 (map fst (f_params fd) ++ defs2 (f_body fd))) by (intros v _; reflexivity).
    destruct (fresh_app _ _ _ F0) as [Fp Fb]. destruct (NoDup_app_inv _ _ Hnd) as [Np [Nb _]].
    destruct (params_sim (f_params fd) vs cstate0 ns st0 [] [] [] s0 CP HV Hr (Inv_nil _ _ _) Fp Np HB)
      as [sj0 [B [HI0 Hr0]]].
    rewrite app_nil_r in HI0.
    assert (Fb0 : fresh st0 (defs2 (f_body fd))).
    { eapply fresh_next; [eapply cparams_static; eauto | exact F0 | exact Hnd]. }
    pose proof (D (f_body fd) (f_ret fd) st0 jb st _ g' s0 sj0 CB W Fb0 Nb Hr0 HI0) as R.
    exists sj0. split. exact B.
    destruct (exec2 fe fuel (f_body fd) s0) as [[| |v] s o|o| |]; cbn [finish_call Res2 CRes] in *; auto.
    - destruct R as [sj' [-> _]]. cbn [finish_call]. split; auto.
    - destruct R as [Rv [sj' ->]]. cbn [finish_call]. split; auto.
      destruct v as [a|]; auto. unfold retv_ok in Rv. destruct (f_ret fd) as [t|]; [|contradiction]. eauto.
    - rewrite R. reflexivity.
  Qed.

  (* ------------------------------------------------------------ the loop *)
  Section Loop2.
    Variables (rt : option ty) (g1 gb : env) (r1 r2 r3 : list (name * name)).
    Variables (c : expr) (jc : jexpr) (post : stmt) (jp : list jstmt) (body : stmt2) (jb : list jstmt2).
    Variable fuel : nat.
    Let W := J2While (loop_head jc :: jb ++ map J2Base jp).
    Hypothesis HC : CondSim g1 r1 c jc.
    Hypothesis HB : forall f', (f' <= fuel)%nat -> forall sg sj, Inv g1 r1 sg sj ->
      Res2 rt gb r2 (exec2 fe f' body sg) (jexec2_list jfe f' jb sj).
    Hypothesis HP : forall f' sg sj, Inv g1 r2 sg sj ->
      match exec_simple post sg with
      | ROk SNormal sg' out => out = [] /\ exists sj', jexec_list f' jp sj = ROk SNormal sj' [] /\ Inv g1 r3 sg' sj'
      | ROk _ _ _ => False
      | RPanic out => out = [] /\ jexec_list f' jp sj = RPanic []
      | _ => False
      end.
    Hypothesis Igb : incl g1 gb.
    Hypothesis E13 : rho_ext r1 r3.
    Hypothesis Back : forall sg sj, Inv g1 r3 sg sj -> Inv g1 r1 sg sj.

    Lemma loop2_step : forall f, (f <= fuel)%nat ->
      (forall fl, f = S fl -> forall sg sj, Inv g1 r1 sg sj ->
         Res2 rt g1 r3 (loop_once fe fl c post body sg) (jexec2 jfe fl W sj)) ->
      forall sg sj, Inv g1 r1 sg sj ->
      Res2 rt g1 r3 (loop_once fe f c post body sg) (jexec2 jfe f W sj).
    Proof.
      intros f Hle IH sg sj HI.
      unfold loop_once. unfold W at 1. rewrite jexec2_while, jexec2_list_cons.
      pose proof (HC sg sj HI) as CS.
      destruct (eval sg c) as [[z|[|]]| |]; try contradiction.
      - (* condition true *)
        destruct CS as [sj1 [J HI1]]. rewrite (head_true jfe _ _ _ _ J). rewrite prepend2_nil, jexec2_list_app.
        pose proof (HB f Hle sg sj1 HI1) as RB.
        destruct (exec2 fe f body sg) as [[| |v] sg2 o2|o2| |]; cbn [Res2] in RB |- *; auto.
        + destruct RB as [sj2 [-> HI2]]. assert (HI2' : Inv g1 r2 sg2 sj2) by (eapply Inv_incl; eauto).
          rewrite jexec2_list_base.
          pose proof (HP f sg2 sj2 HI2') as RP.
          destruct (exec_simple post sg2) as [[| |] sg3 o3|o3| |]; try contradiction.
          * destruct RP as [-> [sj3 [JP HI3]]]. rewrite JP. cbn [of_sres prepend2].
            destruct f as [|fl]. exact Logic.I.
            rewrite !app_nil_r. fold W. rewrite (exec2_for_skip fe fl c post body sg3).
            apply Res2_prepend. apply (IH fl eq_refl). apply Back. exact HI3.
          * destruct RP as [-> JP]. rewrite JP. cbn [of_sres prepend2 Res2]. rewrite app_nil_r. reflexivity.
        + destruct RB as [Rv [sj2 ->]]. split. exact Rv. exists sj2. reflexivity.
        + rewrite RB. reflexivity.
      - (* condition false *)
        destruct CS as [sj1 [J HI1]]. rewrite (head_false jfe _ _ _ _ J). cbn [Res2].
        exists sj1. split. reflexivity. eapply Inv_ext; eauto.
      - rewrite (head_throw jfe _ _ _ CS). reflexivity.
    Qed.

    Lemma loop2_sim : forall f, (f <= fuel)%nat -> forall sg sj, Inv g1 r1 sg sj ->
      Res2 rt g1 r3 (loop_once fe f c post body sg) (jexec2 jfe f W sj).
    Proof.
      induction f as [|f IHf]; intros Hle; apply loop2_step; auto.
      - intros fl E; discriminate.
      - intros fl E. inversion E; subst. apply IHf. lia.
    Qed.
  End Loop2.

  (* ------------------------------------------------------------ one statement *)
  Section Step2.
    Variable fuel : nat.
    Hypothesis IHcall : forall fl, fuel = S fl -> FnSim fl.

    Lemma dyn2_skip : Dyn2 fuel TSkip.
    Proof.
      intros rt st js st' g g' sg sj Hc Hwf Hfr Hnd Hr HI. cbn [cstmt2 wf_stmt2] in *.
      inversion Hc; inversion Hwf; subst. rewrite exec2_skip, jexec2_list_nil. cbn [Res2]. eauto.
    Qed.

    Lemma dyn2_base : forall b, Dyn2 fuel (TBase b).
    Proof.
      intros b rt st js st' g g' sg sj Hc Hwf Hfr Hnd Hr HI. cbn [cstmt2 wf_stmt2 defs2] in *.
      destruct (cstmt [] st b) as [js0 st1] eqn:C. inversion Hc; subst; clear Hc.
      pose proof (proj1 (dyn_all fuel b) [] st js0 st' g g' sg sj C Hwf (Forall_nil _) Hfr Hnd Hr HI) as R.
      rewrite exec2_base. unfold jfe. rewrite jexec2_list_base.
      destruct (exec fuel b sg) as [[|l|l] sg' o|o| |]; cbn [Res of_sres Res2] in *.
      - destruct R as [sj' [-> HI']]. cbn [of_sres]. eauto.
      - destruct l; exact Logic.I.
      - exact Logic.I.
      - rewrite R. reflexivity.
      - exact Logic.I.
      - exact Logic.I.
    Qed.

    Lemma dyn2_seq : forall a b, Dyn2 fuel a -> Dyn2 fuel b -> Dyn2 fuel (TSeq a b).
    Proof.
      intros a b Da Db rt st js st' g g' sg sj Hc Hwf Hfr Hnd Hr HI. cbn [cstmt2 wf_stmt2 defs2] in *.
      destruct (cstmt2 st a) as [ja st1] eqn:Ca. destruct (cstmt2 st1 b) as [jb st2] eqn:Cb.
      inversion Hc; subst; clear Hc.
      destruct (wf_stmt2 fe rt g a) as [g1|] eqn:Wa; [|discriminate].
      destruct (fresh_app _ _ _ Hfr) as [Fa Fb]. destruct (NoDup_app_inv _ _ Hnd) as [Na [Nb _]].
      pose proof (cstmt2_static _ _ _ _ Ca) as Sa. pose proof (cstmt2_static _ _ _ _ Cb) as Sb.
      destruct (Static_ext _ _ _ Sa Fa Na Hr) as [Ea Ra].
      assert (Fb1 : fresh st1 (defs2 b)) by (eapply fresh_next; eauto).
      destruct (Static_ext _ _ _ Sb Fb1 Nb Ra) as [Eb Rb].
      specialize (Da rt st ja st1 g g1 sg sj Ca Wa Fa Na Hr HI).
      rewrite exec2_seq. unfold jfe in *. rewrite jexec2_list_app.
      destruct (exec2 fe fuel a sg) as [[| |v] sg1 o1|o1| |]; cbn [Res2] in Da |- *; auto.
      - destruct Da as [sj1 [-> HI1]].
        specialize (Db rt st1 jb st' g1 g' sg1 sj1 Cb Hwf Fb1 Nb Ra HI1).
        apply Res2_prepend. exact Db.
      - destruct Da as [Rv [sj1 ->]]. split; auto. exists sj1. reflexivity.
      - rewrite Da. reflexivity.
    Qed.

    Lemma dyn2_return : forall oe, Dyn2 fuel (TReturn oe).
    Proof.
      intros oe rt st js st' g g' sg sj Hc Hwf Hfr Hnd Hr HI. rewrite exec2_return.
      destruct oe as [e|]; cbn [cstmt2 wf_stmt2] in *.
      - destruct (cexpr st e) as [je st1] eqn:C. inversion Hc; subst; clear Hc.
        destruct rt as [t|]; [|discriminate]. destruct (opt_ty_is (wf_expr g e) t) eqn:We; [|discriminate].
        apply opt_ty_is_spec in We.
        pose proof (cexpr_sim g sg e _ _ _ _ sj We C Hr HI) as Sim. unfold ESim in Sim.
        unfold jfe. rewrite jexec2_list_single, jexec2_return.
        destruct (eval sg e) as [a| |]; try contradiction; cbn [Res2].
        + destruct Sim as [Va [sj1 [J F]]]. rewrite J. split. exact Va. exists sj1. reflexivity.
        + rewrite Sim. reflexivity.
      - inversion Hc; subst; clear Hc. destruct rt as [t|]; [discriminate|].
        unfold jfe. rewrite jexec2_list_single, jexec2_return. cbn [Res2]. split. exact Logic.I. exists sj. reflexivity.
    Qed.

    Lemma dyn2_if : forall c t e, Dyn2 fuel t -> Dyn2 fuel e -> Dyn2 fuel (TIf c t e).
    Proof.
      intros c t e Dt De rt st js st' g g' sg sj Hc Hwf Hfr Hnd Hr HI.
      rewrite cstmt2_if in Hc.
      destruct (cexpr st c) as [jc st0] eqn:C0. destruct (cstmt2 st0 t) as [jt st1] eqn:C1.
      destruct (else2 st1 e) as [oe st2] eqn:C2. inversion Hc; subst; clear Hc.
      cbn [wf_stmt2 defs2] in *.
      destruct (opt_ty_is (wf_expr g c) TB) eqn:Wc; [|discriminate]. apply opt_ty_is_spec in Wc.
      destruct (wf_stmt2 fe rt g t) as [gt|] eqn:Wt; [|discriminate].
      destruct (wf_stmt2 fe rt g e) as [ge|] eqn:We; [|discriminate]. inversion Hwf; subst; clear Hwf.
      destruct (fresh_app _ _ _ Hfr) as [Ft Fe]. destruct (NoDup_app_inv _ _ Hnd) as [Nt [Ne _]].
      destruct (cexpr_mono _ _ _ _ C0) as [L0 R0].
      assert (Hr0 : rho_ok st0) by (apply (rho_ok_mono st); auto).
      assert (Ft0 : fresh st0 (defs2 t)) by (unfold fresh; rewrite R0; exact Ft).
      pose proof (cstmt2_static _ _ _ _ C1) as St. pose proof (else2_static _ _ _ _ C2) as Se.
      destruct (Static_ext _ _ _ St Ft0 Nt Hr0) as [Et Rt].
      assert (Fe1 : fresh st1 (defs2 e)).
      { eapply fresh_next; [exact St | | exact Hnd]. unfold fresh. rewrite R0. exact Hfr. }
      destruct (Static_ext _ _ _ Se Fe1 Ne Rt) as [Ee Re].
      assert (CS : CondSim g' (rho st) c jc) by (eapply cond_sim; eauto).
      specialize (CS sg sj HI).
      rewrite exec2_if. unfold jfe in *. rewrite jexec2_list_single, jexec2_if.
      destruct (eval sg c) as [[z|[|]]| |]; try contradiction.
      - destruct CS as [sj1 [J HI1]]. rewrite J. rewrite <- R0 in HI1.
        specialize (Dt rt st0 jt st1 g' gt sg sj1 C1 Wt Ft0 Nt Hr0 HI1).
        eapply Res2_mono; [exact (wf_stmt2_incl _ _ _ _ _ Wt) | exact Ee | exact Dt].
      - destruct CS as [sj1 [J HI1]]. rewrite J. rewrite <- R0 in HI1.
        destruct (else2_spec _ _ _ _ C2) as [[-> [-> ->]]|[je [Ce ->]]].
        + rewrite exec2_skip. cbn [Res2]. exists sj1. split. reflexivity. eapply Inv_ext; [exact Et | exact HI1].
        + assert (HI1' : Inv g' (rho st1) sg sj1) by (eapply Inv_ext; [exact Et | exact HI1]).
          specialize (De rt st1 je st' g' ge sg sj1 Ce We Fe1 Ne Rt HI1').
          eapply Res2_mono; [exact (wf_stmt2_incl _ _ _ _ _ We) | apply rho_ext_refl | exact De].
      - rewrite CS. reflexivity.
    Qed.

    Lemma dyn2_call : forall dst f args, Dyn2 fuel (TCall dst f args).
    Proof.
      intros dst f args rt st js st' g g' sg sj Hc Hwf Hfr Hnd Hr HI.
      cbn [cstmt2] in Hc. destruct (cexprs st args) as [ja st1] eqn:Ca.
      cbn [wf_stmt2] in Hwf. destruct (find_fn fe f) as [fd|] eqn:Ff; [|discriminate].
      destruct (wf_args g args (map snd (f_params fd))) eqn:Wa; [|discriminate].
      destruct (cexprs_mono _ _ _ _ Ca) as [L1 R1].
      assert (Hr1 : rho_ok st1) by (apply (rho_ok_mono st); auto).
      pose proof (cargs_sim g sg args _ st ja st1 sj Wa Ca Hr HI) as SA.
      rewrite exec2_call.
      assert (Main : forall n g2 st2, js = [J2Call (if has_dst dst then Some n else None) f ja] -> st' = st2 -> g' = g2 ->
        (forall sj1, frame st sj sj1 -> has_dst dst = true -> forall a t, f_ret fd = Some t -> val_ok t a ->
            Inv g2 (rho st2) (set sg (dst_name dst) a) (set sj1 n (inj a))) ->
        (forall sj1, frame st sj sj1 -> has_dst dst = false -> Inv g2 (rho st2) sg sj1) ->
        Res2 rt g' (rho st') (match eval_list sg args with
           | inl (Some vs) => match fuel with
               | O => Q2OOF
               | S fl => match find_fn fe f with
                   | None => Q2Stuck
                   | Some fd => match bind_params (map fst (f_params fd)) vs [] with
                       | None => Q2Stuck
                       | Some s0 => after_call (fun s a => set s (dst_name dst) a) (has_dst dst) sg
                                      (finish_call (exec2 fe fl (f_body fd) s0))
                       end
                   end
               end
           | inl None => Q2Stuck
           | inr EPanic => Q2Panic []
           | inr _ => Q2Stuck
           end) (jexec2_list jfe fuel js sj)).
      { intros n g2 st2 -> -> -> H1 H2. unfold jfe. rewrite jexec2_list_single, jexec2_call.
        destruct (eval_list sg args) as [[vs|]|[?| |]]; try contradiction; cbn [Res2]; auto.
        2: { rewrite SA. reflexivity. }
        destruct SA as [FV [sj1 [JL F]]]. rewrite JL.
        destruct fuel as [|fl]. exact Logic.I.
        rewrite Ff. rewrite (find_compile _ _ _ Ff).
        destruct (bind_params (map fst (f_params fd)) vs []) as [s0|] eqn:B; [|exact Logic.I].
        destruct (IHcall fl eq_refl f fd vs s0 Ff FV B) as [sj0 [BJ CR]]. rewrite BJ.
        assert (HD : has_dst (if has_dst dst then Some n else None) = has_dst dst) by (destruct dst; reflexivity).
        rewrite HD.
        eapply (after_call_sim rt (f_ret fd)); [exact CR | |].
        - intros Hd a t Et Va. destruct dst as [d|]; [|discriminate]. cbn [has_dst]. eapply H1; eauto.
        - intros Hd. eapply H2; eauto. }
      destruct dst as [[v [t|]]|]; cbn [has_dst dst_name] in *.
      - (* v := f(args) *)
        destruct (f_ret fd) as [t'|] eqn:Rf; [|discriminate]. destruct (ty_eqb t t') eqn:Et; [|discriminate].
        apply ty_eqb_eq in Et. subst t'. inversion Hwf; subst; clear Hwf.
        destruct (declare st1 v) as [n st2] eqn:D. inversion Hc; subst; clear Hc.
        apply (Main n ((v, t) :: g) st'); auto.
        + intros sj1 F _ a t0 E0 Va. inversion E0; subst.
          eapply Inv_declare; eauto.
          * rewrite R1. apply Hfr. left. reflexivity.
          * apply (Inv_next g sg st st1 sj sj1); auto.
        + intros; discriminate.
      - (* v = f(args) *)
        destruct (f_ret fd) as [t'|] eqn:Rf; [|discriminate]. destruct (env_get g v) as [t''|] eqn:Gv; [|discriminate].
        destruct (ty_eqb t' t'') eqn:Et; [|discriminate]. apply ty_eqb_eq in Et. subst t''.
        inversion Hwf; subst; clear Hwf. inversion Hc; subst; clear Hc.
        apply (Main (js_name st' v) g' st'); auto.
        + intros sj1 F _ a t0 E0 Va. inversion E0; subst.
          eapply Inv_assign; eauto. apply (Inv_next g' sg st st' sj sj1); auto.
        + intros; discriminate.
      - (* f(args) *)
        inversion Hwf; subst; clear Hwf. inversion Hc; subst; clear Hc.
        apply (Main (""%string, 0%N) g' st'); auto.
        + intros; discriminate.
        + intros sj1 F _. apply (Inv_next g' sg st st' sj sj1); auto.
    Qed.

    Lemma dyn2_for : forall init c post body, (forall f', (f' <= fuel)%nat -> Dyn2 f' body) ->
      Dyn2 fuel (TFor init c post body).
    Proof.
      intros init c post body Db rt st js st' g g' sg sj Hc Hwf Hfr Hnd Hr HI.
      cbn [cstmt2] in Hc.
      destruct (csimple st init) as [ji st0] eqn:C0. destruct (cexpr st0 c) as [jc st1] eqn:C1.
      destruct (cstmt2 st1 body) as [jb st2] eqn:C2. destruct (cpost st2 post) as [jp st3] eqn:C3.
      inversion Hc; subst; clear Hc.
      cbn [wf_stmt2 defs2] in *.
      destruct (wf_simple g init true) as [g1|] eqn:Wi; [|discriminate].
      destruct (opt_ty_is (wf_expr g1 c) TB && negb (is_boollit c) && negb (ends_ret body)) eqn:Wc; [|discriminate].
      destruct (wf_simple g1 post false) as [gp|] eqn:Wp; [|discriminate].
      destruct (wf_stmt2 fe rt g1 body) as [gb|] eqn:Wb; [|discriminate]. inversion Hwf; subst; clear Hwf.
      apply andb_true_iff in Wc as [Wc _]. apply andb_true_iff in Wc as [Wc _]. apply opt_ty_is_spec in Wc.
      pose proof (wf_simple_nodefine _ _ _ Wp) as ->.
      destruct (fresh_app _ _ _ Hfr) as [Fi Fb]. destruct (NoDup_app_inv _ _ Hnd) as [Ni [Nb _]].
      pose proof (Static_csimple _ _ _ _ C0) as Si.
      destruct (Static_ext _ _ _ Si Fi Ni Hr) as [Ei Ri].
      destruct (cexpr_mono _ _ _ _ C1) as [L01 R01].
      assert (Hr1 : rho_ok st1) by (apply (rho_ok_mono st0); auto).
      assert (Fb1 : fresh st1 (defs2 body)).
      { unfold fresh. rewrite R01. eapply fresh_next; eauto. }
      pose proof (cstmt2_static _ _ _ _ C2) as Sb.
      destruct (Static_ext _ _ _ Sb Fb1 Nb Hr1) as [Eb Rb].
      pose proof (Static_cpost _ _ _ _ C3) as Sp.
      destruct (Static_ext _ _ _ Sp (fresh_nil st2) (NoDup_nil _) Rb) as [E23 R3].
      pose proof (wf_simple_incl _ _ _ _ Wi) as Ig. pose proof (wf_stmt2_incl _ _ _ _ _ Wb) as Igb.
      rewrite exec2_for. unfold jfe. rewrite jexec2_list_app, jexec2_list_base.
      pose proof (csimple_sim g' g1 true sg sj st init ji st0 fuel Wi C0 Hr Fi HI) as SI.
      destruct (exec_simple init sg) as [[| |] sg1 o1|o1| |]; try contradiction; cbn [Res2].
      2: { destruct SI as [-> J]. rewrite J. reflexivity. }
      destruct SI as [-> [sj1 [J HI1]]]. rewrite J. cbn [of_sres]. rewrite !prepend2_nil, jexec2_list_single.
      eapply Res2_mono; [exact Ig | apply rho_ext_refl |].
      apply (loop2_sim rt g1 gb (rho st0) (rho st2) (rho st') c jc post jp body jb fuel); auto.
      - eapply cond_sim; eauto.
      - intros f' Hf' sg0 sj0 HI0. apply (Db f' Hf' rt st1 jb st2 g1 gb sg0 sj0); auto. rewrite R01. exact HI0.
      - intros f' sg0 sj0 HI0. apply (cpost_sim g1 sg0 sj0 st2 post jp st' f'); auto.
      - rewrite R01 in Eb. eapply rho_ext_trans; eauto.
      - intros sg0 sj0 H0. eapply Inv_back; [| exact HI1 | exact H0]. rewrite R01 in Eb. eapply rho_ext_trans; eauto.
    Qed.
  End Step2.

  Theorem dyn2_all : forall fuel s, Dyn2 fuel s.
  Proof.
    induction fuel as [fuel IHfuel] using lt_wf_ind.
    assert (IHc : forall fl, fuel = S fl -> FnSim fl).
    { intros fl E. apply fn_sim. intros s. apply IHfuel. lia. }
    induction s as [ | b | a IHa b IHb | dst f args | c t IHt e IHe | init c post body IHbody | oe ].
    - apply dyn2_skip.
    - apply dyn2_base.
    - apply dyn2_seq; assumption.
    - apply dyn2_call. exact IHc.
    - apply dyn2_if; assumption.
    - apply dyn2_for. intros f' Hf'. destruct (Nat.eq_dec f' fuel) as [->|Hne]. exact IHbody. apply IHfuel. lia.
    - apply dyn2_return.
  Qed.
End Sim2.

Theorem compile_correct_stage2_all : forall p, wf_prog2 p = true ->
  forall fuel out e, run_go2 fuel p = Done out e -> run_js2 fuel (compile2 p) = Done out e.
Proof.
  intros p Hwf fuel out e Hgo. unfold wf_prog2 in Hwf. apply andb_true_iff in Hwf as [Hall Hmain].
  assert (fe_wf : forall f fd, find_fn (p_funcs p) f = Some fd -> wf_fn (p_funcs p) fd = true).
  { intros f fd H. destruct (find_fn_In _ _ _ _ H) as [g I]. rewrite forallb_forall in Hall. apply (Hall _ I). }
  unfold run_go2 in Hgo. unfold run_js2, compile2. cbn [jp2_funcs jp2_main].
  destruct (find_fn (p_funcs p) (p_main p)) as [fd|] eqn:F; [|discriminate].
  rewrite (find_compile _ _ _ F).
  destruct (f_params fd) as [|x xs] eqn:P; [|discriminate]. destruct (f_ret fd) as [t|] eqn:R; [discriminate|].
  pose proof (fn_sim (p_funcs p) fe_wf fuel (dyn2_all (p_funcs p) fe_wf fuel) (p_main p) fd [] [] F) as S.
  rewrite P in S. cbn [map bind_params] in S. specialize (S (Forall2_nil _) eq_refl).
  destruct S as [sj0 [B CR]].
  assert (JP : jf_params (compile_fn fd) = []).
  { unfold compile_fn. rewrite P. cbn [map cparams]. destruct (cstmt2 cstate0 (f_body fd)). reflexivity. }
  rewrite JP in B. cbn [map bind_params] in B. inversion B; subst sj0.
  destruct (finish_call (exec2 (p_funcs p) fuel (f_body fd) [])) as [v o|o| |]; cbn [outcome_of_cres CRes] in *; try discriminate.
  - destruct CR as [_ ->]. exact Hgo.
  - rewrite CR. exact Hgo.
Qed.
