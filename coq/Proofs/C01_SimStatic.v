(* C01 — simulation proof, part 5: static facts about the allocator along statements *)
From Coq Require Import ZArith List String Bool Lia.
From Verif Require Import Model.C01_GoSem Model.C01_JsSem Model.C01_Compile Model.C01_Wf
  Proofs.C01_Arith Proofs.C01_SimBase Proofs.C01_SimExpr.
Import ListNotations.
Local Open Scope Z_scope.

Definition fresh (st : cstate) (ds : list name) : Prop := forall v, In v ds -> lookup (rho st) v = None.

Definition Static (st : cstate) (ds : list name) (st' : cstate) : Prop :=
  st_le st st' /\
  (forall v n, lookup (rho st') v = Some n -> lookup (rho st) v = Some n \/ In v ds) /\
  (fresh st ds -> NoDup ds -> rho_ok st -> rho_ext (rho st) (rho st') /\ rho_ok st').

Lemma NoDup_app_inv : forall (l1 l2 : list name), NoDup (l1 ++ l2) ->
  NoDup l1 /\ NoDup l2 /\ forall a, In a l1 -> ~ In a l2.
Proof.
  induction l1 as [|x l1 IH]; cbn; intros l2 H.
  - repeat split; auto. constructor.
  - inversion H; subst. destruct (IH _ H3) as [A [B C]]. repeat split; auto.
    + constructor; auto. intro; apply H2; apply in_or_app; auto.
    + intros a [->|Ha]; auto. intro; apply H2; apply in_or_app; auto.
Qed.

Lemma Static_same : forall st st', st_le st st' -> rho st' = rho st -> Static st [] st'.
Proof.
  intros st st' L R. unfold Static. split; [exact L | split].
  - intros v n H. left. rewrite <- R. exact H.
  - intros _ _ Hr. split. rewrite R. apply rho_ext_refl. apply (rho_ok_mono st); auto.
Qed.

Lemma Static_refl : forall st, Static st [] st.
Proof. intros. apply Static_same; auto using st_le_refl. Qed.

Lemma Static_refl_any : forall st ds, Static st ds st.
Proof.
  intros. unfold Static. split; [apply st_le_refl | split]; auto.
  intros _ _ Hr. split; auto using rho_ext_refl.
Qed.

Lemma Static_trans : forall st d1 st1 d2 st2, Static st d1 st1 -> Static st1 d2 st2 -> Static st (d1 ++ d2) st2.
Proof.
  intros st d1 st1 d2 st2 [A1 [A2 A3]] [B1 [B2 B3]]. unfold Static. split; [|split].
  - eapply st_le_trans; eauto.
  - intros v n H. destruct (B2 _ _ H) as [H1|H1].
    + destruct (A2 _ _ H1); auto. right; apply in_or_app; auto.
    + right; apply in_or_app; auto.
  - intros F N Hr. destruct (NoDup_app_inv _ _ N) as [N1 [N2 N3]].
    destruct A3 as [E1 O1]; auto. intros v Hv; apply F; apply in_or_app; auto.
    destruct B3 as [E2 O2]; auto.
    + intros v Hv. destruct (lookup (rho st1) v) as [n|] eqn:L; auto.
      destruct (A2 _ _ L) as [H|H].
      * rewrite F in H by (apply in_or_app; auto). discriminate.
      * exfalso. eapply N3; eauto.
    + split; auto. eapply rho_ext_trans; eauto.
Qed.

Lemma Static_nil_r : forall st d st1 st2, Static st d st1 -> Static st1 [] st2 -> Static st d st2.
Proof. intros. rewrite <- (app_nil_r d). eapply Static_trans; eauto. Qed.
Lemma Static_nil_l : forall st d st1 st2, Static st [] st1 -> Static st1 d st2 -> Static st d st2.
Proof. intros. change d with ([] ++ d). eapply Static_trans; eauto. Qed.

Lemma lookup_cons_other : forall r v n u, u <> v -> lookup ((v, n) :: r) u = lookup r u.
Proof. intros. cbn [lookup]. rewrite name_eqb_neq; auto. Qed.
Lemma lookup_cons_same : forall r v n, lookup ((v, n) :: r) v = Some n.
Proof. intros. cbn [lookup]. now rewrite name_eqb_refl. Qed.

Lemma declare_spec : forall st v n st', declare st v = (n, st') ->
  ~ below st n /\ below st' n /\ st_le st st' /\ rho st' = (v, n) :: rho st.
Proof.
  intros st v n st' H. unfold declare in H. destruct (alloc st (fst v)) as [m st1] eqn:A.
  apply alloc_spec in A. destruct A as [A1 [A2 [A3 A4]]]. inversion H; subst; clear H.
  unfold below, st_le in *. cbn [cnt rho]. rewrite A4. auto.
Qed.

Lemma Static_declare : forall st v n st', declare st v = (n, st') -> Static st [v] st'.
Proof.
  intros st v n st' H. destruct (declare_spec _ _ _ _ H) as [D1 [D2 [D3 D4]]].
  unfold Static, rho_ok, rho_ext. rewrite D4. split; [|split]; auto.
  - intros u m L. destruct (name_eqb v u) eqn:E.
    + apply name_eqb_eq in E. subst. right. left. reflexivity.
    + left. cbn [lookup] in L. rewrite E in L. exact L.
  - intros F N [R1 R2]. assert (Fv : lookup (rho st) v = None) by (apply F; left; reflexivity).
    split.
    + intros u m L. rewrite lookup_cons_other; auto. intro; subst. congruence.
    + split.
      * intros u m L. destruct (name_eqb v u) eqn:E.
        -- apply name_eqb_eq in E. subst. rewrite lookup_cons_same in L. inversion L; subst. exact D2.
        -- cbn [lookup] in L. rewrite E in L. apply D3. eauto.
      * intros v1 v2 m L1 L2.
        destruct (name_eqb v v1) eqn:E1; destruct (name_eqb v v2) eqn:E2;
          cbn [lookup] in L1, L2; rewrite ?E1, ?E2 in *.
        -- apply name_eqb_eq in E1, E2. congruence.
        -- inversion L1; subst. exfalso. apply D1. eauto.
        -- inversion L2; subst. exfalso. apply D1. eauto.
        -- eauto.
Qed.

Lemma Static_cexpr : forall st e je st', cexpr st e = (je, st') -> Static st [] st'.
Proof. intros. destruct (cexpr_mono _ _ _ _ H). apply Static_same; auto. Qed.

Lemma cexprs_mono : forall es st js st', cexprs st es = (js, st') -> st_le st st' /\ rho st' = rho st.
Proof.
  induction es as [|e es IH]; cbn [cexprs]; intros st js st' H.
  - inversion H; subst. split; auto using st_le_refl.
  - destruct (cexpr st e) as [je st1] eqn:C. destruct (cexprs st1 es) as [jr st2] eqn:Cs. inversion H; subst.
    destruct (cexpr_mono _ _ _ _ C) as [X1 X2]. destruct (IH _ _ _ Cs) as [X3 X4].
    split; [apply (st_le_trans _ st1); assumption | congruence].
Qed.

Lemma Static_cassign : forall st v e d js st', cassign st v e d = (js, st') ->
  Static st (if d then [v] else []) st'.
Proof.
  intros st v e d js st' H. unfold cassign in H. destruct (cexpr st e) as [je st1] eqn:C.
  pose proof (Static_cexpr _ _ _ _ C) as S1. destruct d.
  - destruct (declare st1 v) as [n st2] eqn:D. inversion H; subst.
    eapply Static_nil_l; eauto. eapply Static_declare; eauto.
  - inversion H; subst. exact S1.
Qed.

Lemma Static_csimple : forall st s js st', csimple st s = (js, st') -> Static st (defs s) st'.
Proof.
  intros st s js st' H. destruct s; cbn [csimple defs] in *;
    try (inversion H; subst; apply Static_refl_any);
    try (apply Static_cassign in H; exact H).
Qed.

Lemma Static_cpost : forall st s js st', cpost st s = (js, st') -> Static st [] st'.
Proof.
  intros st s js st' H. destruct s; cbn [cpost csimple] in *;
    try (inversion H; subst; apply Static_refl);
    try (apply Static_cassign in H; exact H).
Qed.

Lemma chain_conds_mono : forall e st cs st', chain_conds st e = (cs, st') -> st_le st st' /\ rho st' = rho st.
Proof.
  induction e; intros st cs st' H; cbn [chain_conds] in H; try solve [inversion H; subst; split; auto using st_le_refl].
  destruct (cexpr st c) as [jc st1] eqn:C. destruct (chain_conds st1 e2) as [r st2] eqn:Cs. inversion H; subst.
  destruct (cexpr_mono _ _ _ _ C) as [X1 X2]. destruct (IHe2 _ _ _ Cs) as [X3 X4].
  split; [apply (st_le_trans _ st1); assumption | congruence].
Qed.

(* the else position *)
Definition else_part (cx : ctx) (st2 : cstate) (e : stmt) (cs : list jexpr) : jelse * cstate :=
  match e with
  | SNoElse => (JNoElse, st2)
  | SIf _ _ _ => celif cx st2 e cs
  | _ => let '(jb, st') := cstmt cx st2 e in (JElse jb, st')
  end.

Lemma cstmt_static : forall s,
  (forall cx st js st', cstmt cx st s = (js, st') -> Static st (defs s) st') /\
  (forall cx st cs je st', else_part cx st s cs = (je, st') -> Static st (defs s) st').
Proof.
  induction s as [ | a IHa b IHb | v t e | v e | v k op e | v k inc | c t IHt e IHe | | l init IHinit oc post IHpost body IHbody | l | l | es ].
  all: match goal with |- ?P /\ ?Q => assert (HP : P); [| split; [exact HP|]] end.
  all: try (intros cx st js st' H; cbn [cstmt defs] in H; inversion H; subst; apply Static_refl).
  all: try (intros cx st js st' H; cbn [cstmt] in H; apply Static_csimple in H; exact H).
  all: try (intros cx st cs je st' H; cbn [else_part] in H;
            destruct (cstmt cx st _) as [jb st2] eqn:C; inversion H; subst; eapply HP; eauto).
  - (* SSeq *) intros cx st js st' H. cbn [cstmt defs] in H.
    destruct (cstmt cx st a) as [ja st1] eqn:C1. destruct (cstmt cx st1 b) as [jb st2] eqn:C2. inversion H; subst.
    destruct IHa as [P1 _]. destruct IHb as [P2 _]. eapply Static_trans; eauto.
  - (* SIf *) intros cx st js st' H. cbn [cstmt] in H. fold (else_part cx) in H.
    destruct (cexpr st c) as [jc st0] eqn:C0. destruct (chain_conds st0 e) as [cs st1] eqn:C1.
    destruct (cstmt cx st1 t) as [jt st2] eqn:C2.
    change (match e with | SNoElse => (JNoElse, st2) | SIf _ _ _ => celif cx st2 e cs
                      | _ => let '(jb, st'0) := cstmt cx st2 e in (JElse jb, st'0) end)
      with (else_part cx st2 e cs) in H.
    destruct (else_part cx st2 e cs) as [je st3] eqn:C3. inversion H; subst.
    destruct IHt as [P1 _]. destruct IHe as [_ Q2]. cbn [defs].
    destruct (chain_conds_mono _ _ _ _ C1).
    eapply Static_nil_l. eapply Static_cexpr; eauto.
    eapply Static_nil_l. apply Static_same; eauto.
    eapply Static_trans; eauto.
  - (* SIf in else position *) intros cx st cs je st' H. cbn [else_part celif] in H.
    destruct cs as [|jc cs']. inversion H; subst. 
    { (* impossible shape, still static *) apply Static_refl_any. }
    destruct (cstmt cx st t) as [jt st2] eqn:C2.
    change (match e with | SNoElse => (JNoElse, st2) | SIf _ _ _ => celif cx st2 e cs'
                      | _ => let '(jb, st'0) := cstmt cx st2 e in (JElse jb, st'0) end)
      with (else_part cx st2 e cs') in H.
    destruct (else_part cx st2 e cs') as [je' st3] eqn:C3. inversion H; subst.
    destruct IHt as [P1 _]. destruct IHe as [_ Q2]. cbn [defs]. eapply Static_trans; eauto.
  - (* SNoElse in else position *) intros cx st cs je st' H. cbn [else_part] in H. inversion H; subst. apply Static_refl.
  - (* SFor *) intros cx st js st' H. cbn [cstmt defs] in H.
    destruct (csimple st init) as [ji st0] eqn:C0.
    destruct (match oc with None => ([], st0) | Some ce => let '(je, st'0) := cexpr st0 ce in
                ([JSIf (JUn JNot je) [JSBreak None] JNoElse], st'0) end) as [jc st1] eqn:C1.
    destruct (cstmt ((l, post) :: cx) st1 body) as [jb st2] eqn:C2.
    destruct (if is_branch (last_stmt body) then ([], st2) else cpost st2 post) as [jp st3] eqn:C3.
    inversion H; subst.
    assert (S1 : Static st0 [] st1).
    { destruct oc as [ce0|]. destruct (cexpr st0 ce0) eqn:Ce. inversion C1; subst. eapply Static_cexpr; eauto.
      inversion C1; subst. apply Static_refl. }
    assert (S3 : Static st2 [] st').
    { destruct (is_branch (last_stmt body)). inversion C3; subst. apply Static_refl. eapply Static_cpost; eauto. }
    destruct IHbody as [P3 _].
    eapply Static_trans. eapply Static_csimple; eauto.
    eapply Static_nil_l. exact S1. eapply Static_nil_r. eapply P3; eauto. exact S3.
  - (* SContinue *) intros cx st js st' H. cbn [cstmt defs] in H.
    destruct (cpost st (find_post cx l)) as [jp st1] eqn:C. inversion H; subst. eapply Static_cpost; eauto.
  - (* SPrint *) intros cx st js st' H. cbn [cstmt defs] in H.
    destruct (cexprs st es) as [jl st1] eqn:C. inversion H; subst. destruct (cexprs_mono _ _ _ _ C).
    apply Static_same; auto.
Qed.
