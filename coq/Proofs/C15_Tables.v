(* C15 — the model's per-kind branches are the ones found in the source on this run:
   coq/Gen/C15_Tables.v is regenerated from compiler/prelude/types.js + numeric.js by
   harness/py/props/c15.py (prepare).  If $newType gives some kind another keyFor, or the escape
   characters / separator / $floatKey / $idKey change shape, this stops checking. *)
From Coq Require Import List String Bool.
From Verif Require Import Gen.C15_Tables.
Import ListNotations.
Local Open Scope string_scope.

Definition expected_keyfor_class : list (string * string) :=
  [("Bool", "identity"); ("Int", "identity"); ("Int8", "identity"); ("Int16", "identity"); ("Int32", "identity");
   ("Uint", "identity"); ("Uint8", "identity"); ("Uint16", "identity"); ("Uint32", "identity"); ("Uintptr", "identity");
   ("UnsafePointer", "identity");                      (* model: TBool / TInt, key = the JS value itself *)
   ("String", "string");                               (* TString: "$" + x *)
   ("Float32", "float"); ("Float64", "float");         (* TFloat: $floatKey *)
   ("Int64", "halves"); ("Uint64", "halves");          (* T64 *)
   ("Complex64", "complex"); ("Complex128", "complex");(* TComplex *)
   ("Array", "array");                                 (* TArray: String(elem.keyFor(e)) escaped, joined with "$" *)
   ("Chan", "idkey");                                  (* TRef *)
   ("Func", "none");                                   (* TNoKey *)
   ("Interface", "iface");                             (* TIface *)
   ("Map", "none"); ("Ptr", "idkey"); ("Slice", "none");
   ("Struct", "struct")].                              (* TStruct *)

Definition expected_native : list string :=
  ["Int"; "Int8"; "Int16"; "Int32"; "Uint"; "Uint8"; "Uint16"; "Uint32"; "Uintptr"; "Float32"; "Float64"].

Lemma tables_tied :
  c15_keyfor_class = expected_keyfor_class /\ c15_native_array_kinds = expected_native /\
  c15_floatkey_as_modelled = true /\ c15_idkey_as_modelled = true /\ c15_ifacekey_as_modelled = true.
Proof. repeat split; reflexivity. Qed.
