(* C03 phase 4 — the deadlock report, full statement: counting invariant (Proofs/C03_P4_Count.v) + exact queue entries and
   run queue (Proofs/C03_P4_Entries.v) + no lost wake-up (Proofs/C03_Chan.v). *)
From Coq Require Import List NArith ZArith Bool Arith Lia.
From Verif Require Import Model.C03_Chan Proofs.C03_Chan Proofs.C03_P4_Entries Proofs.C03_P4_Count.
Import ListNotations.

Lemma running_awake_reachable fx prog : fix_select_send fx = true ->
  forall s, reachable fx prog s -> running_awake s.
Proof.
  intros F s R H g M. destruct (entries_invariant fx prog s F R) as (_ & RO).
  destruct RO as (_ & _ & _ & K & _). destruct (K H g M) as (_ & A & _). exact A.
Qed.

(* $awakeGoroutines = number of goroutines not asleep + pending Gosched timers, in every reachable state *)
Theorem counting_invariant_repaired : forall prog st, reachable repaired prog st -> count_inv st.
Proof.
  intros prog st R. exact (counting_invariant repaired prog st repaired_fix (running_awake_reachable repaired prog repaired_fix) R).
Qed.

Theorem deadlock_report_iff : forall prog st, reachable repaired prog st ->
  (halted st = Some ODeadlock <->
   ((main_finished st = false) /\ (scheduled st = []) /\ (forall g, ~ In (TWake g) (timers st)) /\
    (forall g, (g < length (gors st))%nat -> g_asleep (get_g st g) = true) /\ no_lost_wakeup_at st /\ (md st = MIdle))).
Proof.
  intros prog st R. pose proof (running_awake_reachable repaired prog repaired_fix) as RA. split.
  - intros Hd. destruct (deadlock_report_only_if repaired prog st repaired_fix RA R Hd) as (Mf & Tw & As & Md).
    repeat split; auto.
    + destruct (scheduled st) as [|g q] eqn:E; auto.
      destruct (scheduled_awake repaired prog st repaired_fix R g) as (L & Aw). { rewrite E. now left. }
      rewrite (As g L) in Aw. discriminate.
    + now apply no_lost_wakeup_repaired with (prog := prog).
  - intros (Mf & _ & Tw & As & _ & Md). exact (deadlock_report_if repaired prog st repaired_fix RA R Mf Tw As Md).
Qed.
