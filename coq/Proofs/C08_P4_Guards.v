(* C08 phase 4, part A — guard_fires_iff_spec for the value-shape guards of Model/C08_Guards2.v *)
From Coq Require Import List ZArith Bool Arith Lia.
From Verif Require Import Model.C08_Guards Model.C08_Guards2.
Import ListNotations.
Local Open Scope Z_scope.

Lemma map_store_guard_iff : forall m k v, impl_map_store m k v = spec_map_store m k v.
Proof. intros [|kv] k v; reflexivity. Qed.
Lemma map_store_throws_iff : forall m k v, impl_map_store m k v = GThrow <-> m = JMNil.
Proof. intros [|kv] k v; cbn; split; intro H; try reflexivity; discriminate H. Qed.
Lemma map_read_guard_iff : forall m k, impl_map_read m k = spec_map_read m k.
Proof. intros [|kv] k; reflexivity. Qed.
Lemma map_read_never_throws : forall m k, impl_map_read m k <> GThrow.
Proof. intros m k. unfold impl_map_read. destruct (impl_mapindex m k); discriminate. Qed.
(* what a store does to later reads (the stored entry is found, other keys are untouched) *)
Lemma kv_get_set_same : forall kv k v, kv_get (kv_set kv k v) k = Some v.
Proof.
  induction kv as [|[k' v'] r IH]; intros k v; cbn.
  - now rewrite Z.eqb_refl.
  - destruct (k' =? k) eqn:E; cbn; [now rewrite Z.eqb_refl | rewrite E; apply IH].
Qed.
Lemma kv_get_set_other : forall kv k v j, j <> k -> kv_get (kv_set kv k v) j = kv_get kv j.
Proof.
  induction kv as [|[k' v'] r IH]; intros k v j Hne; cbn.
  - destruct (Z.eqb_spec k j); [congruence|reflexivity].
  - destruct (Z.eqb_spec k' k) as [->|]; cbn.
    + destruct (Z.eqb_spec k j); [congruence|reflexivity].
    + destruct (k' =? j); [reflexivity|apply IH; exact Hne].
Qed.

Lemma ptr_get_guard_iff : forall p i, (i < ptr_nfields p)%nat -> impl_ptr_get p i = spec_ptr_get p i.
Proof.
  intros [n|fs] i H; unfold impl_ptr_get, spec_ptr_get, ptr_nfields in *; [|reflexivity].
  destruct (Nat.ltb_spec i n); [reflexivity|lia].
Qed.
Lemma ptr_get_throws_iff : forall p i, (i < ptr_nfields p)%nat -> (impl_ptr_get p i = GThrow <-> exists n, p = JPNil n).
Proof.
  intros [n|fs] i H; unfold impl_ptr_get, ptr_nfields in *.
  - destruct (Nat.ltb_spec i n); [|lia]. split; [eauto|reflexivity].
  - split; [|intros [n E]; discriminate E].
    destruct (nth_error fs i) eqn:E; [discriminate|]. apply nth_error_None in E. lia.
Qed.
Lemma ptr_set_guard_iff : forall p i v, (i < ptr_nfields p)%nat -> impl_ptr_set p i v = spec_ptr_set p i v.
Proof.
  intros [n|fs] i v H; unfold impl_ptr_set, spec_ptr_set, ptr_nfields in *; [|reflexivity].
  destruct (Nat.ltb_spec i n); [reflexivity|lia].
Qed.
Lemma ptr_set_throws_iff : forall p i v, (i < ptr_nfields p)%nat -> (impl_ptr_set p i v = GThrow <-> exists n, p = JPNil n).
Proof.
  intros [n|fs] i v H; unfold impl_ptr_set, ptr_nfields in *.
  - destruct (Nat.ltb_spec i n); [|lia]. split; [eauto|reflexivity].
  - split; [discriminate|intros [n E]; discriminate E].
Qed.

(* the Go specification's condition for x.(T) to hold *)
Definition assert_holds (v : jiface) (t : jtarget) : Prop :=
  exists tid ms pl, v = JIVal tid ms pl /\
    ((t = TConcrete tid) \/ (exists im, t = TIface im /\ forall m, In m im -> In m ms)).

Lemma zmem_In : forall x l, zmem x l = true <-> In x l.
Proof.
  unfold zmem; intros x l. rewrite existsb_exists. split.
  - intros [y [Hy E]]. apply Z.eqb_eq in E. now subst.
  - intro H. exists x. split; [exact H|apply Z.eqb_refl].
Qed.
Lemma assert_ok_iff : forall v t, assert_ok v t = true <-> assert_holds v t.
Proof.
  intros [|tid ms pl] t; cbn.
  - split; [discriminate|]. intros (a & b & c & E & _). discriminate E.
  - destruct t as [t'|im].
    + rewrite Z.eqb_eq. split.
      * intros ->. exists t', ms, pl. split; [reflexivity|now left].
      * intros (a & b & c & E & [F|(im & F & _)]); [|discriminate F]. inversion E; inversion F; subst. reflexivity.
    + rewrite forallb_forall. split.
      * intro H. exists tid, ms, pl. split; [reflexivity|]. right. exists im. split; [reflexivity|].
        intros m Hm. apply zmem_In. apply H. exact Hm.
      * intros (a & b & c & E & [F|(im' & F & G)]); [discriminate F|]. inversion E; inversion F; subst.
        intros m Hm. apply zmem_In. apply G. exact Hm.
Qed.
(* x.(T): panics exactly when the assertion does not hold *)
Lemma assert_throws_iff : forall v t, impl_assert v t false = GThrow <-> ~ assert_holds v t.
Proof.
  intros v t. rewrite <- assert_ok_iff. unfold impl_assert.
  destruct (assert_ok v t) eqn:E.
  - destruct v as [|tid ms pl]; [cbn in E; discriminate E|]. cbn. split; [discriminate|]. intro H. exfalso. apply H. reflexivity.
  - cbn. split; [intros _ H; discriminate H|reflexivity].
Qed.
(* v, ok := x.(T): never panics; ok is true exactly when the assertion holds and then v is the dynamic value,
   otherwise v is the zero value *)
Lemma assert_commaok_iff : forall v t,
  impl_assert v t true <> GThrow /\
  ((exists pl, impl_assert v t true = GOk [pl; 1]) <-> assert_holds v t) /\
  (~ assert_holds v t -> impl_assert v t true = GOk [0; 0]) /\
  (forall tid ms pl, v = JIVal tid ms pl -> assert_holds v t -> impl_assert v t true = GOk [pl; 1] /\ impl_assert v t false = GOk [pl]).
Proof.
  intros v t. rewrite <- assert_ok_iff. unfold impl_assert.
  destruct (assert_ok v t) eqn:E.
  - destruct v as [|tid ms pl]; [cbn in E; discriminate E|]. cbn.
    split; [discriminate|]. split; [split; [reflexivity|eauto]|]. split; [intro H; exfalso; apply H; reflexivity|].
    intros a b c Ev _. inversion Ev; subst. split; reflexivity.
  - cbn. split; [discriminate|]. split; [split; [intros [pl H]; discriminate H|discriminate]|]. split; [reflexivity|].
    intros a b c Ev H; try discriminate H; try (apply assert_ok_iff in H; congruence).
Qed.

Lemma map_read_both : forall m k, impl_map_read m k = spec_map_read m k /\ impl_map_read m k <> GThrow.
Proof. intros m k. split; [apply map_read_guard_iff | apply map_read_never_throws]. Qed.
Lemma ptr_get_both : forall p i, (i < ptr_nfields p)%nat ->
  impl_ptr_get p i = spec_ptr_get p i /\ (impl_ptr_get p i = GThrow <-> exists n, p = JPNil n).
Proof. intros p i H. split; [apply ptr_get_guard_iff | apply ptr_get_throws_iff]; exact H. Qed.
Lemma ptr_set_both : forall p i v, (i < ptr_nfields p)%nat ->
  impl_ptr_set p i v = spec_ptr_set p i v /\ (impl_ptr_set p i v = GThrow <-> exists n, p = JPNil n).
Proof. intros p i v H. split; [apply ptr_set_guard_iff | apply ptr_set_throws_iff]; exact H. Qed.

Example guards2_nonvacuous :
  impl_map_store JMNil 1 2 = GThrow /\ impl_map_store (JMMap [(1, 5)]) 1 2 = GOk [1; 2] /\
  impl_map_read JMNil 3 = GOk [0; 0] /\ impl_ptr_get (JPNil 2) 1 = GThrow /\ impl_ptr_get (JPObj [7; 8]) 1 = GOk [8] /\
  impl_assert (JIVal 3 [10; 11] 42) (TIface [11]) false = GOk [42] /\ impl_assert (JIVal 3 [10] 42) (TIface [11]) false = GThrow /\
  impl_assert JINil (TIface []) true = GOk [0; 0].
Proof. vm_compute. repeat split; reflexivity. Qed.
