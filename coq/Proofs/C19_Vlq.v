(* C19 — lemmas about the source-map "mappings" codec model (Model/C19_Vlq.v). *)
From Coq Require Import List ZArith NArith Bool Lia Arith ZifyBool ZifyNat.
From Verif Require Import Model.C19_Vlq.
Import ListNotations.
Local Open Scope Z_scope.

(* ---- finite sweeps lifted to intervals ---------------------------------------------------- *)
Lemma sweep (n : nat) (P : Z -> bool) :
  forallb P (map Z.of_nat (seq 0 n)) = true -> forall d, 0 <= d < Z.of_nat n -> P d = true.
Proof.
  intros H d Hd. rewrite forallb_forall in H. apply H.
  replace d with (Z.of_nat (Z.to_nat d)) by lia. apply in_map. apply in_seq. lia.
Qed.

Lemma b64_roundtrip d : 0 <= d < 64 -> b64dec (b64enc d) = Some d.
Proof.
  intros H.
  assert (E : (match b64dec (b64enc d) with Some x => x =? d | None => false end) = true).
  { apply (sweep 64 (fun d => match b64dec (b64enc d) with Some x => x =? d | None => false end)); [vm_compute; reflexivity|lia]. }
  destruct (b64dec (b64enc d)); [|discriminate]. f_equal. lia.
Qed.

Lemma b64enc_not_sep d : 0 <= d < 64 -> N.eqb (b64enc d) COMMA = false /\ N.eqb (b64enc d) SEMI = false.
Proof.
  intros H.
  assert (E : negb (N.eqb (b64enc d) COMMA) && negb (N.eqb (b64enc d) SEMI) = true).
  { apply (sweep 64 (fun d => negb (N.eqb (b64enc d) COMMA) && negb (N.eqb (b64enc d) SEMI))); [vm_compute; reflexivity|lia]. }
  apply andb_prop in E. destruct E as [A B]. split; apply negb_true_iff; assumption.
Qed.

Lemma digit_bits o : 0 <= o < 64 ->
  Z.ldiff o 32 = o mod 32 /\ (Z.land o 32 =? 0) = (o <? 32).
Proof.
  intros H.
  assert (E : (Z.ldiff o 32 =? o mod 32) && Bool.eqb (Z.land o 32 =? 0) (o <? 32) = true).
  { apply (sweep 64 (fun o => (Z.ldiff o 32 =? o mod 32) && Bool.eqb (Z.land o 32 =? 0) (o <? 32))); [vm_compute; reflexivity|lia]. }
  apply andb_prop in E. destruct E as [A B]. split; [lia|apply eqb_prop; assumption].
Qed.

Lemma lor32 x : 0 <= x < 32 -> Z.lor 32 x = 32 + x.
Proof.
  intros H.
  assert (E : (Z.lor 32 x =? 32 + x) = true).
  { apply (sweep 32 (fun x => Z.lor 32 x =? 32 + x)); [vm_compute; reflexivity|lia]. }
  lia.
Qed.

Lemma land31 u : Z.land u 31 = u mod 32.
Proof. change 31 with (Z.ones 5). rewrite Z.land_ones by lia. reflexivity. Qed.
Lemma land1 u : Z.land u 1 = u mod 2.
Proof. change 1 with (Z.ones 1) at 1. rewrite Z.land_ones by lia. reflexivity. Qed.
Lemma shr5 u : Z.shiftr u 5 = u / 32.
Proof. rewrite Z.shiftr_div_pow2 by lia. reflexivity. Qed.
Lemma shr1 u : Z.shiftr u 1 = u / 2.
Proof. rewrite Z.shiftr_div_pow2 by lia. reflexivity. Qed.
Lemma shl1 u : Z.shiftl u 1 = 2 * u.
Proof. rewrite Z.shiftl_mul_pow2 by lia. change (2 ^ 1) with 2. lia. Qed.

Lemma lor_even_1 k : Z.lor (2 * k) 1 = 2 * k + 1.
Proof.
  assert (L : Z.land (2 * k) 1 = 0).
  { rewrite land1. rewrite Z.mul_comm. apply Z.mod_mul. lia. }
  rewrite <- Z.lxor_lor by exact L. symmetry. apply Z.add_nocarry_lxor. exact L.
Qed.

(* ---- zigzag ------------------------------------------------------------------------------- *)
Lemma zigzag_spec v : zigzag v = if v <? 0 then - (2 * v) + 1 else 2 * v.
Proof.
  unfold zigzag. rewrite shl1. destruct (2 * v <? 0) eqn:E; destruct (v <? 0) eqn:E2; try lia.
  replace (- (2 * v)) with (2 * (- v)) by lia. apply lor_even_1.
Qed.

Lemma zigzag_nonneg v : 0 <= zigzag v.
Proof. rewrite zigzag_spec. destruct (v <? 0) eqn:E; lia. Qed.

Lemma unzig_zigzag v : unzig (zigzag v) = v.
Proof.
  unfold unzig. rewrite land1, shr1, zigzag_spec.
  destruct (v <? 0) eqn:E.
  - replace ((- (2 * v) + 1) mod 2) with 1.
    2:{ symmetry. replace (- (2 * v) + 1) with (1 + (- v) * 2) by lia. rewrite Z.mod_add by lia. reflexivity. }
    cbn [Z.eqb negb]. replace (- (2 * v) + 1) with (1 + (- v) * 2) by lia.
    rewrite Z.div_add by lia. change (1 / 2) with 0. lia.
  - replace ((2 * v) mod 2) with 0.
    2:{ symmetry. rewrite Z.mul_comm. apply Z.mod_mul. lia. }
    cbn [Z.eqb negb]. rewrite Z.mul_comm. apply Z.div_mul. lia.
Qed.

(* ---- one number --------------------------------------------------------------------------- *)
Lemma read_write_digits : forall fuel u bef v s rest,
  0 <= u < 32 ^ Z.of_nat (S fuel) -> 0 <= s ->
  read_digits bef v s (write_digits fuel u ++ rest) =
  (Some (unzig (v + u * 2 ^ s)), (rev (write_digits fuel u) ++ bef, rest)).
Proof.
  induction fuel as [|f IH]; intros u bef v s rest Hu Hs.
  - change (32 ^ Z.of_nat 1) with 32 in Hu.
    cbn [write_digits app read_digits rev]. rewrite b64_roundtrip by lia.
    destruct (digit_bits u ltac:(lia)) as [A B]. rewrite A, B.
    replace (u <? 32) with true by lia. rewrite Z.mod_small by lia.
    rewrite Z.shiftl_mul_pow2 by lia. reflexivity.
  - cbn [write_digits]. destruct (32 <=? u) eqn:E.
    + cbn [app read_digits rev]. rewrite land31, shr5.
      assert (Hm : 0 <= u mod 32 < 32) by (apply Z.mod_pos_bound; lia).
      rewrite lor32 by lia. rewrite b64_roundtrip by lia.
      destruct (digit_bits (32 + u mod 32) ltac:(lia)) as [A B]. rewrite A, B.
      replace (32 + u mod 32 <? 32) with false by lia.
      replace ((32 + u mod 32) mod 32) with (u mod 32).
      2:{ replace (32 + u mod 32) with (u mod 32 + 1 * 32) by lia. rewrite Z.mod_add by lia. rewrite Z.mod_mod by lia. reflexivity. }
      rewrite IH.
      * rewrite <- app_assoc. cbn [app]. f_equal. f_equal. f_equal. rewrite Z.shiftl_mul_pow2 by lia.
        rewrite Z.pow_add_r by lia. change (2 ^ 5) with 32.
        pose proof (Z.div_mod u 32 ltac:(lia)) as D. nia.
      * split; [apply Z.div_pos; lia|].
        apply Z.div_lt_upper_bound; [lia|].
        replace (Z.of_nat (S (S f))) with (Z.succ (Z.of_nat (S f))) in Hu by lia.
        rewrite Z.pow_succ_r in Hu by lia. lia.
      * lia.
    + cbn [app read_digits rev]. rewrite b64_roundtrip by lia.
      destruct (digit_bits u ltac:(lia)) as [A B]. rewrite A, B.
      replace (u <? 32) with true by lia. rewrite Z.mod_small by lia.
      rewrite Z.shiftl_mul_pow2 by lia. reflexivity.
Qed.

Lemma fuel_enough u : 0 <= u -> u < 32 ^ Z.of_nat (S (S (Z.to_nat (Z.log2 u)))).
Proof.
  intros H. destruct (Z.eq_dec u 0) as [->|N0].
  - change (Z.log2 0) with 0. cbn. lia.
  - assert (L : u < 2 ^ Z.succ (Z.log2 u)) by (apply Z.log2_spec; lia).
    pose proof (Z.log2_nonneg u) as Lg.
    eapply Z.lt_le_trans; [exact L|].
    change 32 with (2 ^ 5). rewrite <- Z.pow_mul_r by lia.
    apply Z.pow_le_mono_r; lia.
Qed.

Lemma read_write_vlq v bef rest :
  read_vlq (bef, write_vlq v ++ rest) = (Some v, (rev (write_vlq v) ++ bef, rest)).
Proof.
  unfold read_vlq, write_vlq. cbn [fst snd]. rewrite read_write_digits.
  - rewrite Z.add_0_l. change (2 ^ 0) with 1. rewrite Z.mul_1_r. rewrite unzig_zigzag. reflexivity.
  - split; [apply zigzag_nonneg|apply fuel_enough; apply zigzag_nonneg].
  - lia.
Qed.

(* the rest of the string starts with a separator *)
Definition sep_start (l : str) : bool :=
  match l with [] => false | c :: _ => N.eqb c COMMA || N.eqb c SEMI end.

Lemma read_vlq_sep bef l : sep_start l = true -> read_vlq (bef, l) = (None, (bef, l)).
Proof.
  destruct l as [|c r]; [discriminate|]. cbn [sep_start]. intros H.
  unfold read_vlq. cbn [read_digits fst snd].
  apply orb_prop in H. destruct H as [H|H]; apply N.eqb_eq in H; subst c; reflexivity.
Qed.

Lemma write_vlq_head v : exists d tl, write_vlq v = d :: tl /\ N.eqb d COMMA = false /\ N.eqb d SEMI = false.
Proof.
  unfold write_vlq. set (u := zigzag v). assert (Hu : 0 <= u) by apply zigzag_nonneg.
  cbn [write_digits]. destruct (32 <=? u) eqn:E.
  - eexists; eexists; split; [reflexivity|]. apply b64enc_not_sep.
    rewrite land31. assert (0 <= u mod 32 < 32) by (apply Z.mod_pos_bound; lia). rewrite lor32 by lia. lia.
  - eexists; eexists; split; [reflexivity|]. apply b64enc_not_sep. lia.
Qed.

(* the last digit of a number carries no continuation bit *)
Definition terminal (d : N) : Prop :=
  exists o, b64dec d = Some o /\ (Z.land o 32 =? 0) = true /\ N.eqb d COMMA = false /\ N.eqb d SEMI = false.

Lemma write_digits_last : forall fuel u, 0 <= u < 32 ^ Z.of_nat (S fuel) ->
  exists pre d, write_digits fuel u = pre ++ [d] /\ terminal d.
Proof.
  assert (T : forall u, 0 <= u < 32 -> terminal (b64enc u)).
  { intros u Hu. exists u. rewrite b64_roundtrip by lia. destruct (digit_bits u ltac:(lia)) as [_ B].
    rewrite B. destruct (b64enc_not_sep u ltac:(lia)) as [X Y]. repeat split; try assumption. lia. }
  induction fuel as [|f IH]; intros u Hu.
  - change (32 ^ Z.of_nat 1) with 32 in Hu. exists [], (b64enc u). split; [reflexivity|apply T; lia].
  - cbn [write_digits]. destruct (32 <=? u) eqn:E.
    + destruct (IH (Z.shiftr u 5)) as (pre & d & Hp & Ht).
      { rewrite shr5. split; [apply Z.div_pos; lia|]. apply Z.div_lt_upper_bound; [lia|].
        replace (Z.of_nat (S (S f))) with (Z.succ (Z.of_nat (S f))) in Hu by lia.
        rewrite Z.pow_succ_r in Hu by lia. lia. }
      rewrite Hp. eexists (_ :: pre), d. split; [reflexivity|exact Ht].
    + exists [], (b64enc u). split; [reflexivity|apply T; lia].
Qed.

Lemma write_vlq_last v : exists pre d, write_vlq v = pre ++ [d] /\ terminal d.
Proof. unfold write_vlq. apply write_digits_last. split; [apply zigzag_nonneg|apply fuel_enough; apply zigzag_nonneg]. Qed.

(* ---- tables ------------------------------------------------------------------------------- *)
Lemma str_eqb_eq a : forall b, str_eqb a b = true -> a = b.
Proof.
  induction a as [|x a IH]; destruct b as [|y b]; cbn; intros H; try discriminate; [reflexivity|].
  apply andb_prop in H. destruct H as [H1 H2]. apply N.eqb_eq in H1. f_equal; auto.
Qed.

Lemma index_of_nth x : forall tbl i, index_of x tbl = Some i -> nth_error tbl i = Some x.
Proof.
  induction tbl as [|y r IH]; cbn; intros i H; [discriminate|].
  destruct (str_eqb x y) eqn:E.
  - inversion H; subst. apply str_eqb_eq in E. subst. reflexivity.
  - destruct (index_of x r) eqn:E2; [|discriminate]. inversion H; subst. cbn. auto.
Qed.

Lemma intern_get x tbl i tbl' t : intern x tbl = (i, tbl') ->
  tbl_get (tbl' ++ t) i = Some x /\ exists t', tbl' = tbl ++ t'.
Proof.
  unfold intern. destruct (index_of x tbl) eqn:E; intros H; inversion H; subst; clear H.
  - split; [|exists []; rewrite app_nil_r; reflexivity].
    unfold tbl_get. replace (Z.of_nat n <? 0) with false by lia. rewrite Nat2Z.id.
    apply index_of_nth in E. rewrite nth_error_app1; [exact E|]. apply nth_error_Some. congruence.
  - split; [|eexists; reflexivity].
    unfold tbl_get. replace (Z.of_nat (length tbl) <? 0) with false by lia. rewrite Nat2Z.id.
    rewrite <- app_assoc. rewrite nth_error_app2 by lia. rewrite Nat.sub_diag. reflexivity.
Qed.

Lemma enc_one_tables c comma srcs names m b c' srcs' names' :
  enc_one c comma srcs names m = (b, c', srcs', names') ->
  (exists t, srcs' = srcs ++ t) /\ (exists t, names' = names ++ t).
Proof.
  unfold enc_one. destruct (is_empty (m_file m)).
  - intros H; inversion H; subst. split; exists []; rewrite app_nil_r; reflexivity.
  - destruct (intern (m_file m) srcs) as [fi s1] eqn:E1.
    destruct (intern_get _ _ _ _ [] E1) as [_ [t1 ->]].
    destruct (is_empty (m_name m)).
    + intros H; inversion H; subst. split; [eexists; reflexivity|exists []; rewrite app_nil_r; reflexivity].
    + destruct (intern (m_name m) names) as [ni n1] eqn:E2.
      destruct (intern_get _ _ _ _ [] E2) as [_ [t2 ->]].
      intros H; inversion H; subst. split; eexists; reflexivity.
Qed.

Lemma enc_from_tables : forall ms c comma srcs names b S' N',
  enc_from c comma srcs names ms = (b, S', N') ->
  (exists t, S' = srcs ++ t) /\ (exists t, N' = names ++ t).
Proof.
  induction ms as [|m r IH]; intros c comma srcs names b S' N' H.
  - cbn in H. inversion H; subst. split; exists []; rewrite app_nil_r; reflexivity.
  - cbn [enc_from] in H.
    destruct (enc_one c comma srcs names m) as [[[b1 c1] s1] n1] eqn:E1.
    destruct (enc_from c1 true s1 n1 r) as [[b2 s2] n2] eqn:E2.
    inversion H; subst.
    destruct (enc_one_tables _ _ _ _ _ _ _ _ _ E1) as [[t1 ->] [u1 ->]].
    destruct (IH _ _ _ _ _ _ _ E2) as [[t2 ->] [u2 ->]].
    split; eexists; rewrite <- app_assoc; reflexivity.
Qed.

(* ---- the decoder on the encoder's output --------------------------------------------------- *)
Definition adv (c : cur) (k : nat) : cur :=
  match k with
  | O => c
  | S _ => {| c_gl := c_gl c + Z.of_nat k; c_gc := 0; c_of := c_of c; c_ol := c_ol c; c_oc := c_oc c; c_on := c_on c |}
  end.

Lemma repeat_app_cons {A} (x : A) k l : repeat x k ++ x :: l = x :: repeat x k ++ l.
Proof. induction k as [|k IH]; cbn; [reflexivity|rewrite IH; reflexivity]. Qed.

Lemma dec_semis : forall k f S N c bef l acc,
  dec_loop (k + f) S N c (bef, repeat SEMI k ++ l) acc = dec_loop f S N (adv c k) (repeat SEMI k ++ bef, l) acc.
Proof.
  induction k as [|k IH]; intros f S N c bef l acc; [reflexivity|].
  cbn [repeat app Nat.add dec_loop fst snd].
  change (N.eqb SEMI COMMA) with false. change (N.eqb SEMI SEMI) with true. cbn iota.
  rewrite IH. f_equal.
  - destruct k as [|k']; unfold adv; cbn [c_gl c_gc c_of c_ol c_oc c_on]; f_equal; lia.
  - f_equal. apply repeat_app_cons.
Qed.

Lemma dec_comma f S N c bef l acc :
  dec_loop (Datatypes.S f) S N c (bef, COMMA :: l) acc = dec_loop f S N c (COMMA :: bef, l) acc.
Proof. cbn [dec_loop fst snd]. change (N.eqb COMMA COMMA) with true. reflexivity. Qed.

Definition seg_body (f : nat) (srcs names : list str) (c : cur) (rd : rdr) (acc : list mapping) : option (list mapping) :=
        let '(v1, r1) := read_vlq rd in
        let '(v2, r2) := read_vlq r1 in
        let '(v3, r3) := read_vlq r2 in
        let '(v4, r4) := read_vlq r3 in
        let '(v5, r5) := read_vlq r4 in
        let c' := {| c_gl := c_gl c; c_gc := add_opt (c_gc c) v1; c_of := add_opt (c_of c) v2;
                     c_ol := add_opt (c_ol c) v3; c_oc := add_opt (c_oc c) v4; c_on := add_opt (c_on c) v5 |} in
        if Nat.leb (length (snd rd)) (length (snd r5)) then None
        else
          match (cnt v1 + cnt v2 + cnt v3 + cnt v4 + cnt v5)%nat with
          | 1%nat => dec_loop f srcs names c' r5
                       ({| m_gl := c_gl c'; m_gc := c_gc c'; m_file := []; m_ol := 0; m_oc := 0; m_name := [] |} :: acc)
          | 4%nat =>
              match tbl_get srcs (c_of c') with
              | None => None
              | Some fl => dec_loop f srcs names c' r5
                       ({| m_gl := c_gl c'; m_gc := c_gc c'; m_file := fl; m_ol := c_ol c'; m_oc := c_oc c'; m_name := [] |} :: acc)
              end
          | 5%nat =>
              match tbl_get srcs (c_of c'), tbl_get names (c_on c') with
              | Some fl, Some nm => dec_loop f srcs names c' r5
                       ({| m_gl := c_gl c'; m_gc := c_gc c'; m_file := fl; m_ol := c_ol c'; m_oc := c_oc c'; m_name := nm |} :: acc)
              | _, _ => None
              end
          | _ => dec_loop f srcs names c' r5 acc
          end.

Lemma dec_loop_nonsep f S N c bef l acc d tl :
  l = d :: tl -> N.eqb d COMMA = false -> N.eqb d SEMI = false ->
  dec_loop (Datatypes.S f) S N c (bef, l) acc = seg_body f S N c (bef, l) acc.
Proof. intros -> A B. cbn [dec_loop fst snd]. rewrite A, B. reflexivity. Qed.

Lemma dec_vlq_start f S N c bef v rest acc :
  dec_loop (Datatypes.S f) S N c (bef, write_vlq v ++ rest) acc = seg_body f S N c (bef, write_vlq v ++ rest) acc.
Proof.
  destruct (write_vlq_head v) as (d & tl & E & A & B).
  apply (dec_loop_nonsep f S N c bef _ acc d (tl ++ rest)); [rewrite E; reflexivity|exact A|exact B].
Qed.

Lemma write_vlq_len v : (1 <= length (write_vlq v))%nat.
Proof. destruct (write_vlq_head v) as (d & tl & E & _). rewrite E. cbn. lia. Qed.

Ltac rd_vlq := repeat (rewrite read_write_vlq; cbn beta iota).
Ltac rd_sep Hs := repeat (rewrite (read_vlq_sep _ _ Hs); cbn beta iota).

Lemma seg1 f S N c bef v rest acc : sep_start rest = true ->
  exists bef',
  dec_loop (Datatypes.S f) S N c (bef, write_vlq v ++ rest) acc =
  dec_loop f S N {| c_gl := c_gl c; c_gc := c_gc c + v; c_of := c_of c; c_ol := c_ol c; c_oc := c_oc c; c_on := c_on c |} (bef', rest)
    ({| m_gl := c_gl c; m_gc := c_gc c + v; m_file := []; m_ol := 0; m_oc := 0; m_name := [] |} :: acc).
Proof.
  intros Hs. eexists. rewrite dec_vlq_start. unfold seg_body.
  rd_vlq. rd_sep Hs.
  cbn [add_opt cnt Nat.add c_gl c_gc fst snd].
  replace (Nat.leb (length (write_vlq v ++ rest)) (length rest)) with false.
  2:{ symmetry. apply Nat.leb_gt. rewrite app_length. pose proof (write_vlq_len v). lia. }
  reflexivity.
Qed.

Lemma seg4 f S N c bef v1 v2 v3 v4 rest acc fl : sep_start rest = true ->
  tbl_get S (c_of c + v2) = Some fl ->
  exists bef',
  dec_loop (Datatypes.S f) S N c (bef, write_vlq v1 ++ write_vlq v2 ++ write_vlq v3 ++ write_vlq v4 ++ rest) acc =
  dec_loop f S N {| c_gl := c_gl c; c_gc := c_gc c + v1; c_of := c_of c + v2; c_ol := c_ol c + v3; c_oc := c_oc c + v4; c_on := c_on c |} (bef', rest)
    ({| m_gl := c_gl c; m_gc := c_gc c + v1; m_file := fl; m_ol := c_ol c + v3; m_oc := c_oc c + v4; m_name := [] |} :: acc).
Proof.
  intros Hs Ht. eexists. rewrite dec_vlq_start. unfold seg_body.
  rd_vlq. rd_sep Hs.
  cbn [add_opt cnt Nat.add c_gl c_gc c_of c_ol c_oc c_on fst snd].
  replace (Nat.leb _ (length rest)) with false.
  2:{ symmetry. apply Nat.leb_gt. rewrite !app_length. pose proof (write_vlq_len v1). lia. }
  rewrite Ht. reflexivity.
Qed.

Lemma seg5 f S N c bef v1 v2 v3 v4 v5 rest acc fl nm :
  tbl_get S (c_of c + v2) = Some fl -> tbl_get N (c_on c + v5) = Some nm ->
  exists bef',
  dec_loop (Datatypes.S f) S N c (bef, write_vlq v1 ++ write_vlq v2 ++ write_vlq v3 ++ write_vlq v4 ++ write_vlq v5 ++ rest) acc =
  dec_loop f S N {| c_gl := c_gl c; c_gc := c_gc c + v1; c_of := c_of c + v2; c_ol := c_ol c + v3; c_oc := c_oc c + v4; c_on := c_on c + v5 |} (bef', rest)
    ({| m_gl := c_gl c; m_gc := c_gc c + v1; m_file := fl; m_ol := c_ol c + v3; m_oc := c_oc c + v4; m_name := nm |} :: acc).
Proof.
  intros Ht Hn. eexists. rewrite dec_vlq_start. unfold seg_body.
  rd_vlq.
  cbn [add_opt cnt Nat.add c_gl c_gc c_of c_ol c_oc c_on fst snd].
  replace (Nat.leb _ (length rest)) with false.
  2:{ symmetry. apply Nat.leb_gt. rewrite !app_length. pose proof (write_vlq_len v1). lia. }
  rewrite Ht, Hn. reflexivity.
Qed.

(* A four-field segment at the very end of the string: the fifth readVLQ fails at EOF and un-reads the last
   digit, the loop goes round once more on that digit alone (three "numbers" are counted, nothing is
   appended) and ends. *)
Lemma read_vlq_eof d bef : read_vlq (@pair (list N) (list N) (d :: bef) []) = (None, @pair (list N) (list N) bef [d]).
Proof. reflexivity. Qed.

Lemma read_vlq_terminal d bef : terminal d -> exists x, read_vlq (@pair (list N) (list N) bef [d]) = (Some x, @pair (list N) (list N) (d :: bef) []).
Proof.
  intros (o & Ho & Hl & _). unfold read_vlq. cbn [read_digits fst snd]. rewrite Ho, Hl. eexists; reflexivity.
Qed.

Lemma dance f S N c bef d acc : terminal d ->
  dec_loop (Datatypes.S f) S N c (bef, [d]) acc = Some (rev acc).
Proof.
  intros T. pose proof T as (o & Ho & Hl & A & B).
  rewrite (dec_loop_nonsep f S N c bef [d] acc d [] eq_refl A B). unfold seg_body.
  destruct (read_vlq_terminal d bef T) as [x1 E1]. unfold rdr, str in *. rewrite E1. cbn beta iota.
  rewrite read_vlq_eof. cbn beta iota. rewrite E1. cbn beta iota.
  rewrite read_vlq_eof. cbn beta iota. rewrite E1. cbn beta iota.
  cbn [cnt Nat.add snd length Nat.leb]. destruct f; reflexivity.
Qed.

Lemma seg4_eof f S N c bef v1 v2 v3 v4 acc fl :
  tbl_get S (c_of c + v2) = Some fl ->
  dec_loop (Datatypes.S (Datatypes.S f)) S N c (bef, write_vlq v1 ++ write_vlq v2 ++ write_vlq v3 ++ write_vlq v4) acc =
  Some (rev ({| m_gl := c_gl c; m_gc := c_gc c + v1; m_file := fl; m_ol := c_ol c + v3; m_oc := c_oc c + v4; m_name := [] |} :: acc)).
Proof.
  intros Ht.
  replace (write_vlq v1 ++ write_vlq v2 ++ write_vlq v3 ++ write_vlq v4)
    with (write_vlq v1 ++ write_vlq v2 ++ write_vlq v3 ++ write_vlq v4 ++ []) by (rewrite app_nil_r; reflexivity).
  rewrite dec_vlq_start. unfold seg_body.
  rd_vlq.
  destruct (write_vlq_last v4) as (pre & d & Hp & T).
  rewrite Hp at 1. rewrite rev_app_distr. cbn [rev app].
  rewrite read_vlq_eof. cbn beta iota.
  cbn [add_opt cnt Nat.add c_gl c_gc c_of c_ol c_oc c_on fst snd].
  replace (Nat.leb _ (length [d])) with false.
  2:{ symmetry. apply Nat.leb_gt. rewrite !app_length. pose proof (write_vlq_len v1). pose proof (write_vlq_len v2).
      pose proof (write_vlq_len v3). pose proof (write_vlq_len v4). cbn [length]. lia. }
  rewrite Ht. apply dance. exact T.
Qed.

Lemma enc_from_sep : forall ms c srcs names b S' N',
  ms <> [] -> enc_from c true srcs names ms = (b, S', N') -> sep_start b = true.
Proof.
  destruct ms as [|m r]; intros c srcs names b S' N' Hne H; [congruence|].
  cbn [enc_from] in H.
  destruct (enc_one c true srcs names m) as [[[b1 c1] s1] n1] eqn:E1.
  destruct (enc_from c1 true s1 n1 r) as [[b2 s2] n2].
  inversion H; subst. clear H.
  unfold enc_one in E1.
  destruct (c_gl c <? m_gl m) eqn:L.
  + assert (Hk : exists k', Z.to_nat (m_gl m - c_gl c) = S k') by (exists (pred (Z.to_nat (m_gl m - c_gl c))); lia).
    destruct Hk as [k' Hk]. rewrite Hk in E1.
    destruct (is_empty (m_file m)); [|destruct (intern (m_file m) srcs); destruct (is_empty (m_name m)); [|destruct (intern (m_name m) names)]];
      inversion E1; subst; reflexivity.
  + assert (Hk : Z.to_nat (m_gl m - c_gl c) = O) by lia. rewrite Hk in E1.
    destruct (is_empty (m_file m)); [|destruct (intern (m_file m) srcs); destruct (is_empty (m_name m)); [|destruct (intern (m_name m) names)]];
      inversion E1; subst; reflexivity.
Qed.

Lemma app_tail_ex {A} (a t1 : list A) x : (exists t, x = (a ++ t1) ++ t) -> exists t, x = a ++ t.
Proof. intros [t ->]. exists (t1 ++ t). rewrite app_assoc. reflexivity. Qed.

Lemma dec_prefix : forall k (cm : bool) l fuel S N c bef acc,
  (k + (if cm then 1 else 0) + length l <= fuel)%nat -> (1 <= length l)%nat ->
  exists f' bef', (length l <= Datatypes.S f')%nat /\
    dec_loop fuel S N c (bef, repeat SEMI k ++ (if cm then [COMMA] else []) ++ l) acc = dec_loop (Datatypes.S f') S N (adv c k) (bef', l) acc.
Proof.
  intros k cm l fuel S N c bef acc Hf Hl.
  exists (fuel - k - (if cm then 1 else 0) - 1)%nat. exists ((if cm then [COMMA] else []) ++ repeat SEMI k ++ bef). split; [destruct cm; lia|].
  replace fuel with (k + ((if cm then 1 else 0) + Datatypes.S (fuel - k - (if cm then 1 else 0) - 1)))%nat at 1 by (destruct cm; lia).
  rewrite dec_semis. destruct cm; cbn [Nat.add app]; [apply dec_comma|reflexivity].
Qed.

Lemma len_sep (b : bool) : length (if b then [COMMA] else []) = (if b then 1 else 0)%nat.
Proof. destruct b; reflexivity. Qed.

Lemma is_empty_nil s : is_empty s = true -> s = [].
Proof. destruct s; [reflexivity|discriminate]. Qed.

Lemma dec_nil fuel S N c bef acc : dec_loop fuel S N c (bef, []) acc = Some (rev acc).
Proof. destruct fuel; reflexivity. Qed.

Lemma dec_enc : forall ms c comma srcs names b S' N' Sf Nf fuel bef acc,
  enc_from c comma srcs names ms = (b, S', N') ->
  (exists t, Sf = S' ++ t) -> (exists t, Nf = N' ++ t) ->
  lines_sorted (c_gl c) ms = true -> last_has_file ms = true ->
  (length b <= fuel)%nat ->
  dec_loop fuel Sf Nf c (bef, b) acc = Some (rev acc ++ map canon ms).
Proof.
  induction ms as [|m r IH]; intros c comma srcs names b S' N' Sf Nf fuel bef acc H HS HN Hsort Hlast Hfuel.
  - cbn in H. inversion H; subst. rewrite dec_nil. cbn. rewrite app_nil_r. reflexivity.
  - cbn [enc_from] in H.
    destruct (enc_one c comma srcs names m) as [[[b1 c1] s1] n1] eqn:E1.
    destruct (enc_from c1 true s1 n1 r) as [[b2 s2] n2] eqn:E2.
    inversion H; subst b S' N'. clear H.
    cbn [lines_sorted] in Hsort. apply andb_prop in Hsort. destruct Hsort as [Hle Hsort].
    destruct (enc_from_tables _ _ _ _ _ _ _ _ E2) as [[ts Hts] [tn Htn]].
    assert (HSf : exists t, Sf = s1 ++ t) by (subst s2; eapply app_tail_ex; exact HS).
    assert (HNf : exists t, Nf = n1 ++ t) by (subst n2; eapply app_tail_ex; exact HN).
    (* what follows this segment: nothing (last mapping, which then has a file) or a separator *)
    assert (Hrest : (r = [] /\ b2 = [] /\ is_empty (m_file m) = false) \/ (sep_start b2 = true /\ last_has_file r = true)).
    { destruct r as [|m' r'].
      - left. cbn in E2. inversion E2. cbn in Hlast. split; [reflexivity|split; [reflexivity|]].
        destruct (is_empty (m_file m)); [discriminate|reflexivity].
      - right. split; [eapply enc_from_sep; [|exact E2]; discriminate|exact Hlast]. }
    cbn [map]. unfold enc_one in E1.
    set (k := Z.to_nat (m_gl m - c_gl c)) in *.
    assert (Hadv : c_gl (adv c k) = m_gl m /\ c_of (adv c k) = c_of c /\ c_ol (adv c k) = c_ol c /\
                   c_oc (adv c k) = c_oc c /\ c_on (adv c k) = c_on c /\
                   c_gc (adv c k) = (if c_gl c <? m_gl m then 0 else c_gc c)).
    { destruct k as [|k'] eqn:Ek; unfold adv; cbn [c_gl c_gc c_of c_ol c_oc c_on].
      - replace (c_gl c <? m_gl m) with false by lia. repeat split; lia.
      - replace (c_gl c <? m_gl m) with true by lia. repeat split; lia. }
    destruct Hadv as (A1 & A2 & A3 & A4 & A5 & A6).
    set (gc0 := if c_gl c <? m_gl m then 0 else c_gc c) in *.
    set (cm := if c_gl c <? m_gl m then false else comma) in *.
    assert (Hgl' : (if c_gl c <? m_gl m then m_gl m else c_gl c) = m_gl m) by (destruct (c_gl c <? m_gl m) eqn:L; lia).
    rewrite Hgl' in E1.
    destruct (is_empty (m_file m)) eqn:Ef.
    + (* one field: cannot be the last mapping *)
      destruct Hrest as [(_ & _ & X)|[Hsep Hlast']]; [discriminate|].
      inversion E1; subst b1 c1 s1 n1. clear E1.
      rewrite <- !app_assoc. rewrite <- !app_assoc in Hfuel. rewrite !app_length, repeat_length, len_sep in Hfuel.
      pose proof (write_vlq_len (m_gc m - gc0)) as L1.
      destruct (dec_prefix k cm (write_vlq (m_gc m - gc0) ++ b2) fuel Sf Nf c bef acc) as (f' & bef1 & Hf' & Hq);
        [rewrite app_length; lia|rewrite app_length; lia|].
      etransitivity; [exact Hq|]; clear Hq.
      rewrite app_length in Hf'.
      destruct (seg1 f' Sf Nf (adv c k) bef1 (m_gc m - gc0) b2 acc Hsep) as [bef2 Hq2]. etransitivity; [exact Hq2|]; clear Hq2.
      rewrite A1, A2, A3, A4, A5, A6. replace (gc0 + (m_gc m - gc0)) with (m_gc m) by lia.
      erewrite IH; [|exact E2|exact HS|exact HN|exact Hsort|exact Hlast'|lia].
      cbn [rev]. rewrite <- app_assoc. cbn [app]. unfold canon. rewrite Ef. reflexivity.
    + destruct (intern (m_file m) srcs) as [fi s1'] eqn:Ei.
      destruct (is_empty (m_name m)) eqn:En.
      * (* four fields *)
        inversion E1; subst b1 c1 s1' n1. clear E1.
        destruct HSf as [tS HSf].
        destruct (intern_get _ _ _ _ tS Ei) as [Hget _]. rewrite <- HSf in Hget.
        assert (Hget' : tbl_get Sf (c_of (adv c k) + (fi - c_of c)) = Some (m_file m))
          by (rewrite A2; replace (c_of c + (fi - c_of c)) with fi by lia; exact Hget).
        assert (Hm : {| m_gl := m_gl m; m_gc := m_gc m; m_file := m_file m; m_ol := m_ol m; m_oc := m_oc m; m_name := [] |} = canon m).
        { unfold canon. rewrite Ef. apply is_empty_nil in En.
          destruct m as [g1 g2 g3 g4 g5 g6]; cbn [m_gl m_gc m_file m_ol m_oc m_name] in *; rewrite En; reflexivity. }
        rewrite <- !app_assoc. rewrite <- !app_assoc in Hfuel. rewrite !app_length, repeat_length, len_sep in Hfuel.
        pose proof (write_vlq_len (m_gc m - gc0)) as L1.
        pose proof (write_vlq_len (fi - c_of c)) as L2.
        pose proof (write_vlq_len (m_ol m - c_ol c)) as L3.
        pose proof (write_vlq_len (m_oc m - c_oc c)) as L4.
        match goal with |- dec_loop _ _ _ _ (_, _ ++ _ ++ ?body) _ = _ =>
          destruct (dec_prefix k cm body fuel Sf Nf c bef acc) as (f' & bef1 & Hf' & Hq);
            [rewrite !app_length; lia|rewrite !app_length; lia|] end.
        etransitivity; [exact Hq|]; clear Hq.
        rewrite !app_length in Hf'.
        destruct Hrest as [(Hr & Hb2 & _)|[Hsep Hlast']].
        -- subst r b2. rewrite !app_nil_r. destruct f' as [|f'']; [lia|].
           etransitivity; [apply (seg4_eof f'' Sf Nf (adv c k) bef1 (m_gc m - gc0) (fi - c_of c) (m_ol m - c_ol c) (m_oc m - c_oc c) acc (m_file m) Hget')|].
           rewrite A1, A3, A4, A6.
           replace (gc0 + (m_gc m - gc0)) with (m_gc m) by lia.
           replace (c_ol c + (m_ol m - c_ol c)) with (m_ol m) by lia.
           replace (c_oc c + (m_oc m - c_oc c)) with (m_oc m) by lia.
           rewrite Hm. cbn [rev map]. reflexivity.
        -- destruct (seg4 f' Sf Nf (adv c k) bef1 (m_gc m - gc0) (fi - c_of c) (m_ol m - c_ol c) (m_oc m - c_oc c) b2 acc (m_file m) Hsep Hget') as [bef2 Hq2]. etransitivity; [exact Hq2|]; clear Hq2.
           rewrite A1, A2, A3, A4, A5, A6.
           replace (gc0 + (m_gc m - gc0)) with (m_gc m) by lia.
           replace (c_of c + (fi - c_of c)) with fi by lia.
           replace (c_ol c + (m_ol m - c_ol c)) with (m_ol m) by lia.
           replace (c_oc c + (m_oc m - c_oc c)) with (m_oc m) by lia.
           erewrite IH; [|exact E2|exact HS|exact HN|exact Hsort|exact Hlast'|lia].
           rewrite Hm. cbn [rev]. rewrite <- app_assoc. reflexivity.
      * (* five fields *)
        destruct (intern (m_name m) names) as [ni n1'] eqn:Ej.
        inversion E1; subst b1 c1 s1' n1'. clear E1.
        destruct HSf as [tS HSf]. destruct HNf as [tN HNf].
        destruct (intern_get _ _ _ _ tS Ei) as [Hget _]. rewrite <- HSf in Hget.
        destruct (intern_get _ _ _ _ tN Ej) as [Hgetn _]. rewrite <- HNf in Hgetn.
        assert (Hget' : tbl_get Sf (c_of (adv c k) + (fi - c_of c)) = Some (m_file m))
          by (rewrite A2; replace (c_of c + (fi - c_of c)) with fi by lia; exact Hget).
        assert (Hgetn' : tbl_get Nf (c_on (adv c k) + (ni - c_on c)) = Some (m_name m))
          by (rewrite A5; replace (c_on c + (ni - c_on c)) with ni by lia; exact Hgetn).
        assert (Hm : {| m_gl := m_gl m; m_gc := m_gc m; m_file := m_file m; m_ol := m_ol m; m_oc := m_oc m; m_name := m_name m |} = canon m).
        { unfold canon. rewrite Ef. destruct m; reflexivity. }
        rewrite <- !app_assoc. rewrite <- !app_assoc in Hfuel. rewrite !app_length, repeat_length, len_sep in Hfuel.
        pose proof (write_vlq_len (m_gc m - gc0)) as L1.
        match goal with |- dec_loop _ _ _ _ (_, _ ++ _ ++ ?body) _ = _ =>
          destruct (dec_prefix k cm body fuel Sf Nf c bef acc) as (f' & bef1 & Hf' & Hq);
            [rewrite !app_length; lia|rewrite !app_length; lia|] end.
        etransitivity; [exact Hq|]; clear Hq.
        rewrite !app_length in Hf'.
        destruct (seg5 f' Sf Nf (adv c k) bef1 (m_gc m - gc0) (fi - c_of c) (m_ol m - c_ol c) (m_oc m - c_oc c) (ni - c_on c) b2 acc (m_file m) (m_name m) Hget' Hgetn') as [bef2 Hq2]. etransitivity; [exact Hq2|]; clear Hq2.
        rewrite A1, A2, A3, A4, A5, A6.
        replace (gc0 + (m_gc m - gc0)) with (m_gc m) by lia.
        replace (c_of c + (fi - c_of c)) with fi by lia.
        replace (c_ol c + (m_ol m - c_ol c)) with (m_ol m) by lia.
        replace (c_oc c + (m_oc m - c_oc c)) with (m_oc m) by lia.
        replace (c_on c + (ni - c_on c)) with ni by lia.
        assert (Hlast' : last_has_file r = true).
        { destruct Hrest as [(Hr & _ & _)|[_ X]]; [subst r; reflexivity|exact X]. }
        erewrite IH; [|exact E2|exact HS|exact HN|exact Hsort|exact Hlast'|lia].
        rewrite Hm. cbn [rev]. rewrite <- app_assoc. reflexivity.
Qed.

(* The codec round trip: what EncodeMappings writes for a sorted list that is empty or ends in a mapping with
   a file, decodeMappings reads back. *)
Theorem mappings_roundtrip : forall ms s srcs names,
  lines_sorted 1 ms = true -> last_has_file ms = true ->
  encode_mappings ms = (s, srcs, names) ->
  decode_mappings srcs names s = Some (map canon ms).
Proof.
  intros ms s srcs names Hs Hl He. unfold decode_mappings.
  apply (dec_enc ms cur0 false [] [] s srcs names srcs names (length s) [] [] He);
    [exists []; rewrite app_nil_r; reflexivity|exists []; rewrite app_nil_r; reflexivity|exact Hs|exact Hl|lia].
Qed.

Theorem vlq_roundtrip : forall v bef rest, read_vlq (bef, write_vlq v ++ rest) = (Some v, (rev (write_vlq v) ++ bef, rest)).
Proof. exact read_write_vlq. Qed.

(* every byte EncodeMappings writes is from the base64 alphabet or a separator *)
Definition out_char (c : N) : bool :=
  match b64dec c with Some _ => true | None => N.eqb c COMMA || N.eqb c SEMI end.

Lemma out_char_b64 d : 0 <= d < 64 -> out_char (b64enc d) = true.
Proof. intros H. unfold out_char. rewrite b64_roundtrip by exact H. reflexivity. Qed.

Lemma write_digits_chars : forall fuel u, 0 <= u < 32 ^ Z.of_nat (S fuel) -> forallb out_char (write_digits fuel u) = true.
Proof.
  induction fuel as [|f IH]; intros u Hu.
  - change (32 ^ Z.of_nat 1) with 32 in Hu. cbn [write_digits forallb]. rewrite out_char_b64 by lia. reflexivity.
  - cbn [write_digits]. destruct (32 <=? u) eqn:E.
    + cbn [forallb]. rewrite land31, shr5.
      assert (Hm : 0 <= u mod 32 < 32) by (apply Z.mod_pos_bound; lia).
      rewrite lor32 by lia. rewrite out_char_b64 by lia. cbn [andb]. apply IH.
      split; [apply Z.div_pos; lia|]. apply Z.div_lt_upper_bound; [lia|].
      replace (Z.of_nat (S (S f))) with (Z.succ (Z.of_nat (S f))) in Hu by lia.
      rewrite Z.pow_succ_r in Hu by lia. lia.
    + cbn [forallb]. rewrite out_char_b64 by lia. reflexivity.
Qed.

Lemma write_vlq_chars v : forallb out_char (write_vlq v) = true.
Proof. unfold write_vlq. apply write_digits_chars. split; [apply zigzag_nonneg|apply fuel_enough; apply zigzag_nonneg]. Qed.

Lemma forallb_repeat_semi k : forallb out_char (repeat SEMI k) = true.
Proof. induction k; cbn [repeat forallb]; [reflexivity|rewrite IHk; reflexivity]. Qed.

Lemma enc_one_chars c comma srcs names m b c' s' n' :
  enc_one c comma srcs names m = (b, c', s', n') -> forallb out_char b = true.
Proof.
  unfold enc_one.
  destruct (is_empty (m_file m)); [|destruct (intern (m_file m) srcs); destruct (is_empty (m_name m)); [|destruct (intern (m_name m) names)]];
    intros H; inversion H; subst; clear H;
    rewrite !forallb_app, !write_vlq_chars, forallb_repeat_semi;
    destruct (if c_gl c <? m_gl m then false else comma); reflexivity.
Qed.

Theorem mappings_chars : forall ms c comma srcs names b S' N',
  enc_from c comma srcs names ms = (b, S', N') -> forallb out_char b = true.
Proof.
  induction ms as [|m r IH]; intros c comma srcs names b S' N' H.
  - cbn in H. inversion H. reflexivity.
  - cbn [enc_from] in H.
    destruct (enc_one c comma srcs names m) as [[[b1 c1] s1] n1] eqn:E1.
    destruct (enc_from c1 true s1 n1 r) as [[b2 s2] n2] eqn:E2.
    inversion H; subst. rewrite forallb_app. rewrite (enc_one_chars _ _ _ _ _ _ _ _ _ E1), (IH _ _ _ _ _ _ _ E2). reflexivity.
Qed.

(* two sorted lists with the same encoding (string and tables) are the same up to [canon] *)
Theorem mappings_injective : forall ms1 ms2,
  lines_sorted 1 ms1 = true -> lines_sorted 1 ms2 = true ->
  last_has_file ms1 = true -> last_has_file ms2 = true ->
  encode_mappings ms1 = encode_mappings ms2 -> map canon ms1 = map canon ms2.
Proof.
  intros ms1 ms2 H1 H2 L1 L2 E.
  destruct (encode_mappings ms1) as [[s a] b] eqn:E1. symmetry in E.
  pose proof (mappings_roundtrip _ _ _ _ H1 L1 E1) as R1.
  pose proof (mappings_roundtrip _ _ _ _ H2 L2 E) as R2. congruence.
Qed.

(* The unrestricted round trip is FALSE of the decoder as written: a final mapping without a file (a
   one-field segment at the end of the string) is lost, because readVLQ's UnreadByte after a ReadByte
   that failed at EOF steps back over the last digit (witness: the string "AAqBkC,A"). *)
Definition trailing_witness : list mapping :=
  [ {| m_gl := 1; m_gc := 0; m_file := [118%N]; m_ol := 22; m_oc := 34; m_name := [] |};
    {| m_gl := 1; m_gc := 0; m_file := []; m_ol := 0; m_oc := 0; m_name := [] |} ].
Definition trailing_result : option (list mapping) :=
  let '(s, a, b) := encode_mappings trailing_witness in decode_mappings a b s.
Lemma roundtrip_unrestricted_refuted :
  lines_sorted 1 trailing_witness = true /\
  trailing_result = Some (removelast (map canon trailing_witness)).
Proof. vm_compute. split; reflexivity. Qed.
