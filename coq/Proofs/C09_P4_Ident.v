(* C09 phase 4 - representatives are unique up to Go's type identity; the unbounded identity theorem. *)
From Coq Require Import List Arith NArith Bool String Ascii Lia.
From Verif Require Import Gen.C09_Kinds Model.C09_Types Corr.C09_Eval Model.C09_P4_Wf Proofs.C09_Types Proofs.C09_P4_Strings Proofs.C09_P4_Keys Proofs.C09_P4_Canon.
Import ListNotations.
Local Open Scope N_scope.

Definition uniq_at (s : st) (nd : N) (x : ty) : Prop :=
  forall u i j, wfb nd x = true -> wfb nd u = true -> rep s i x -> rep s j u -> (i = j <-> identical x u = true).

Lemma ident_go_spec : forall s nd cs, Forall (uniq_at s nd) cs ->
  forall cs' ids ids', forallb (wfb nd) cs = true -> forallb (wfb nd) cs' = true ->
  Forall2 (rep s) ids cs -> Forall2 (rep s) ids' cs' -> (ids = ids' <-> ident_go cs cs' = true).
Proof.
  intros s nd. induction cs as [|x cs IH]; intros F cs' ids ids' W W' R R'.
  - inversion R; subst. destruct cs' as [|y cs']; inversion R'; subst; cbn; split; auto; discriminate.
  - inversion R as [|i x0 is_ cs0 Ri Ris]; subst. destruct cs' as [|y cs']; inversion R' as [|j y0 js cs0' Rj Rjs]; subst.
    + cbn. split; discriminate.
    + inversion F as [|? ? Fx Fcs]; subst. cbn [forallb] in W, W'.
      apply andb_true_iff in W as [W1 W2]. apply andb_true_iff in W' as [W1' W2'].
      cbn [ident_go]. fold ident_go. specialize (IH Fcs cs' is_ js W2 W2' Ris Rjs). specialize (Fx y i j W1 W1' Ri Rj).
      split.
      * intro E. injection E as E1 E2. apply andb_true_iff. split; [now apply Fx|now apply IH].
      * intro E. apply andb_true_iff in E as [E1 E2]. f_equal; [now apply Fx|now apply IH].
Qed.

Lemma named_in : forall s d, (N.to_nat d < List.length (s_named s))%nat -> In (nthN d (s_named s) 0) (s_named s).
Proof. intros. unfold nthN. now apply nth_In. Qed.

Lemma lab_ident_composite_l : forall l l', composite l = false -> composite l' = true -> lab_ident l l' = false.
Proof. intros [] []; cbn; intros; congruence. Qed.
Lemma lab_ident_composite_r : forall l l', composite l = true -> composite l' = false -> lab_ident l l' = false.
Proof. intros [] []; cbn; intros; congruence. Qed.

Theorem rep_unique : forall s, Inv s -> forall t, uniq_at s (nd_of s) t.
Proof.
  intros s I. induction t as [l cs IH] using ty_ind'. intros [l' cs'] i j Wt Wu R R'.
  assert (Wt' := Wt). assert (Wu' := Wu). cbn [wfb] in Wt', Wu'.
  apply andb_true_iff in Wt' as [Wl Wc]. apply andb_true_iff in Wu' as [Wl' Wc'].
  destruct I as [IA IB IC ID IF].
  inversion R as [b Hb|d Hd|l0 cs0 ids ck i0 Hc HF Hk Hl]; subst;
  inversion R' as [b' Hb'|d' Hd'|l0' cs0' ids' ck' i0' Hc' HF' Hk' Hl']; subst.
  - (* basic / basic *) rewrite identical_unfold. cbn. rewrite andb_true_r. split; [intro; subst; apply N.eqb_refl|apply N.eqb_eq].
  - (* basic / named *) apply named_in in Hd'. apply IF in Hd'. split; [intro; subst; lia|cbn; discriminate].
  - (* basic / node *) apply lookup_in in Hl'. apply IB in Hl'. rewrite identical_unfold, lab_ident_composite_l by auto.
    split; [intro; subst; lia|discriminate].
  - (* named / basic *) apply named_in in Hd. apply IF in Hd. split; [intro; subst; lia|cbn; discriminate].
  - (* named / named *) rewrite identical_unfold. cbn. rewrite andb_true_r. split.
    + intro E. unfold nthN in E. rewrite NoDup_nth in ID. apply ID in E; auto. apply N.eqb_eq. lia.
    + intro E. apply N.eqb_eq in E. now subst.
  - (* named / node *) apply named_in in Hd. apply lookup_in in Hl'. apply IB in Hl'.
    rewrite identical_unfold, lab_ident_composite_l by auto. split; [intro; subst; tauto|discriminate].
  - (* node / basic *) apply lookup_in in Hl. apply IB in Hl. rewrite identical_unfold, lab_ident_composite_r by auto.
    split; [intro; subst; lia|discriminate].
  - (* node / named *) apply named_in in Hd'. apply lookup_in in Hl. apply IB in Hl.
    rewrite identical_unfold, lab_ident_composite_r by auto. split; [intro; subst; tauto|discriminate].
  - (* node / node *)
    assert (Len := Forall2_length' _ _ _ HF). assert (Len' := Forall2_length' _ _ _ HF').
    rewrite <- Len in Wl. rewrite <- Len' in Wl'.
    rewrite identical_unfold. split.
    + intro E. subst j. apply lookup_in in Hl, Hl'. destruct (IC _ _ _ _ _ Hl Hl') as [E1 E2].
      assert (Eck : ck = ck') by (destruct ck, ck'; cbn in *; congruence). subst ck'.
      destruct (key_inj (nd_of s) l ids l' ids' ck) as [-> ->]; auto.
      rewrite lab_ident_refl. cbn. eapply (ident_go_spec s (nd_of s) cs IH cs' ids' ids'); eauto.
    + intro E. apply andb_true_iff in E as [E1 E2].
      apply (lab_ident_eq (nd_of s) l l' _ _ Wl Wl') in E1. subst l'.
      apply (ident_go_spec s (nd_of s) cs IH cs' ids ids') in E2; auto. subst ids'. congruence.
Qed.

Lemma Forall2_nth : forall {A B} (R : A -> B -> Prop) l l' a b, Forall2 R l l' ->
  forall n, (n < List.length l')%nat -> R (nth n l a) (nth n l' b).
Proof.
  intros A B R l l' a b F. induction F; intros n Hn; cbn in Hn; [lia|]. destruct n; cbn; auto. apply IHF. lia.
Qed.

(* THE UNBOUNDED IDENTITY THEOREM: every environment, every sequence of well-formed type terms *)
Theorem canon_iff_identical_wf : forall env (ts : list ty) i j,
  forallb (wfb (N.of_nat (List.length env))) ts = true ->
  let ids := fst (canon_list flags_current ts (load_env flags_current env)) in
  (i < List.length ts)%nat -> (j < List.length ts)%nat ->
  (nth i ids 0 = nth j ids 0 <-> identical (nth i ts (T (LBasic 0) [])) (nth j ts (T (LBasic 0) [])) = true).
Proof.
  intros env ts i j W ids Hi Hj.
  destruct (load_env_inv env) as [I0 ND].
  destruct (canon_list flags_current ts (load_env flags_current env)) as [ids0 s] eqn:E. subst ids. cbn [fst].
  destruct (canon_list_all ts _ ids0 s I0 E) as [I [X R]].
  rewrite ND in R. specialize (R W).
  assert (NDs : nd_of s = N.of_nat (List.length env)) by (rewrite (ext_nd _ _ X); exact ND).
  assert (Wn : forall n, (n < List.length ts)%nat -> wfb (nd_of s) (nth n ts (T (LBasic 0) [])) = true).
  { intros n Hn. rewrite NDs. rewrite forallb_forall in W. apply W. now apply nth_In. }
  apply (rep_unique s I (nth i ts (T (LBasic 0) [])) (nth j ts (T (LBasic 0) []))); auto.
  - now apply (Forall2_nth (rep s)).
  - now apply (Forall2_nth (rep s)).
Qed.

(* the same for two states of ONE history: a type canonicalised early and a type canonicalised after arbitrarily many
   further canonicalisations (the earlier object is still the representative) *)
Theorem canon_stable_later : forall env ts1 ts2 ids1 s1 ids2 s2,
  forallb (wfb (N.of_nat (List.length env))) ts1 = true ->
  canon_list flags_current ts1 (load_env flags_current env) = (ids1, s1) ->
  canon_list flags_current ts2 s1 = (ids2, s2) ->
  Forall2 (rep s2) ids1 ts1.
Proof.
  intros env ts1 ts2 ids1 s1 ids2 s2 W E1 E2.
  destruct (load_env_inv env) as [I0 ND].
  destruct (canon_list_all ts1 _ ids1 s1 I0 E1) as [I1 [X1 R1]]. rewrite ND in R1. specialize (R1 W).
  destruct (canon_list_all ts2 _ ids2 s2 I1 E2) as [I2 [X2 _]].
  eapply Forall2_rep_mono; eauto.
Qed.

(* without well-formedness the statement is false for junk terms the compiler cannot emit (a declaration index out
   of range falls back to object 0 = bool) *)
Lemma canon_junk_refuted :
  let ts := [T (LNamed 5) []; T (LBasic 0) []] in
  let ids := fst (canon_list flags_current ts (load_env flags_current [])) in
  nth 0 ids 0 = nth 1 ids 0 /\ identical (nth 0 ts (T (LBasic 0) [])) (nth 1 ts (T (LBasic 0) [])) = false /\
  forallb (wfb 0) ts = false.
Proof. vm_compute. repeat split; reflexivity. Qed.

(* non-vacuity: deep, nasty terms are well-formed *)
Definition p4_nasty : list ty :=
  [T (LStruct "" [Build_fhdr "A" false true "t"; Build_fhdr "B" false true ""]) [T (LBasic 1) []; T (LBasic 1) []];
   T (LStruct "" [Build_fhdr "A" false true "t,0$B,1,,0"]) [T (LBasic 1) []];
   T (LStruct "" [Build_fhdr "A" false true "t\,0\$B,1,,0"]) [T (LBasic 1) []];
   T LPtr [T LSlice [T (LArray 3) [T LMap [T (LBasic 16) []; T (LChan true false) [T (LFunc 1 true) [T LSlice [T (LNamed 0) []]; T (LIface [Build_mhdr "m" "main"]) [T (LFunc 0 false) []]]]]]]];
   T (LStruct "verifprog/q" [Build_fhdr "a" false false "\"]) [T (LNamed 1) []]].
Lemma p4_nasty_wf : forallb (wfb 2) p4_nasty = true.
Proof. vm_compute. reflexivity. Qed.

Lemma canon_full_junk_refuted :
  ~ (forall env (ts : list ty) i j, let ids := fst (canon_list flags_current ts (load_env flags_current env)) in
     (i < List.length ts)%nat -> (j < List.length ts)%nat ->
     (nth i ids 0 = nth j ids 0 <-> identical (nth i ts (T (LBasic 0) [])) (nth j ts (T (LBasic 0) [])) = true)).
Proof.
  intro H. specialize (H [] [T (LNamed 5) []; T (LBasic 0) []] 0%nat 1%nat). cbv zeta in H.
  assert (A : (0 < 2)%nat) by lia. assert (B : (1 < 2)%nat) by lia. destruct (H A B) as [H1 _].
  vm_compute in H1. specialize (H1 eq_refl). discriminate.
Qed.

(* the invariant itself, as a statement about every environment and every sequence *)
Theorem canon_hashcons : forall env ts ids s,
  canon_list flags_current ts (load_env flags_current env) = (ids, s) ->
  Inv s /\ (forallb (wfb (N.of_nat (List.length env))) ts = true -> Forall2 (rep s) ids ts).
Proof.
  intros env ts ids s E. destruct (load_env_inv env) as [I0 ND].
  destruct (canon_list_all ts _ ids s I0 E) as [I [X R]]. rewrite ND in R. auto.
Qed.
