(* C01 — simulation proof, part 3: every expression form *)
From Coq Require Import ZArith List String Bool Lia.
From Verif Require Import Model.C01_GoSem Model.C01_JsSem Model.C01_Compile Model.C01_Wf
  Proofs.C01_Arith Proofs.C01_Arith2 Proofs.C01_Arith3 Proofs.C01_SimBase Proofs.C01_SimExpr.
Import ListNotations.
Local Open Scope Z_scope.

Lemma val_ok_int : forall k v, val_ok (TI k) v -> exists z, v = VI z /\ in_range k z = true.
Proof. intros k [z|b] H; cbn in H; [eauto | contradiction]. Qed.
Lemma val_ok_bool : forall v, val_ok TB v -> exists b, v = VB b.
Proof. intros [z|b] H; cbn in H; [contradiction | eauto]. Qed.

Ltac wf_if H W :=
  cbn [wf_expr] in H;
  match type of H with (if ?c then _ else _) = _ => destruct c eqn:W; [|discriminate] end;
  inversion H; subst; clear H; repeat rewrite andb_true_iff in W.

Section Main.
  Variable g : env.
  Variable sg : store val.
  Notation SimAt := (SimAt g sg).

  Lemma sim_lit : forall k z, SimAt (ELit k z).
  Proof.
    intros k z t st je st' sj Hwf Hc Hr HI. cbn [wf_expr cexpr] in *.
    destruct (in_range k z) eqn:R; [|discriminate]. inversion Hwf; inversion Hc; subst.
    unfold ESim. cbn [eval]. split. exact R. exists sj. split. reflexivity. apply frame_refl.
  Qed.

  Lemma sim_bool : forall b, SimAt (EBool b).
  Proof.
    intros b t st je st' sj Hwf Hc Hr HI. cbn [wf_expr cexpr] in *. inversion Hwf; inversion Hc; subst.
    unfold ESim. cbn [eval]. split. exact Logic.I. exists sj. split. reflexivity. apply frame_refl.
  Qed.

  Lemma sim_not : forall a, SimAt a -> SimAt (ENot a).
  Proof.
    intros a IH t st je st' sj Hwf Hc Hr HI. wf_if Hwf W. destruct W as [W _]. apply opt_ty_is_spec in W.
    cbn [cexpr] in Hc. destruct (cexpr st a) as [ja st1] eqn:Ca. inversion Hc; subst; clear Hc.
    destruct (ESim_val _ _ _ _ _ _ (IH _ _ _ _ _ W Ca Hr HI)) as [[E J] | [v [sj1 [E [V [J F]]]]]];
      unfold ESim; cbn [eval]; rewrite E.
    - cbn [jeval]. rewrite J. reflexivity.
    - destruct (val_ok_bool _ V) as [b ->]. split. exact Logic.I. exists sj1. split; auto.
      cbn [jeval]. rewrite J. reflexivity.
  Qed.

  Lemma sim_neg : forall k a, SimAt a -> SimAt (ENeg k a).
  Proof.
    intros k a IH t st je st' sj Hwf Hc Hr HI. wf_if Hwf W. destruct W as [W _]. apply opt_ty_is_spec in W.
    cbn [cexpr] in Hc. destruct (cexpr st a) as [ja st1] eqn:Ca. inversion Hc; subst; clear Hc.
    destruct (ESim_val _ _ _ _ _ _ (IH _ _ _ _ _ W Ca Hr HI)) as [[E J] | [v [sj1 [E [V [J F]]]]]];
      unfold ESim; cbn [eval]; rewrite E.
    - apply fix_number_throw. cbn [jeval]. rewrite J. reflexivity.
    - destruct (val_ok_int _ _ V) as [z [-> Hz]]. split. apply norm_in_range. exists sj1. split; auto.
      apply neg_sim. exact J.
  Qed.

  Lemma sim_cpl : forall k a, SimAt a -> SimAt (ECpl k a).
  Proof.
    intros k a IH t st je st' sj Hwf Hc Hr HI. wf_if Hwf W. destruct W as [W _]. apply opt_ty_is_spec in W.
    cbn [cexpr] in Hc. destruct (cexpr st a) as [ja st1] eqn:Ca. inversion Hc; subst; clear Hc.
    destruct (ESim_val _ _ _ _ _ _ (IH _ _ _ _ _ W Ca Hr HI)) as [[E J] | [v [sj1 [E [V [J F]]]]]];
      unfold ESim; cbn [eval]; rewrite E.
    - apply fix_number_throw. cbn [jeval]. rewrite J. reflexivity.
    - destruct (val_ok_int _ _ V) as [z [-> Hz]]. split. apply norm_in_range. exists sj1. split; auto.
      apply cpl_sim. exact J.
  Qed.

  Lemma sim_conv : forall from to a, SimAt a -> SimAt (EConv from to a).
  Proof.
    intros from to a IH t st je st' sj Hwf Hc Hr HI. wf_if Hwf W. destruct W as [W _]. apply opt_ty_is_spec in W.
    cbn [cexpr] in Hc. destruct (cexpr st a) as [ja st1] eqn:Ca. inversion Hc; subst; clear Hc.
    destruct (ESim_val _ _ _ _ _ _ (IH _ _ _ _ _ W Ca Hr HI)) as [[E J] | [v [sj1 [E [V [J F]]]]]];
      unfold ESim; cbn [eval]; rewrite E.
    - destruct (kind_eqb from to); [exact J | apply fix_number_throw; exact J].
    - destruct (val_ok_int _ _ V) as [z [-> Hz]]. split. apply norm_in_range. exists sj1. split; auto.
      apply conv_sim; assumption.
  Qed.

  Lemma sim_and : forall a b, SimAt a -> SimAt b -> SimAt (EAnd a b).
  Proof.
    intros a b IHa IHb t st je st' sj Hwf Hc Hr HI. wf_if Hwf W. destruct W as [[Wa Wb] _].
    apply opt_ty_is_spec in Wa, Wb.
    cbn [cexpr] in Hc. destruct (cexpr st a) as [ja st1] eqn:Ca. destruct (cexpr st1 b) as [jb st2] eqn:Cb.
    inversion Hc; subst; clear Hc.
    destruct (sim_two g sg a b _ _ _ _ _ _ _ sj IHa IHb Wa Wb Ca Cb Hr HI)
      as [[E J] | [va [sj1 [E [V [J [F R]]]]]]]; unfold ESim; cbn [eval]; rewrite E.
    - cbn [jeval]. rewrite J. reflexivity.
    - destruct (val_ok_bool _ V) as [ba ->]. destruct ba.
      + destruct R as [[E2 J2] | [vb [sj2 [E2 [V2 [J2 [F2 F02]]]]]]]; rewrite E2.
        * cbn [jeval]. rewrite J. cbn [inj]. exact J2.
        * destruct (val_ok_bool _ V2) as [bb ->]. split. exact Logic.I. exists sj2. split; auto.
          cbn [jeval]. rewrite J. cbn [inj]. exact J2.
      + split. exact Logic.I. exists sj1. split; auto. cbn [jeval]. rewrite J. reflexivity.
  Qed.

  Lemma sim_or : forall a b, SimAt a -> SimAt b -> SimAt (EOr a b).
  Proof.
    intros a b IHa IHb t st je st' sj Hwf Hc Hr HI. wf_if Hwf W. destruct W as [[Wa Wb] _].
    apply opt_ty_is_spec in Wa, Wb.
    cbn [cexpr] in Hc. destruct (cexpr st a) as [ja st1] eqn:Ca. destruct (cexpr st1 b) as [jb st2] eqn:Cb.
    inversion Hc; subst; clear Hc.
    destruct (sim_two g sg a b _ _ _ _ _ _ _ sj IHa IHb Wa Wb Ca Cb Hr HI)
      as [[E J] | [va [sj1 [E [V [J [F R]]]]]]]; unfold ESim; cbn [eval]; rewrite E.
    - cbn [jeval]. rewrite J. reflexivity.
    - destruct (val_ok_bool _ V) as [ba ->]. destruct ba.
      + split. exact Logic.I. exists sj1. split; auto. cbn [jeval]. rewrite J. reflexivity.
      + destruct R as [[E2 J2] | [vb [sj2 [E2 [V2 [J2 [F2 F02]]]]]]]; rewrite E2.
        * cbn [jeval]. rewrite J. cbn [inj]. exact J2.
        * destruct (val_ok_bool _ V2) as [bb ->]. split. exact Logic.I. exists sj2. split; auto.
          cbn [jeval]. rewrite J. cbn [inj]. exact J2.
  Qed.

  Lemma sim_cmp : forall t0 op a b, SimAt a -> SimAt b -> SimAt (ECmp t0 op a b).
  Proof.
    intros t0 op a b IHa IHb t st je st' sj Hwf Hc Hr HI. wf_if Hwf W. destruct W as [[[Wa Wb] Wop] _].
    apply opt_ty_is_spec in Wa, Wb.
    cbn [cexpr] in Hc. destruct (cexpr st a) as [ja st1] eqn:Ca. destruct (cexpr st1 b) as [jb st2] eqn:Cb.
    inversion Hc; subst; clear Hc.
    destruct (sim_two g sg a b _ _ _ _ _ _ _ sj IHa IHb Wa Wb Ca Cb Hr HI)
      as [[E J] | [va [sj1 [E [V [J [F R]]]]]]]; unfold ESim; cbn [eval]; rewrite E.
    - destruct op; cbn [jeval]; rewrite J; reflexivity.
    - destruct R as [[E2 J2] | [vb [sj2 [E2 [V2 [J2 [F2 F02]]]]]]]; rewrite E2.
      + destruct op; cbn [jeval]; rewrite J, ?J2; cbn [jeval]; rewrite ?J2; reflexivity.
      + destruct t0 as [k|].
        * destruct (val_ok_int _ _ V) as [za [-> Hza]]. destruct (val_ok_int _ _ V2) as [zb [-> Hzb]].
          split. exact Logic.I. exists sj2. split; auto.
          destruct op; cbn [jeval inj]; rewrite J; cbn [jeval inj]; rewrite J2; reflexivity.
        * destruct (val_ok_bool _ V) as [ba ->]. destruct (val_ok_bool _ V2) as [bb ->].
          destruct op; try discriminate; (split; [exact Logic.I|]); exists sj2; (split; [|assumption]);
            cbn [jeval inj]; rewrite J; cbn [jeval inj]; rewrite J2; reflexivity.
  Qed.
End Main.
