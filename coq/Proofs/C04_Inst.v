(* C04 — lemmas about the model of the instance collector (Model/C04_Inst.v). *)
From Coq Require Import List NArith Bool Arith Lia.
From Verif Require Import Model.C04_Inst.
Import ListNotations.

(* ------------------------------------------------------------------ induction on type terms *)
Section TyInd.
  Variable P : ty -> Prop.
  Hypothesis Hb : forall b, P (TBase b).
  Hypothesis Hc : forall c l, Forall P l -> P (TCon c l).
  Hypothesis Hn : forall o l, Forall P l -> P (TNamed o l).
  Hypothesis Ho : forall i, P (TOwn i).
  Hypothesis Hv : forall i, P (TNestV i).
  Hypothesis Hf : forall i, P (TFree i).
  Fixpoint ty_ind' (t : ty) : P t :=
    let fix go (l : list ty) : Forall P l :=
      match l with [] => Forall_nil P | x :: r => Forall_cons x (ty_ind' x) (go r) end in
    match t with
    | TBase b => Hb b
    | TCon c l => Hc c l (go l)
    | TNamed o l => Hn o l (go l)
    | TOwn i => Ho i
    | TNestV i => Hv i
    | TFree i => Hf i
    end.
End TyInd.

(* ------------------------------------------------------------------ decidable equality is equality *)
Lemma ty_eqb_spec : forall a b, ty_eqb a b = true <-> a = b.
Proof.
  induction a using ty_ind'; intro t2; destruct t2; cbn [ty_eqb]; try (split; intro E0; discriminate E0).
  - rewrite N.eqb_eq. split; [intros ->; reflexivity | intro E; inversion E; reflexivity].
  - rewrite andb_true_iff, N.eqb_eq.
    assert (L : forall m, (fix list_eqb (l1 l2 : list ty) {struct l1} : bool :=
                match l1 with
                | [] => match l2 with [] => true | _ :: _ => false end
                | x :: r1 => match l2 with [] => false | y :: r2 => ty_eqb x y && list_eqb r1 r2 end
                end) l m = true <-> l = m).
    { induction H; destruct m; try (split; intro E0; discriminate E0); [tauto|].
      rewrite andb_true_iff, H, IHForall. split; [intros [-> ->]; reflexivity | intro E; inversion E; auto]. }
    rewrite L. split; [intros [-> ->]; reflexivity | intro E; inversion E; auto].
  - rewrite andb_true_iff, N.eqb_eq.
    assert (L : forall m, (fix list_eqb (l1 l2 : list ty) {struct l1} : bool :=
                match l1 with
                | [] => match l2 with [] => true | _ :: _ => false end
                | x :: r1 => match l2 with [] => false | y :: r2 => ty_eqb x y && list_eqb r1 r2 end
                end) l m = true <-> l = m).
    { induction H; destruct m; try (split; intro E0; discriminate E0); [tauto|].
      rewrite andb_true_iff, H, IHForall. split; [intros [-> ->]; reflexivity | intro E; inversion E; auto]. }
    rewrite L. split; [intros [-> ->]; reflexivity | intro E; inversion E; auto].
  - rewrite Nat.eqb_eq. split; [intros ->; reflexivity | intro E; inversion E; reflexivity].
  - rewrite Nat.eqb_eq. split; [intros ->; reflexivity | intro E; inversion E; reflexivity].
  - rewrite N.eqb_eq. split; [intros ->; reflexivity | intro E; inversion E; reflexivity].
Qed.

Lemma tys_eqb_spec : forall l m, tys_eqb l m = true <-> l = m.
Proof.
  induction l; destruct m; cbn [tys_eqb]; try (split; intro E0; discriminate E0); [tauto|].
  rewrite andb_true_iff, ty_eqb_spec, IHl. split; [intros [-> ->]; reflexivity | intro E; inversion E; auto].
Qed.

Lemma inst_eqb_spec : forall a b, inst_eqb a b = true <-> a = b.
Proof.
  intros [o1 a1 n1] [o2 a2 n2]. unfold inst_eqb; simpl.
  rewrite !andb_true_iff, N.eqb_eq, !tys_eqb_spec.
  split; [intros [[-> ->] ->]; reflexivity | intro E; inversion E; auto].
Qed.

Lemma mem_inst_spec : forall i l, mem_inst i l = true <-> In i l.
Proof.
  intros. unfold mem_inst. rewrite existsb_exists. split.
  - intros [x [Hx E]]. apply inst_eqb_spec in E. subst; auto.
  - intro H. exists i. split; auto. apply inst_eqb_spec; reflexivity.
Qed.

(* ------------------------------------------------------------------ substitution composes *)
Fixpoint closed (t : ty) : bool :=
  match t with
  | TBase _ => true
  | TCon _ l | TNamed _ l => forallb closed l
  | _ => false
  end.

(* substituting only the nest parameters, then only the own ones *)
Definition subst_nest (nest : list ty) := subst [] nest.
Definition subst_own (own : list ty) := subst own [].

Lemma subst_closed_id : forall own nest t, closed t = true -> subst own nest t = t.
Proof.
  intros own nest. induction t using ty_ind'; simpl; intro C; try discriminate; auto.
  - f_equal. rewrite forallb_forall in C. induction H; simpl; auto.
    f_equal; [apply H; apply C; left; auto | apply IHForall; intros; apply C; right; auto].
  - f_equal. rewrite forallb_forall in C. induction H; simpl; auto.
    f_equal; [apply H; apply C; left; auto | apply IHForall; intros; apply C; right; auto].
Qed.

Lemma nth_own_nil : forall i, nth i (@nil ty) (TOwn i) = TOwn i.
Proof. destruct i; reflexivity. Qed.
Lemma nth_nest_nil : forall i, nth i (@nil ty) (TNestV i) = TNestV i.
Proof. destruct i; reflexivity. Qed.

Lemma subst_compose_lem : forall own nest t,
  forallb closed nest = true ->
  subst_own own (subst_nest nest t) = subst own nest t.
Proof.
  intros own nest t Hc. unfold subst_own, subst_nest.
  induction t using ty_ind'; simpl; auto.
  - f_equal. rewrite map_map. induction H; simpl; auto. f_equal; auto.
  - f_equal. rewrite map_map. induction H; simpl; auto. f_equal; auto.
  - destruct i; reflexivity.
  - destruct (Nat.lt_ge_cases i (length nest)) as [L | L].
    + apply subst_closed_id. rewrite forallb_forall in Hc. apply Hc. apply nth_In; auto.
    + rewrite !nth_overflow by auto. destruct i; reflexivity.
Qed.

(* the other order, when the own arguments are closed *)
Lemma subst_compose_lem' : forall own nest t,
  forallb closed own = true ->
  subst_nest nest (subst_own own t) = subst own nest t.
Proof.
  intros own nest t Hc. unfold subst_own, subst_nest.
  induction t using ty_ind'; simpl; auto.
  - f_equal. rewrite map_map. induction H; simpl; auto. f_equal; auto.
  - f_equal. rewrite map_map. induction H; simpl; auto. f_equal; auto.
  - destruct (Nat.lt_ge_cases i (length own)) as [L | L].
    + apply subst_closed_id. rewrite forallb_forall in Hc. apply Hc. apply nth_In; auto.
    + rewrite !nth_overflow by auto. destruct i; reflexivity.
  - destruct i; reflexivity.
Qed.

Lemma NoDup_snoc : forall (A : Type) (l : list A) x, NoDup l -> ~ In x l -> NoDup (l ++ [x]).
Proof.
  induction l; simpl; intros x ND NI; [constructor; auto; constructor|].
  inversion ND; subst. constructor.
  - intro Hin. apply in_app_or in Hin. destruct Hin as [Hin | [Hin | []]]; [auto | subst; apply NI; left; auto].
  - apply IHl; auto.
Qed.

(* ------------------------------------------------------------------ states *)
Definition vals_k (st : state) (k : nat) : list inst := s_vals (nth k st empty_set).
Definition cur_k (st : state) (k : nat) : nat := s_cur (nth k st empty_set).
Definition In_st (i : inst) (st : state) : Prop := exists k, k < length st /\ In i (vals_k st k).

Lemma In_st_all_vals : forall i st, In i (all_vals st) <-> In_st i st.
Proof.
  intros. unfold all_vals, In_st, vals_k. rewrite in_flat_map. split.
  - intros [s [Hs Hi]]. destruct (In_nth _ _ empty_set Hs) as [k [Hk E]]. exists k. rewrite E. auto.
  - intros [k [Hk Hi]]. exists (nth k st empty_set). split; auto. apply nth_In; auto.
Qed.

Lemma upd_set_length : forall st k f, length (upd_set st k f) = length st.
Proof. induction st; destruct k; simpl; auto. Qed.

Lemma nth_upd_set : forall st k f j,
  nth j (upd_set st k f) empty_set =
  if (j =? k) && (k <? length st) then f (nth k st empty_set) else nth j st empty_set.
Proof.
  induction st; intros k f j.
  - simpl. rewrite andb_false_r. destruct k; reflexivity.
  - destruct k, j; simpl; auto.
    rewrite IHst. reflexivity.
Qed.

(* strong extension: same cursors, lists only grow at the end *)
Definition ext (st st' : state) : Prop :=
  length st' = length st /\
  forall k, cur_k st' k = cur_k st k /\ exists suf, vals_k st' k = vals_k st k ++ suf.

Lemma ext_refl : forall st, ext st st.
Proof. intros; split; auto. intros; split; auto. exists []. rewrite app_nil_r; auto. Qed.

Lemma ext_trans : forall a b c, ext a b -> ext b c -> ext a c.
Proof.
  intros a b c [L1 H1] [L2 H2]. split; [congruence|]. intro k.
  destruct (H1 k) as [C1 [s1 E1]], (H2 k) as [C2 [s2 E2]]. split; [congruence|].
  exists (s1 ++ s2). rewrite E2, E1, app_assoc. reflexivity.
Qed.

Lemma ext_In_st : forall st st' i, ext st st' -> In_st i st -> In_st i st'.
Proof.
  intros st st' i [L H] [k [Hk Hi]]. exists k. split; [lia|].
  destruct (H k) as [_ [s E]]. rewrite E. apply in_or_app; auto.
Qed.

Lemma all_exhausted_spec0 : forall st, all_exhausted st = true -> forall k, k < length st -> length (vals_k st k) <= cur_k st k.
Proof.
  intros st H k Hk. unfold all_exhausted in H. rewrite forallb_forall in H.
  specialize (H (nth k st empty_set) (nth_In _ _ Hk)). unfold exhausted in H. apply Nat.leb_le in H. exact H.
Qed.

Section Prog.
  Variable p : prog.

  Definition pkg_of (i : inst) : nat := N.to_nat (o_pkg (get_obj p (i_obj i))).

  Definition wf_prog : Prop :=
    0 < p_npkg p /\ Forall (fun o => N.to_nat (o_pkg o) < p_npkg p) (p_objs p).

  Lemma pkg_of_lt : wf_prog -> forall i, pkg_of i < p_npkg p.
  Proof.
    intros [H0 H] i. unfold pkg_of, get_obj.
    destruct (Nat.lt_ge_cases (N.to_nat (i_obj i)) (length (p_objs p))) as [L | L].
    - rewrite Forall_forall in H. apply H. apply nth_In; auto.
    - rewrite nth_overflow by auto. simpl. exact H0.
  Qed.

  Lemma add_one_ext : forall st i, ext st (add_one p st i).
  Proof.
    intros. unfold add_one. destruct (mem_inst i _); [apply ext_refl|].
    split; [apply upd_set_length|]. intro k. unfold cur_k, vals_k. rewrite nth_upd_set.
    destruct ((k =? _) && _) eqn:E; simpl.
    - apply andb_true_iff in E. destruct E as [E _]. apply Nat.eqb_eq in E. subst. split; auto. eexists; reflexivity.
    - split; auto. exists []. rewrite app_nil_r; auto.
  Qed.

  Lemma add_one_in : forall st i, pkg_of i < length st -> In_st i (add_one p st i).
  Proof.
    intros st i L. unfold add_one. fold (pkg_of i). destruct (mem_inst i _) eqn:M.
    - apply mem_inst_spec in M. exists (pkg_of i). split; auto.
    - exists (pkg_of i). rewrite upd_set_length. split; auto. unfold vals_k. rewrite nth_upd_set.
      rewrite Nat.eqb_refl. simpl. apply Nat.ltb_lt in L. rewrite L. simpl. apply in_or_app. right. left. auto.
  Qed.

  Lemma add_one_new : forall st i j, In_st j (add_one p st i) -> In_st j st \/ j = i.
  Proof.
    intros st i j. unfold add_one. fold (pkg_of i). destruct (mem_inst i _); auto.
    intros [k [Hk Hi]]. rewrite upd_set_length in Hk. unfold vals_k in Hi. rewrite nth_upd_set in Hi.
    destruct ((k =? _) && _) eqn:E.
    - apply andb_true_iff in E. destruct E as [E _]. apply Nat.eqb_eq in E. subst. simpl in Hi.
      apply in_app_or in Hi. destruct Hi as [Hi | [Hi | []]]; auto. left. exists (pkg_of i). auto.
    - left. exists k. auto.
  Qed.

  Lemma fold_ext : forall (A : Type) (f : state -> A -> state) l st,
    (forall s a, ext s (f s a)) -> ext st (fold_left f l st).
  Proof.
    induction l; simpl; intros; [apply ext_refl|]. eapply ext_trans; [apply H | apply IHl; auto].
  Qed.

  Lemma add_inst_ext : forall st i, ext st (add_inst p st i).
  Proof. intros. unfold add_inst. apply fold_ext. apply add_one_ext. Qed.

  Lemma step_ext : forall c st it, ext st (step p c st it).
  Proof. intros. unfold step. destruct (produced p c it); [apply add_inst_ext | apply ext_refl]. Qed.

  Lemma scan_ext : forall st root, ext st (scan p st root).
  Proof. intros. unfold scan. apply fold_ext. intros; apply step_ext. Qed.

  Lemma fold_add_one_in : forall l st x, wf_prog -> length st = p_npkg p -> In x l -> In_st x (fold_left (add_one p) l st).
  Proof.
    induction l; simpl; intros st x W L Hin; [destruct Hin|]. destruct Hin as [E | Hx].
    - subst. eapply ext_In_st; [apply fold_ext; apply add_one_ext|]. apply add_one_in. rewrite L. apply pkg_of_lt; auto.
    - apply IHl; auto. destruct (add_one_ext st a) as [E _]. congruence.
  Qed.

  Lemma fold_add_one_new : forall l st x, In_st x (fold_left (add_one p) l st) -> In_st x st \/ In x l.
  Proof.
    induction l; simpl; intros; auto. apply IHl in H. destruct H; auto. apply add_one_new in H. destruct H; auto.
  Qed.

  (* ---------------------------------------------------------------- reachability = the least fixpoint *)
  Inductive Reach : inst -> Prop :=
  | R_seed : forall it j j', In it (p_seed p) -> produced p None it = Some j -> In j' (with_methods p j) -> Reach j'
  | R_step : forall i it j j', Reach i -> In it (o_tmpl (get_obj p (i_obj i))) ->
                               produced p (Some i) it = Some j -> In j' (with_methods p j) -> Reach j'.

  (* a set is closed when it contains the seed instances and everything its members' templates produce *)
  Definition closed_set (S : inst -> Prop) : Prop :=
    (forall it j j', In it (p_seed p) -> produced p None it = Some j -> In j' (with_methods p j) -> S j') /\
    (forall i it j j', S i -> In it (o_tmpl (get_obj p (i_obj i))) -> produced p (Some i) it = Some j ->
                       In j' (with_methods p j) -> S j').

  Lemma Reach_closed : closed_set Reach.
  Proof. split; intros; [eapply R_seed | eapply R_step]; eauto. Qed.

  Lemma Reach_least : forall S, closed_set S -> forall i, Reach i -> S i.
  Proof. intros S [H1 H2] i R. induction R; [eapply H1 | eapply H2]; eauto. Qed.

  Definition sound (st : state) : Prop := forall i, In_st i st -> Reach i.

  Definition ok_ctx (c : option inst) (it : item) : Prop :=
    forall j j', produced p c it = Some j -> In j' (with_methods p j) -> Reach j'.

  Lemma step_sound : forall c st it, ok_ctx c it -> sound st -> sound (step p c st it).
  Proof.
    intros c st it OK S. unfold step. destruct (produced p c it) as [j|] eqn:E; auto.
    intros i Hi. unfold add_inst in Hi. apply fold_add_one_new in Hi. destruct Hi; auto. eapply OK; eauto.
  Qed.

  Lemma fold_step_sound : forall c items st, (forall it, In it items -> ok_ctx c it) -> sound st ->
    sound (fold_left (step p c) items st).
  Proof.
    induction items; simpl; intros; auto. apply IHitems; [intros; apply H; auto|]. apply step_sound; auto.
  Qed.

  Lemma fold_step_cover : forall c items st, wf_prog -> length st = p_npkg p ->
    forall it j j', In it items -> produced p c it = Some j -> In j' (with_methods p j) ->
    In_st j' (fold_left (step p c) items st).
  Proof.
    induction items; simpl; intros st W L it j j' Hin0 Pr Hj; [destruct Hin0|]. destruct Hin0 as [E | Hin].
    - subst. eapply ext_In_st; [apply fold_ext; intros; apply step_ext|].
      unfold step. rewrite Pr. unfold add_inst. apply fold_add_one_in; auto.
    - eapply IHitems; eauto. destruct (step_ext c st a) as [E _]. congruence.
  Qed.

  (* ---------------------------------------------------------------- the invariant of Finish *)
  Definition closed_processed (st : state) : Prop :=
    forall k n i, k < length st -> n < cur_k st k -> nth_error (vals_k st k) n = Some i ->
    forall it j j', In it (o_tmpl (get_obj p (i_obj i))) -> produced p (Some i) it = Some j ->
                    In j' (with_methods p j) -> In_st j' st.

  Definition seeds_in (st : state) : Prop :=
    forall it j j', In it (p_seed p) -> produced p None it = Some j -> In j' (with_methods p j) -> In_st j' st.

  Definition Inv (st : state) : Prop :=
    length st = p_npkg p /\ sound st /\ seeds_in st /\ closed_processed st /\
    (forall k, cur_k st k <= length (vals_k st k)).

  Lemma nth_repeat_empty : forall n k, nth k (repeat empty_set n) empty_set = empty_set.
  Proof. induction n; destruct k; simpl; auto. Qed.

  Lemma seed_state_Inv : wf_prog -> Inv (seed_state p).
  Proof.
    intro W. unfold seed_state.
    assert (L0 : length (repeat empty_set (p_npkg p)) = p_npkg p) by apply repeat_length.
    assert (E := fold_ext _ (step p None) (p_seed p) (repeat empty_set (p_npkg p)) (step_ext None)).
    split; [destruct E; congruence|]. split; [|split; [|split]].
    - apply fold_step_sound.
      + intros it Hit j j' Pr Hj. eapply R_seed; eauto.
      + intros i [k [Hk Hi]]. unfold vals_k in Hi. rewrite nth_repeat_empty in Hi. destruct Hi.
    - intros it j j' Hit Pr Hj. eapply fold_step_cover; eauto.
    - intros k n i Hk Hn. destruct E as [_ E]. destruct (E k) as [C _]. rewrite C in Hn.
      unfold cur_k in Hn. rewrite nth_repeat_empty in Hn. simpl in Hn. lia.
    - intro k. destruct E as [_ E]. destruct (E k) as [C _]. rewrite C. unfold cur_k. rewrite nth_repeat_empty. simpl. lia.
  Qed.

  Lemma nth_error_app_some : forall (A : Type) (l s : list A) n x, nth_error l n = Some x -> nth_error (l ++ s) n = Some x.
  Proof. intros. rewrite nth_error_app1; auto. apply nth_error_Some. congruence. Qed.

  Lemma propagate_Inv : wf_prog -> forall fuel k st, Inv st -> Inv (propagate p fuel k st).
  Proof.
    intro W. induction fuel; simpl; intros k st I; auto.
    destruct (nth_error (s_vals (get_set st k)) (s_cur (get_set st k))) as [root|] eqn:E; auto.
    apply IHfuel. clear IHfuel.
    destruct I as [L [Snd [SD [CP CL]]]].
    unfold get_set in E. fold (vals_k st k) in E. fold (cur_k st k) in E.
    assert (Hcur : cur_k st k < length (vals_k st k)) by (apply nth_error_Some; congruence).
    assert (Hk : k < length st).
    { destruct (Nat.lt_ge_cases k (length st)); auto. unfold vals_k in Hcur. rewrite nth_overflow in Hcur by auto. simpl in Hcur. lia. }
    set (st1 := upd_set st k (fun s => mkSet (s_vals s) (S (s_cur s)))).
    assert (V1 : forall k', vals_k st1 k' = vals_k st k').
    { intro k'. unfold vals_k, st1. rewrite nth_upd_set. destruct ((k' =? k) && _) eqn:B; auto.
      apply andb_true_iff in B. destruct B as [B _]. apply Nat.eqb_eq in B. subst. reflexivity. }
    assert (C1 : forall k', cur_k st1 k' = if k' =? k then S (cur_k st k) else cur_k st k').
    { intro k'. unfold cur_k, st1. rewrite nth_upd_set. apply Nat.ltb_lt in Hk. rewrite Hk, andb_true_r.
      destruct (k' =? k) eqn:B; auto. }
    assert (L1 : length st1 = length st) by apply upd_set_length.
    assert (In1 : forall i, In_st i st1 <-> In_st i st).
    { intro i. unfold In_st. rewrite L1. split; intros [k' [A B]]; exists k'; [rewrite V1 in B | rewrite V1]; auto. }
    assert (Rroot : Reach root).
    { apply Snd. exists k. split; auto. eapply nth_error_In; eauto. }
    assert (X := scan_ext st1 root). set (st2 := scan p st1 root) in *.
    destruct X as [L2 X].
    assert (Mono : forall i, In_st i st -> In_st i st2).
    { intros i Hi. eapply ext_In_st; [split; eauto|]. apply In1; auto. }
    split; [congruence|]. split; [|split; [|split]].
    - unfold st2, scan. apply fold_step_sound.
      + intros it Hit j j' Pr Hj. eapply R_step; eauto.
      + intros i Hi. apply Snd. apply In1; auto.
    - intros it j j' Hit Pr Hj. apply Mono. eapply SD; eauto.
    - intros k' n i Hk' Hn Hnth it j j' Hit Pr Hj.
      destruct (X k') as [C2 [suf V2]]. rewrite C2, C1 in Hn.
      assert (Old : n < cur_k st k' -> In_st j' st2).
      { intro Hlt. apply Mono. eapply (CP k' n i); eauto; [congruence|].
        rewrite V2, V1 in Hnth. rewrite nth_error_app1 in Hnth; auto. specialize (CL k'). lia. }
      destruct (k' =? k) eqn:B; [|auto].
      apply Nat.eqb_eq in B. subst k'.
      destruct (Nat.eq_dec n (cur_k st k)) as [En | Nn]; [|apply Old; lia].
      subst n. rewrite V2, V1 in Hnth. rewrite (nth_error_app_some _ _ _ _ _ E) in Hnth. inversion Hnth; subst i.
      unfold st2, scan. eapply fold_step_cover; eauto. congruence.
    - intro k'. destruct (X k') as [C2 [suf V2]]. rewrite C2, V2, C1, V1, app_length. specialize (CL k').
      destruct (k' =? k) eqn:B; [|lia]. apply Nat.eqb_eq in B. subst. lia.
  Qed.

  (* once every set is exhausted, visiting a package changes nothing *)
  Lemma propagate_exhausted_id : forall fuel k st, all_exhausted st = true -> propagate p fuel k st = st.
  Proof.
    intros fuel k st EX. destruct fuel; simpl; auto.
    unfold get_set. destruct (nth_error _ _) eqn:E; auto. exfalso.
    assert (Hlt : s_cur (nth k st empty_set) < length (s_vals (nth k st empty_set))) by (apply nth_error_Some; congruence).
    destruct (Nat.lt_ge_cases k (length st)) as [Hk | Hk].
    - pose proof (all_exhausted_spec0 st EX k Hk). unfold vals_k, cur_k in H. lia.
    - rewrite nth_overflow in Hlt by auto. simpl in Hlt. lia.
  Qed.

  Lemma collect_Inv : wf_prog -> forall fuel sched, Inv (collect p fuel sched).
  Proof.
    intros W fuel sched. unfold collect. generalize (seed_state_Inv W). generalize (seed_state p).
    induction sched; simpl; intros; auto. apply IHsched. apply propagate_Inv; auto.
  Qed.

  Lemma all_exhausted_spec : forall st, all_exhausted st = true -> forall k, k < length st -> length (vals_k st k) <= cur_k st k.
  Proof.
    intros st H k Hk. unfold all_exhausted in H. rewrite forallb_forall in H.
    specialize (H (nth k st empty_set) (nth_In _ _ Hk)). unfold exhausted in H. apply Nat.leb_le in H. exact H.
  Qed.

  Theorem Inv_exhausted_lfp : forall st, Inv st -> all_exhausted st = true -> forall i, In_st i st <-> Reach i.
  Proof.
    intros st [L [S [SD [CP CL]]]] EX i. split; [apply S|].
    intro R. induction R.
    - eapply SD; eauto.
    - destruct IHR as [k [Hk Hi]]. destruct (In_nth_error _ _ Hi) as [n Hn].
      eapply (CP k n i); eauto.
      assert (n < length (vals_k st k)) by (apply nth_error_Some; congruence).
      pose proof (all_exhausted_spec st EX k Hk). lia.
  Qed.

  Theorem collect_lfp_lem : wf_prog -> forall fuel sched,
    all_exhausted (collect p fuel sched) = true ->
    forall i, In i (all_vals (collect p fuel sched)) <-> Reach i.
  Proof.
    intros W fuel sched EX i. rewrite In_st_all_vals. apply Inv_exhausted_lfp; auto. apply collect_Inv; auto.
  Qed.

  Theorem collect_set_order_independent_lem : wf_prog -> forall f1 s1 f2 s2,
    all_exhausted (collect p f1 s1) = true -> all_exhausted (collect p f2 s2) = true ->
    forall i, In i (all_vals (collect p f1 s1)) <-> In i (all_vals (collect p f2 s2)).
  Proof. intros. rewrite !collect_lfp_lem; auto. tauto. Qed.

  (* ---------------------------------------------------------------- ids *)
  Lemma index_of_nth : forall i l n, index_of i l = Some n -> nth_error l n = Some i.
  Proof.
    induction l; simpl; intros n H; [discriminate|].
    destruct (inst_eqb i a) eqn:E.
    - inversion H; subst. apply inst_eqb_spec in E. subst. reflexivity.
    - destruct (index_of i l); simpl in H; [|discriminate]. inversion H; subst. simpl. auto.
  Qed.

  Lemma index_of_In : forall i l, In i l -> exists n, index_of i l = Some n.
  Proof.
    induction l; simpl; intros Hin; [destruct Hin|]. destruct Hin as [E | H].
    - subst. assert (inst_eqb i i = true) by (apply inst_eqb_spec; auto). rewrite H. eauto.
    - destruct (inst_eqb i a); eauto. destruct (IHl H) as [n ->]. simpl; eauto.
  Qed.

  Lemma index_of_NoDup : forall l n i, NoDup l -> nth_error l n = Some i -> index_of i l = Some n.
  Proof.
    induction l; intros n i ND H; [destruct n; discriminate|].
    inversion ND; subst. destruct n; simpl in *.
    - inversion H; subst. assert (inst_eqb i i = true) by (apply inst_eqb_spec; auto). rewrite H0. auto.
    - destruct (inst_eqb i a) eqn:E.
      + apply inst_eqb_spec in E. subst. exfalso. apply H2. eapply nth_error_In; eauto.
      + rewrite (IHl n i); auto.
  Qed.

  (* ids of instances of the same package are injective, in any state *)
  Theorem id_injective_lem : forall st i j n,
    pkg_of i = pkg_of j -> inst_id p st i = Some n -> inst_id p st j = Some n -> i = j.
  Proof.
    unfold inst_id. intros st i j n E Hi Hj. fold (pkg_of i) in Hi. fold (pkg_of j) in Hj. rewrite E in Hi.
    apply index_of_nth in Hi. apply index_of_nth in Hj. congruence.
  Qed.

  (* every list holds instances of its own package only, without repetition *)
  Definition placed (st : state) : Prop :=
    forall k, k < length st -> NoDup (vals_k st k) /\ forall i, In i (vals_k st k) -> pkg_of i = k.

  Lemma add_one_placed : forall st i, placed st -> placed (add_one p st i).
  Proof.
    intros st i Pl. unfold add_one. fold (pkg_of i). destruct (mem_inst i _) eqn:M; auto.
    intros k Hk. rewrite upd_set_length in Hk. unfold vals_k. rewrite nth_upd_set.
    destruct ((k =? _) && _) eqn:B; [|apply Pl; auto].
    apply andb_true_iff in B. destruct B as [B _]. apply Nat.eqb_eq in B. subst k. simpl.
    destruct (Pl _ Hk) as [ND PK]. split.
    - apply NoDup_snoc; auto. intro Hin. apply mem_inst_spec in Hin. unfold get_set in M. congruence.
    - intros x Hx. apply in_app_or in Hx. destruct Hx as [Hx | [Hx | []]]; [apply PK; auto | subst; auto].
  Qed.

  Lemma fold_placed : forall (A : Type) (f : state -> A -> state) l st,
    (forall s a, placed s -> placed (f s a)) -> placed st -> placed (fold_left f l st).
  Proof. induction l; simpl; intros; auto. Qed.

  Lemma step_placed : forall c st it, placed st -> placed (step p c st it).
  Proof.
    intros. unfold step. destruct (produced p c it); auto. unfold add_inst. apply fold_placed; auto.
    intros; apply add_one_placed; auto.
  Qed.

  Lemma propagate_placed : forall fuel k st, placed st -> placed (propagate p fuel k st).
  Proof.
    induction fuel; simpl; intros k st Pl; auto.
    destruct (nth_error _ _); auto. apply IHfuel. unfold scan. apply fold_placed; [intros; apply step_placed; auto|].
    intros k' Hk'. rewrite upd_set_length in Hk'. unfold vals_k. rewrite nth_upd_set.
    destruct ((k' =? k) && _) eqn:B; [|apply Pl; auto].
    apply andb_true_iff in B. destruct B as [B _]. apply Nat.eqb_eq in B. subst. simpl. apply Pl; auto.
  Qed.

  Lemma collect_placed : forall fuel sched, placed (collect p fuel sched).
  Proof.
    intros. unfold collect.
    assert (P0 : placed (seed_state p)).
    { unfold seed_state. apply fold_placed; [intros; apply step_placed; auto|].
      intros k Hk. unfold vals_k. rewrite nth_repeat_empty. simpl. split; [constructor | intros i []]. }
    revert P0. generalize (seed_state p). induction sched; simpl; intros; auto.
    apply IHsched. apply propagate_placed; auto.
  Qed.

  (* InstanceSet.ID(values[n]) = n *)
  Theorem id_position_lem : forall st k n i, placed st -> k < length st ->
    nth_error (vals_k st k) n = Some i -> inst_id p st i = Some n.
  Proof.
    intros st k n i Pl Hk Hn. destruct (Pl k Hk) as [ND PK].
    unfold inst_id. fold (pkg_of i). rewrite (PK i (nth_error_In _ _ Hn)). apply index_of_NoDup; auto.
  Qed.

  Theorem id_total_lem : forall st i, placed st -> In_st i st -> exists n, inst_id p st i = Some n.
  Proof.
    intros st i Pl [k [Hk Hi]]. destruct (Pl k Hk) as [ND PK].
    unfold inst_id. fold (pkg_of i). rewrite (PK i Hi). apply index_of_In; auto.
  Qed.
End Prog.

(* ------------------------------------------------------------------ the intended semantics: an identifier is
   skipped only when a type parameter is really left in its type arguments (no "lazy underlying" rule) *)
Definition produced_ideal (p : prog) (c : option inst) (it : item) : option inst :=
  match it with
  | RInst t es nested =>
      let targs := map (subst (ctx_own c) (ctx_nest c)) es in
      let na := if nested then ctx_nest_args p c else [] in
      if forallb closed targs then Some (mkInst t targs na) else None
  | RDef t => match ctx_own c with [] => None | own => Some (mkInst t [] own) end
  end.

Inductive ReachIdeal (p : prog) : inst -> Prop :=
| RI_seed : forall it j j', In it (p_seed p) -> produced_ideal p None it = Some j -> In j' (with_methods p j) -> ReachIdeal p j'
| RI_step : forall i it j j', ReachIdeal p i -> In it (o_tmpl (get_obj p (i_obj i))) ->
                              produced_ideal p (Some i) it = Some j -> In j' (with_methods p j) -> ReachIdeal p j'.

Definition no_lazy (p : prog) : Prop := forall o, o_lazy (get_obj p o) = false.

Lemma is_generic_closed : forall p ign t, no_lazy p -> is_generic p ign t = negb (closed t).
Proof.
  intros p ign t NL. induction t using ty_ind'; simpl; auto.
  - induction H; simpl; auto. rewrite H, IHForall. destruct (closed x); reflexivity.
  - rewrite NL. simpl. rewrite orb_false_r. induction H; simpl; auto. rewrite H, IHForall. destruct (closed x); reflexivity.
Qed.

Lemma produced_ideal_eq : forall p c it, no_lazy p -> produced p c it = produced_ideal p c it.
Proof.
  intros p c it NL. destruct it; simpl; auto.
  assert (E : forall ign l, existsb (is_generic p ign) l = negb (forallb closed l)).
  { intros ign l. induction l; simpl; auto. rewrite IHl, is_generic_closed by auto. destruct (closed a); reflexivity. }
  rewrite E. destruct (forallb closed _); reflexivity.
Qed.

Lemma Reach_ideal_iff : forall p, no_lazy p -> forall i, Reach p i <-> ReachIdeal p i.
Proof.
  intros p NL i. split; intro R; induction R.
  - eapply RI_seed; eauto. rewrite <- produced_ideal_eq; auto.
  - eapply RI_step; eauto. rewrite <- produced_ideal_eq; auto.
  - eapply R_seed; eauto. rewrite produced_ideal_eq; auto.
  - eapply R_step; eauto. rewrite produced_ideal_eq; auto.
Qed.

Theorem collect_lfp_ideal_lem : forall p, wf_prog p -> no_lazy p -> forall fuel sched,
  all_exhausted (collect p fuel sched) = true ->
  forall i, In i (all_vals (collect p fuel sched)) <-> ReachIdeal p i.
Proof. intros. rewrite collect_lfp_lem; auto. apply Reach_ideal_iff; auto. Qed.

(* ------------------------------------------------------------------ witnesses *)
(* packages a (0), b (1), c (2); c.G[T]; a.A[T] uses c.G[[]T]; b.B[T] uses c.G[map[int]T]; main code: A[int], B[int] *)
Definition prog_ids : prog :=
  mkProg 3 [ mkObj 2 KFunc [] None false [];
             mkObj 0 KFunc [] None false [RInst 0 [TCon 0 [TOwn 0]] false];
             mkObj 1 KFunc [] None false [RInst 0 [TCon 2 [TOwn 0]] false] ]
         [RInst 1 [TBase 0] false; RInst 2 [TBase 0] false].

Lemma prog_ids_wf : wf_prog prog_ids.
Proof. split; [unfold prog_ids; simpl; lia|]. repeat constructor; simpl; lia. Qed.

Definition inst_ids : inst := mkInst 0 [TCon 0 [TBase 0]] [].
Lemma ids_order_dependent_lem :
  all_exhausted (collect prog_ids 10 [0; 1; 2]) = true /\
  all_exhausted (collect prog_ids 10 [1; 0; 2]) = true /\
  inst_id prog_ids (collect prog_ids 10 [0; 1; 2]) inst_ids = Some 0%nat /\
  inst_id prog_ids (collect prog_ids 10 [1; 0; 2]) inst_ids = Some 1%nat.
Proof. vm_compute. repeat split. Qed.

(* func G[T any](); func A[X any]() { type L struct{ x X }; G[L]() }; main: A[int]() *)
Definition prog_local : prog :=
  mkProg 1 [ mkObj 0 KFunc [] None false [];
             mkObj 0 KFunc [] None false [RDef 2; RInst 0 [TNamed 2 []] false];
             mkObj 0 KType [] (Some 1%N) true [] ]
         [RInst 1 [TBase 0] false].

Lemma prog_local_wf : wf_prog prog_local.
Proof. split; [unfold prog_local; simpl; lia|]. repeat constructor; simpl; lia. Qed.

Definition inst_local : inst := mkInst 0 [TNamed 2 []] [].
Lemma local_type_arg_dropped_lem :
  all_exhausted (collect prog_local 10 [0]) = true /\
  ReachIdeal prog_local inst_local /\
  ~ In inst_local (all_vals (collect prog_local 10 [0])).
Proof.
  split; [vm_compute; reflexivity|]. split.
  - eapply (RI_step prog_local (mkInst 1 [TBase 0] []) (RInst 0 [TNamed 2 []] false)).
    + eapply (RI_seed prog_local (RInst 1 [TBase 0] false)); [left; reflexivity | vm_compute; reflexivity | left; reflexivity].
    + right; left; reflexivity.
    + vm_compute; reflexivity.
    + left; reflexivity.
  - vm_compute. intros [H | [H | []]]; discriminate H.
Qed.
