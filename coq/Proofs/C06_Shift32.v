(* C06 — << and >> (variable and constant counts, any non-negative count) for the kinds of at most 32 bits *)
From Coq Require Import ZArith Znumtheory Bool List Lia ZifyBool.
From Verif Require Import Base.C06_JsNum Model.C06_Prelude64 Model.C06_Spec Gen.C06_Tables Model.C06_Templates
  Proofs.C06_Arith Proofs.C06_Fix Proofs.C06_Bits32.
Import ListNotations.
Local Open Scope Z_scope.

Lemma wrap_zero_mod : forall k z, z mod 2 ^ bits k = 0 -> wrap k z = 0.
Proof.
  intros k z H. rewrite (wrap_congr k z 0).
  - apply wrap_id. unfold in_range, kmin, kmax. pose proof (bits_pos k).
    assert (0 < 2 ^ (bits k - 1)) by (apply Z.pow_pos_nonneg; lia). assert (0 < 2 ^ bits k) by (apply Z.pow_pos_nonneg; lia).
    destruct (signed k); lia.
  - rewrite H. symmetry. apply Z.mod_0_l. apply Z.pow_nonzero; pose proof (bits_pos k); lia.
Qed.

Lemma shl_big_zero : forall k x n, is64 k = false -> 32 <= n -> wrap k (x * 2 ^ n) = 0.
Proof.
  intros k x n H Hn. apply wrap_zero_mod. pose proof (bits_le_32 k H).
  replace n with ((n - bits k) + bits k) by lia. rewrite Z.pow_add_r by lia. rewrite Z.mul_assoc. apply Z_mod_mult.
Qed.

Lemma shl32_wrap : forall k x n, is64 k = false -> 0 <= n < 32 -> wrap k (shl32 x n) = wrap k (x * 2 ^ n).
Proof.
  intros k x n H Hn. unfold shl32. rewrite cnt_small by assumption. pose proof (bits_le_32 k H).
  rewrite wrap_to_int32 by lia. apply wrap_congr.
  rewrite (Zmult_mod (to_int32 x)), (Zmult_mod x). rewrite to_int32_mod_bits by assumption. reflexivity.
Qed.

Lemma js_lt_fin : forall a b, js_lt (Fin a) (Fin b) = Some (a <? b).
Proof. reflexivity. Qed.

Lemma shl32_var_correct : forall k x n, is64 k = false -> 0 <= n ->
  shv32 k Shl (Fin x) (Fin n) = Ret (Fin (go_shift k Shl x n)).
Proof.
  intros k x n H Hn. cbn [shv32 go_shift]. rewrite js_lt_fin. destruct (Z.ltb_spec n 32); cbn [js_ite_num].
  - unfold js_shl, lift2; cbn [trunc_of]. rewrite fixnum_fin by assumption. rewrite shl32_wrap by (assumption || lia). reflexivity.
  - rewrite fixnum_fin by assumption. rewrite shl_big_zero by assumption. do 2 f_equal.
    apply wrap_id. unfold in_range, kmin, kmax. pose proof (bits_pos k).
    assert (0 < 2 ^ (bits k - 1)) by (apply Z.pow_pos_nonneg; lia). assert (0 < 2 ^ bits k) by (apply Z.pow_pos_nonneg; lia).
    destruct (signed k); lia.
Qed.

(* right shifts *)
Lemma shiftr_in_range : forall k x n, in_range k x -> 0 <= n -> in_range k (Z.shiftr x n).
Proof.
  intros k x n R Hn. rewrite Z.shiftr_div_pow2 by assumption.
  assert (P : 0 < 2 ^ n) by (apply Z.pow_pos_nonneg; lia).
  pose proof (Z.div_mod x (2 ^ n) ltac:(lia)) as D. pose proof (Z.mod_pos_bound x (2 ^ n) P) as B.
  unfold in_range in *. set (p := 2 ^ n) in *. set (q := x / p) in *. set (lo := kmin k) in *. set (hi := kmax k) in *.
  assert (lo <= 0) by (unfold lo, kmin; pose proof (bits_pos k); assert (0 < 2 ^ (bits k - 1)) by (apply Z.pow_pos_nonneg; lia); destruct (signed k); lia).
  assert (0 <= hi) by (unfold hi, kmax; pose proof (bits_pos k); assert (0 < 2 ^ (bits k - 1)) by (apply Z.pow_pos_nonneg; lia); assert (0 < 2 ^ bits k) by (apply Z.pow_pos_nonneg; lia); destruct (signed k); lia).
  clearbody p q lo hi. nia.
Qed.

Lemma shiftr_sat : forall x n, - two31 <= x < two31 -> 31 <= n -> Z.shiftr x n = Z.shiftr x 31.
Proof.
  intros x n Hx Hn. rewrite !Z.shiftr_div_pow2 by lia.
  assert (L : 2 ^ 31 <= 2 ^ n) by (apply Z.pow_le_mono_r; lia). change (2 ^ 31) with two31 in *.
  destruct (Z_lt_le_dec x 0).
  - assert (A : x / 2 ^ n = -1) by (symmetry; apply Z.div_unique with (x + 2 ^ n); unfold two31 in *; lia).
    assert (B : x / two31 = -1) by (symmetry; apply Z.div_unique with (x + two31); unfold two31 in *; lia).
    rewrite A, B. reflexivity.
  - rewrite !Z.div_small by (unfold two31 in *; lia). reflexivity.
Qed.

Lemma js_min_31 : forall n, 0 <= n -> js_min (Fin n) (Fin 31) = Fin (Z.min n 31).
Proof.
  intros n Hn. unfold js_min. cbn [jval jneg_sign].
  destruct (Z.ltb_spec n 31); [f_equal; lia |]. destruct (Z.ltb_spec 31 n); [f_equal; lia |].
  destruct (Z.ltb_spec n 0); f_equal; lia.
Qed.

Lemma shr32_var_correct : forall k x n, is64 k = false -> in_range k x -> 0 <= n ->
  shv32 k Shr (Fin x) (Fin n) = Ret (Fin (go_shift k Shr x n)).
Proof.
  intros k x n H R Hn. cbn [shv32 go_shift]. pose proof (shiftr_in_range k x n R Hn) as Rs.
  destruct (signed k) eqn:S.
  - rewrite js_min_31 by assumption. unfold js_shr, lift2; cbn [trunc_of]. rewrite fixnum_fin by assumption.
    do 2 f_equal. unfold shr32. rewrite cnt_small by lia. rewrite (to_int32_in_range_s k x) by assumption.
    assert (E : Z.shiftr x (Z.min n 31) = Z.shiftr x n).
    { destruct (Z_le_gt_dec n 31); [rewrite Z.min_l by lia; reflexivity |].
      rewrite Z.min_r by lia. symmetry. apply shiftr_sat; [apply (in_range_s32 k); assumption | lia]. }
    rewrite E. apply wrap_id; assumption.
  - rewrite js_lt_fin. pose proof (u32_of k x H S R) as U.
    destruct (Z.ltb_spec n 32); cbn [js_ite_num].
    + unfold js_ushr, lift2; cbn [trunc_of]. rewrite fixnum_fin by assumption. do 2 f_equal.
      unfold ushr32. rewrite cnt_small by lia. rewrite to_uint32_id by (rewrite two32_eq; assumption). apply wrap_id; assumption.
    + rewrite fixnum_fin by assumption. do 2 f_equal. rewrite Z.shiftr_div_pow2 by lia.
      assert (2 ^ 32 <= 2 ^ n) by (apply Z.pow_le_mono_r; lia).
      rewrite Z.div_small by lia. apply wrap_id. unfold in_range, kmin, kmax. rewrite S.
      assert (0 < 2 ^ bits k) by (apply Z.pow_pos_nonneg; pose proof (bits_pos k); lia). lia.
Qed.

(* constant counts *)
Definition shc_defect_free (V : variant) (k : kind) (s : shop) (c x : Z) : Prop :=
  s = Shl \/ c < 32 \/ signed k = false \/ v_shrc V = true \/ 0 <= x.

Lemma shc32_correct : forall V k s c x, is64 k = false -> in_range k x -> 0 <= c ->
  shc_defect_free V k s c x ->
  shc32 V k s c (Fin x) = Ret (Fin (go_shift k s x c)).
Proof.
  intros V k s c x H R Hc D. unfold shc32. destruct (Z.leb_spec 32 c) as [L | L].
  - destruct s.
    + cbn [go_shift]. rewrite shl_big_zero by assumption. reflexivity.
    + cbn [go_shift]. pose proof (shiftr_in_range k x c R Hc) as Rs.
      destruct (signed k) eqn:S.
      * assert (E31 : Z.shiftr x c = Z.shiftr x 31) by (apply shiftr_sat; [apply (in_range_s32 k); assumption | lia]).
        destruct (v_shrc V) eqn:F; cbn [andb].
        -- unfold js_shr, lift2; cbn [trunc_of]. rewrite fixnum_fin by assumption. do 2 f_equal.
           unfold shr32. rewrite cnt_small by lia. rewrite (to_int32_in_range_s k x) by assumption.
           rewrite <- E31. apply wrap_id; assumption.
        -- destruct D as [D | [D | [D | [D | D]]]]; [discriminate D | exfalso; lia | rewrite S in D; discriminate D | rewrite F in D; discriminate D |].
           do 2 f_equal. rewrite Z.shiftr_div_pow2 by lia. symmetry. apply Z.div_small.
           pose proof (in_range_s32 k x H S R). assert (2 ^ 31 <= 2 ^ c) by (apply Z.pow_le_mono_r; lia). unfold two31 in *. lia.
      * rewrite andb_false_r. do 2 f_equal. rewrite Z.shiftr_div_pow2 by lia. symmetry. apply Z.div_small.
        pose proof (u32_of k x H S R). assert (2 ^ 32 <= 2 ^ c) by (apply Z.pow_le_mono_r; lia). lia.
  - destruct s; cbn [go_shift].
    + unfold js_shl, lift2; cbn [trunc_of]. rewrite fixnum_fin by assumption. rewrite shl32_wrap by (assumption || lia). reflexivity.
    + pose proof (shiftr_in_range k x c R Hc) as Rs. destruct (signed k) eqn:S.
      * unfold js_shr, lift2; cbn [trunc_of]. rewrite fixnum_fin by assumption. do 2 f_equal.
        unfold shr32. rewrite cnt_small by lia. rewrite (to_int32_in_range_s k x) by assumption. apply wrap_id; assumption.
      * unfold js_ushr, lift2; cbn [trunc_of]. rewrite fixnum_fin by assumption. do 2 f_equal.
        unfold ushr32. rewrite cnt_small by lia. pose proof (u32_of k x H S R). rewrite to_uint32_id by (rewrite two32_eq; assumption). apply wrap_id; assumption.
Qed.

Lemma shr_const_refuted : forall V, v_shrc V = false ->
  shc32 V Int32 Shr 40 (Fin (-5)) = Ret (Fin 0) /\ go_shift Int32 Shr (-5) 40 = -1.
Proof. intros V E. unfold shc32. cbn [Z.leb Z.compare Pos.compare Pos.compare_cont signed andb]. rewrite E. split; reflexivity. Qed.
