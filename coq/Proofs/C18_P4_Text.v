(* C18 phase 4 — selection on source TEXT and the post-load tweaks: lemmas about
   Model/C18_Text.v, combining Proofs/C18_P4_{Name,Constraint,Header}.v. *)
From Coq Require Import List String Ascii Bool Arith Lia.
From Verif Require Import Gen.C18_BuildEnv Gen.C18_PostTweaks Model.C18_Build Model.C18_NameSpec
  Model.C18_Constraint Model.C18_ConstraintNF Model.C18_Text
  Proofs.C18_Build Proofs.C18_P4_Name Proofs.C18_P4_Constraint Proofs.C18_P4_Header.
Import ListNotations.
Local Open Scope string_scope.

(* ---- the header of a rendered file, hypotheses discharged ------------------ *)

Definition header_valid (gb : option cexpr) (plus : list pline) : Prop :=
  (match gb with Some x => nf x = true /\ tags_valid x = true | None => True end) /\
  forallb pline_valid plus = true.

Theorem should_build_text_of_render : forall sat gb plus detached,
  header_valid gb plus ->
  should_build_text sat (render_header gb plus detached) =
  Some (match gb with
        | Some x => eval sat x
        | None => if detached then forallb (pline_ok sat) plus else true
        end).
Proof.
  intros sat gb plus detached [H1 H2].
  exact (should_build_text_render parse_print_roundtrip parse_plus_expr_equiv sat gb plus detached H1 H2).
Qed.

(* the text-level classification of a rendered file is the structured one *)
Theorem classify_text_render : forall e f imps,
  header_valid (f_gobuild f) (f_plus f) ->
  classify_text e (render_file f imps) = classify e f.
Proof.
  intros e f imps H. unfold classify_text, classify, render_file. cbn [t_name t_isdir t_content t_pkg t_cgo].
  rewrite <- good_name_eq_spec, (should_build_text_of_render _ _ _ _ H).
  unfold should_build.
  destruct (f_isdir f); [reflexivity|]. destruct (hidden (f_name f)); [reflexivity|].
  destruct (negb (ext_of (f_name f) =? ".go")); [reflexivity|].
  destruct (good_os_arch_file e (f_name f)); cbn [negb]; [|reflexivity].
  destruct (f_gobuild f) as [x|].
  - destruct (eval (match_tag e) x); reflexivity.
  - destruct (f_detached f); [destruct (forallb _ (f_plus f)); reflexivity | reflexivity].
Qed.

(* ---- selection of one file given as text (any text) ------------------------ *)

Lemma classify_text_go_iff : forall e f,
  classify_text e f = CGo <->
  t_isdir f = false /\ selectable_name (t_name f) /\
  spec_good_name e (t_name f) = true /\
  should_build_text (match_tag e) (t_content f) = Some true /\
  t_pkg f <> PkgDoc /\ t_cgo f = false.
Proof.
  intros e f. unfold classify_text, selectable_name.
  destruct (t_isdir f); [split; [discriminate | intros (H & _); discriminate]|].
  destruct (hidden (t_name f)); [split; [discriminate | intros (_ & (H & _) & _); discriminate]|].
  destruct (ext_of (t_name f) =? ".go") eqn:Ee.
  2:{ apply String.eqb_neq in Ee. cbn [negb]. split.
      - destruct (mem (ext_of (t_name f)) other_exts); discriminate.
      - intros (_ & (_ & H & _) & _). contradiction. }
  apply String.eqb_eq in Ee. cbn [negb].
  destruct (spec_good_name e (t_name f)); cbn [negb]; [|split; [discriminate | intros (_ & _ & H & _); discriminate]].
  destruct (should_build_text (match_tag e) (t_content f)) as [[|]|];
    [| split; [discriminate | intros (_ & _ & _ & H & _); discriminate]
     | split; [discriminate | intros (_ & _ & _ & H & _); discriminate]].
  destruct (t_pkg f) eqn:Ep; destruct (t_cgo f) eqn:Ec; destruct (is_test_name (t_name f)) eqn:Et; destruct (e_cgo e);
    split; try discriminate; try (intros; repeat split; (reflexivity || assumption || discriminate));
    try (intros (_ & (_ & _ & H) & _); discriminate);
    try (intros (_ & _ & _ & _ & H & _); contradiction);
    try (intros (_ & _ & _ & _ & _ & H); discriminate).
Qed.

(* a malformed header makes the file (and the package) invalid, unless the name already excludes it *)
Lemma classify_text_bad_header : forall e f,
  t_isdir f = false -> hidden (t_name f) = false -> ext_of (t_name f) = ".go" ->
  spec_good_name e (t_name f) = true ->
  should_build_text (match_tag e) (t_content f) = None -> classify_text e f = CBad.
Proof.
  intros e f H1 H2 H3 H4 H5. unfold classify_text. rewrite H1, H2, H3, H4, H5. reflexivity.
Qed.

Definition t_go_files (r : tresult) : list string := match r with TOk g _ _ _ _ _ _ _ => g | _ => [] end.
Definition t_test_files (r : tresult) : list string := match r with TOk _ t _ _ _ _ _ _ => t | _ => [] end.
Definition t_imports_of (r : tresult) : list string := match r with TOk _ _ _ _ _ m _ _ => m | _ => [] end.
Definition t_loaded (r : tresult) : Prop := match r with TOk _ _ _ _ _ _ _ _ => True | _ => False end.

Lemma In_tnames_of : forall e c fs f, NoDup (map t_name fs) -> In f fs ->
  (In (t_name f) (tnames_of e c fs) <-> classify_text e f = c).
Proof.
  intros e c fs f ND I. unfold tnames_of. rewrite in_map_iff. split.
  - intros [g [En Ig]]. apply filter_In in Ig. destruct Ig as [Ig Ec]. apply cls_eqb_eq in Ec.
    assert (g = f) as ->; [|exact Ec].
    clear Ec. induction fs as [|h fs IH]; [contradiction|].
    cbn [map] in ND. inversion ND as [|? ? Hn ND']; subst.
    destruct I as [->|I], Ig as [->|Ig]; try reflexivity.
    + exfalso. apply Hn. rewrite <- En. apply in_map. exact Ig.
    + exfalso. apply Hn. rewrite En. apply in_map. exact I.
    + apply IH; assumption.
  - intros Ec. exists f. split; [reflexivity|]. apply filter_In. split; [exact I | apply cls_eqb_eq; exact Ec].
Qed.

(* ---- post-load tweaks ------------------------------------------------------ *)

Lemma exclude_In : forall fs ex f, In f (exclude fs ex) <-> In f fs /\ ~ In f ex.
Proof.
  intros fs ex f. unfold exclude. rewrite filter_In, negb_true_iff, mem_false. tauto.
Qed.

Lemma apply_tweak_subset : forall t fs f, In f (apply_tweak t fs) -> In f fs.
Proof.
  intros [c ex] fs f. unfold apply_tweak. cbn [fst snd]. destruct c; [intros []|].
  intros H. apply exclude_In in H. tauto.
Qed.

(* the tweaks only REMOVE files *)
Theorem postload_only_removes : forall v p go test f,
  (In f (fst (postload v p go test)) -> In f go) /\ (In f (snd (postload v p go test)) -> In f test).
Proof.
  intros v p go test f. unfold postload. destruct v; [cbn; tauto|].
  destruct (lookup_tweak p post_tweaks) as [[tg tw]|]; cbn [fst snd]; [|tauto].
  split; apply apply_tweak_subset.
Qed.

(* the virtual contexts (natives overlay, embedded gopherjs packages) are never tweaked *)
Theorem postload_virtual_id : forall p go test, postload true p go test = (go, test).
Proof. reflexivity. Qed.

Lemma lookup_tweak_none : forall p tb, ~ In p (map fst tb) -> lookup_tweak p tb = None.
Proof.
  intros p tb. induction tb as [|[q t] tb IH]; [reflexivity|]. cbn [map fst In lookup_tweak]. intros H.
  destruct (p =? q) eqn:E; [apply String.eqb_eq in E; subst; exfalso; apply H; left; reflexivity|].
  apply IH. intros I. apply H. right. exact I.
Qed.

(* the table regenerated from applyPostloadTweaks is the documented one *)
Lemma gen_post_tweaks : post_tweaks =
  [("runtime", ((true, []), (false, []))); ("runtime/pprof", ((true, []), (false, [])));
   ("sync", ((false, ["pool.go"]), (false, []))); ("syscall/js", ((true, []), (true, [])))].
Proof. reflexivity. Qed.

Definition tweaked_paths : list string := ["runtime"; "runtime/pprof"; "sync"; "syscall/js"].

(* every package other than the four documented ones keeps exactly what go/build selected *)
Theorem postload_other_paths : forall v p go test, ~ In p tweaked_paths -> postload v p go test = (go, test).
Proof.
  intros v p go test H. unfold postload. destruct v; [reflexivity|].
  rewrite lookup_tweak_none; [reflexivity|]. rewrite gen_post_tweaks. exact H.
Qed.

Lemma exclude_nil : forall l, exclude l [] = l.
Proof.
  induction l as [|a l IH]; [reflexivity|]. unfold exclude in *. cbn [filter mem existsb negb]. f_equal. exact IH.
Qed.

Theorem postload_documented : forall go test,
  postload false "runtime" go test = ([], test) /\
  postload false "runtime/pprof" go test = ([], test) /\
  postload false "sync" go test = (exclude go ["pool.go"], test) /\
  postload false "syscall/js" go test = ([], []).
Proof.
  intros go test. unfold postload. rewrite gen_post_tweaks. cbn [lookup_tweak String.eqb Ascii.eqb Bool.eqb].
  repeat split; unfold apply_tweak; cbn [fst snd]; rewrite ?exclude_nil; reflexivity.
Qed.

(* sync: exactly pool.go goes *)
Theorem postload_sync_iff : forall go test f,
  In f (fst (postload false "sync" go test)) <-> In f go /\ f <> "pool.go".
Proof.
  intros go test f. destruct (postload_documented go test) as (_ & _ & -> & _). cbn [fst].
  rewrite exclude_In. cbn [In]. split.
  - intros [H1 H2]. split; [exact H1|]. intros ->. apply H2. left. reflexivity.
  - intros [H1 H2]. split; [exact H1|]. intros [E|[]]. apply H2. symmetry. exact E.
Qed.

(* updateImports: an import path survives iff one of the remaining sources contains it *)
Theorem update_imports_iff : forall srcs fs p,
  In p (update_imports srcs fs) <-> exists f, In f fs /\ In (t_name f) srcs /\ In p (t_imports f).
Proof.
  intros srcs fs p. unfold update_imports. rewrite nodup_In, in_flat_map. split.
  - intros [f [If Ip]]. exists f. destruct (mem (t_name f) srcs) eqn:E; [|contradiction].
    apply mem_In in E. tauto.
  - intros [f (If & Is & Ip)]. exists f. split; [exact If|]. apply mem_In in Is. rewrite Is. exact Ip.
Qed.

Theorem update_imports_nodup : forall srcs fs, NoDup (update_imports srcs fs).
Proof. intros. unfold update_imports. apply NoDup_nodup. Qed.

(* ---- the whole import on text ---------------------------------------------- *)

Lemma import_text_go : forall e0 std v path fs, t_loaded (import_text_with e0 std v path fs) ->
  t_go_files (import_text_with e0 std v path fs) =
  fst (postload v path (tnames_of (preload e0 std) CGo fs) (tnames_of (preload e0 std) CTest fs)).
Proof.
  intros e0 std v path fs. unfold import_text_with.
  destruct (existsb _ fs); [intros []|].
  destruct (tnames_of (preload e0 std) CGo fs ++ _)%list eqn:E; [intros []|].
  destruct (postload v path _ _) as [g t]. reflexivity.
Qed.

(* C18_selected_iff on TEXT: for a package that is not one of the four tweaked
   standard-library packages (or is served by a virtual context) *)
Theorem selected_iff_text : forall e0 std v path fs f,
  NoDup (map t_name fs) -> In f fs ->
  (v = true \/ ~ In path tweaked_paths) ->
  t_loaded (import_text_with e0 std v path fs) ->
  (In (t_name f) (t_go_files (import_text_with e0 std v path fs)) <->
     t_isdir f = false /\ selectable_name (t_name f) /\
     Forall (fun t => match_tag (preload e0 std) t = true) (spec_name_tags (t_name f)) /\
     should_build_text (match_tag (preload e0 std)) (t_content f) = Some true /\
     t_pkg f <> PkgDoc /\ t_cgo f = false).
Proof.
  intros e0 std v path fs f ND I Hp L.
  rewrite (import_text_go _ _ _ _ _ L).
  assert (postload v path (tnames_of (preload e0 std) CGo fs) (tnames_of (preload e0 std) CTest fs) =
          (tnames_of (preload e0 std) CGo fs, tnames_of (preload e0 std) CTest fs)) as ->.
  { destruct Hp as [->|Hp]; [reflexivity | apply postload_other_paths; exact Hp]. }
  cbn [fst]. rewrite (In_tnames_of _ _ _ _ ND I), classify_text_go_iff.
  unfold spec_good_name. rewrite forallb_forall, Forall_forall. tauto.
Qed.

(* ... with the DOCUMENTED valuation: the environment of NewBuildContext is [sat user std m]
   (characterised by C18_env_is_documented) *)
Theorem selected_iff_text_documented : forall user std m v path fs f e0,
  go_ctx (default_cfg user m) = Some e0 ->
  NoDup (map t_name fs) -> In f fs ->
  (v = true \/ ~ In path tweaked_paths) ->
  t_loaded (import_text_with e0 std v path fs) ->
  (In (t_name f) (t_go_files (import_text_with e0 std v path fs)) <->
     t_isdir f = false /\ selectable_name (t_name f) /\
     Forall (fun t => sat user std m t = true) (spec_name_tags (t_name f)) /\
     should_build_text (sat user std m) (t_content f) = Some true /\
     t_pkg f <> PkgDoc /\ t_cgo f = false).
Proof.
  intros user std m v path fs f e0 He0 ND I Hp L.
  rewrite (selected_iff_text e0 std v path fs f ND I Hp L).
  assert (E : forall t, sat user std m t = match_tag (preload e0 std) t).
  { intros t. unfold sat, file_env. rewrite He0. reflexivity. }
  assert (E' : sat user std m = match_tag (preload e0 std)).
  { reflexivity || (unfold sat, file_env; rewrite He0; reflexivity). }
  rewrite E'. tauto.
Qed.

(* the retraction print-after-parse fails in general *)
Theorem print_parse_retraction_refuted :
  ~ (forall s x, parse_expr s = Some x -> parse_expr (print x) = Some x).
Proof.
  intros H. destruct print_parse_not_retraction as (s & x & H1 & H2).
  rewrite (H s x H1) in H2. discriminate.
Qed.
