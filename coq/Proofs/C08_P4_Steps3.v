(* C08 phase 4 — induction step for the while(true) loop of $callDeferred *)
From Coq Require Import List ZArith Bool Arith Lia.
From Verif Require Import Model.C08_Panic Proofs.C08_Panic Proofs.C08_P4_Once Proofs.C08_P4_Steps Proofs.C08_P4_Steps2.
Import ListNotations.

Definition cur_ok (cur : option nat) (id : nat) : Prop := forall id0, cur = Some id0 -> id0 = id.
Definition fp_ok (cur : option nat) (fromPanic : bool) (local : option pval) : Prop :=
  if fromPanic then exists v, local = Some v else local = None /\ exists id, cur = Some id.

(* the deferred call threw *)
Lemma loop_tail_throw : forall cur fromPanic s id ds0 e s2,
  Inv s -> j_deferStack s = id :: ds0 -> cur_ok cur id ->
  R s (JThrow e) s2 -> loop_post cur fromPanic s (LThrow e (Some id)) s2.
Proof.
  intros cur fromPanic s id ds0 e s2 HI Hd Hc (A & B & C & _).
  split; [exact A|]. split; [exact B|]. split; [exact C|]. split.
  - intros _ id0 E. f_equal. symmetry. apply Hc. exact E.
  - exists id. split; [reflexivity|]. intro Hi. exists ds0. eapply suffix_top; [rewrite <- Hd; exact C | rewrite <- Hd; apply HI | exact Hi].
Qed.

(* the deferred call returned and recovered the panic: $panic throws null *)
Lemma loop_tail_recovered : forall cur fromPanic s id ds0 o s2,
  j_deferStack s = id :: ds0 -> cur_ok cur id ->
  R s o s2 -> nothrow o -> loop_post cur fromPanic s (LThrow XNull (Some id)) s2.
Proof.
  intros cur fromPanic s id ds0 o s2 Hd Hc (A & B & C & D) Hn. specialize (D Hn).
  split; [exact A|]. split; [exact B|]. split; [exact C|]. split.
  - intros _ id0 E. f_equal. symmetry. apply Hc. exact E.
  - exists id. split; [reflexivity|]. intros _. exists ds0. congruence.
Qed.

(* the deferred call returned: next iteration *)
Lemma loop_tail_rec : forall cur fromPanic s id ds0 o s2 res s',
  j_deferStack s = id :: ds0 -> cur_ok cur id ->
  R s o s2 -> nothrow o -> loop_post (Some id) fromPanic s2 res s' -> loop_post cur fromPanic s res s'.
Proof.
  intros cur fromPanic s id ds0 o s2 res s' Hd Hc (A & B & C & D) Hn (A' & B' & C' & D'). specialize (D Hn).
  split; [exact A'|]. split; [congruence|]. split; [rewrite <- D; exact C'|].
  destruct res.
  - destruct D' as [F G]. split; [exact F|]. intros id0 E. rewrite (Hc id0 E). rewrite <- D. apply G. reflexivity.
  - destruct D' as [F G]. split; [|exact G]. intros Hf id0 E. rewrite (Hc id0 E). apply F; [exact Hf|reflexivity].
  - exact D'.
Qed.

Lemma step_loop : forall fuel, Q_fun fuel -> Q_loop fuel -> Q_loop (S fuel).
Proof.
  intros fuel IHf IHl. red. intros vr p d cur fromPanic local s res s' Hao (HI & Ht & Hfp) H.
  cbn [impl_loop] in H.
  (* which list is being worked on *)
  assert (Htop : (cur = None /\ j_deferStack s = [] /\
                  (match cur with Some id => Some id | None => match j_deferStack s with id :: _ => Some id | [] => None end end) = None)
                 \/ exists id ds0, j_deferStack s = id :: ds0 /\ cur_ok cur id /\
                  (match cur with Some id => Some id | None => match j_deferStack s with id :: _ => Some id | [] => None end end) = Some id).
  { destruct cur as [id|].
    - right. destruct (Ht id eq_refl) as [ds0 Hd]. exists id, ds0. split; [exact Hd|]. split; [|reflexivity].
      intros id0 E. congruence.
    - destruct (j_deferStack s) as [|id ds0] eqn:Hd.
      + left. auto.
      + right. exists id, ds0. split; [reflexivity|]. split; [|reflexivity]. intros id0 E. discriminate E. }
  destruct Htop as [(Hc & Hd & Etop) | (id & ds0 & Hd & Hc & Etop)]; rewrite Etop in H; clear Etop.
  - (* the panic reached the top of the stack *)
    inversion H; subst; clear H.
    split; [eapply same_Inv; [|exact HI]; same_tac|]. split; [reflexivity|]. split; [apply suffix_refl|].
    destruct fromPanic; [reflexivity|]. destruct Hfp as [_ [id E]]. discriminate E.
  - destruct (j_pop_deferred id s) as [[c s1]|] eqn:Epop.
    + (* a deferred call is run *)
      assert (Hin : In id (j_deferStack s)) by (rewrite Hd; now left).
      destruct (Inv_pop_call _ _ _ _ HI Hin Epop) as (HI1 & Hd1 & Ho1).
      assert (Hcall : exists o s2, (match c with
            | DClo b cell => impl_fun vr fuel p (d + 1)%Z cell b s1
            | DFun f arg => let '(c', s1') := j_fresh2 s1 in impl_fun vr fuel p (d + 1)%Z c' (body_of p f) (j_setcell c' (arg, 0%Z) s1')
            end) = Some (o, s2) /\ R s o s2).
      { destruct c as [b cell|f arg].
        - destruct (impl_fun vr fuel p (d + 1)%Z cell b s1) as [[o s2]|] eqn:E; [|discriminate H].
          exists o, s2. split; [reflexivity|]. eapply R_shift0; [exact Hd1|exact Ho1|]. eapply IHf; eassumption.
        - destruct (j_fresh2 s1) as [c' s1'] eqn:E2.
          destruct (impl_fun vr fuel p (d + 1)%Z c' (body_of p f) (j_setcell c' (arg, 0%Z) s1')) as [[o s2]|] eqn:E; [|discriminate H].
          exists o, s2. split; [reflexivity|]. eapply R_shift0; [exact Hd1|exact Ho1|].
          assert (Hs : same s1 (j_setcell c' (arg, 0%Z) s1')) by (eapply same_trans; [eapply fresh2_same; exact E2|same_tac]).
          eapply R_shift; [exact Hs|]. eapply IHf; [exact Hao|eapply same_Inv; eassumption|exact E]. }
      destruct Hcall as (o & s2 & Ecall & HR). rewrite Ecall in H. clear Ecall.
      destruct o as [| |e].
      * (* JNext *)
        destruct local as [v|]; [destruct (j_psd s2)|].
        -- eapply loop_tail_rec; [exact Hd|exact Hc|exact HR|apply nothrow_next|].
           eapply IHl; [exact Hao| |exact H]. destruct HR as (A & B & C & D). specialize (D nothrow_next).
           split; [exact A|]. split; [intros id0 E; inversion E; subst; exists ds0; congruence|].
           destruct fromPanic; [exact Hfp|]. destruct Hfp as [E _]. discriminate E.
        -- destruct fromPanic; [|destruct Hfp as [E _]; discriminate E].
           inversion H; subst. eapply loop_tail_recovered; [exact Hd|exact Hc|exact HR|apply nothrow_next].
        -- eapply loop_tail_rec; [exact Hd|exact Hc|exact HR|apply nothrow_next|].
           eapply IHl; [exact Hao| |exact H]. destruct HR as (A & B & C & D). specialize (D nothrow_next).
           split; [exact A|]. split; [intros id0 E; inversion E; subst; exists ds0; congruence|].
           destruct fromPanic; [exact Hfp|]. split; [reflexivity|]. exists id. reflexivity.
      * (* JReturn *)
        destruct local as [v|]; [destruct (j_psd s2)|].
        -- eapply loop_tail_rec; [exact Hd|exact Hc|exact HR|apply nothrow_ret|].
           eapply IHl; [exact Hao| |exact H]. destruct HR as (A & B & C & D). specialize (D nothrow_ret).
           split; [exact A|]. split; [intros id0 E; inversion E; subst; exists ds0; congruence|].
           destruct fromPanic; [exact Hfp|]. destruct Hfp as [E _]. discriminate E.
        -- destruct fromPanic; [|destruct Hfp as [E _]; discriminate E].
           inversion H; subst. eapply loop_tail_recovered; [exact Hd|exact Hc|exact HR|apply nothrow_ret].
        -- eapply loop_tail_rec; [exact Hd|exact Hc|exact HR|apply nothrow_ret|].
           eapply IHl; [exact Hao| |exact H]. destruct HR as (A & B & C & D). specialize (D nothrow_ret).
           split; [exact A|]. split; [intros id0 E; inversion E; subst; exists ds0; congruence|].
           destruct fromPanic; [exact Hfp|]. split; [reflexivity|]. exists id. reflexivity.
      * inversion H; subst. eapply loop_tail_throw; [exact HI|exact Hd|exact Hc|exact HR].
    + (* the list is exhausted: pop the frame *)
      pose proof (pop_none _ _ Epop) as Hemp.
      pose proof (Inv_pop_frame _ _ _ HI Hd Hemp) as HI1.
      set (s1 := j_set_ds (tl (j_deferStack s)) s) in *.
      assert (Hd1 : j_deferStack s1 = ds0) by (subst s1; cbn; rewrite Hd; reflexivity).
      assert (Hnin : ~ In id ds0) by (destruct HI as [[A _ _] _]; rewrite Hd in A; now inversion A).
      assert (Hsuf : suffix (j_deferStack s1) (j_deferStack s)) by (rewrite Hd1, Hd; exists [id]; reflexivity).
      destruct local as [v|].
      * (* the panic goes on in the caller's frame *)
        destruct fromPanic; [|destruct Hfp as [E _]; discriminate E].
        assert (Hpost : loop_post None true s1 res s').
        { eapply IHl; [exact Hao| |exact H]. split; [exact HI1|]. split; [apply top_none|exact Hfp]. }
        destruct Hpost as (A' & B' & C' & D').
        split; [exact A'|]. split; [exact B'|]. split; [eapply suffix_trans; eassumption|].
        destruct res.
        -- destruct D' as [F _]. discriminate F.
        -- destruct D' as [_ G]. split; [intro F; discriminate F|exact G].
        -- reflexivity.
      * destruct fromPanic; [destruct Hfp as [v E]; discriminate E|]. destruct Hfp as [_ [idc Ec]].
        assert (idc = id) by (apply Hc; exact Ec). subst idc.
        assert (Hret : loop_post cur false s LRet s1).
        { split; [exact HI1|]. split; [reflexivity|]. split; [exact Hsuf|]. split; [reflexivity|].
          intros id0 E. rewrite (Hc id0 E). split; [rewrite Hd1; exact Hnin | rewrite Hd1, Hd; reflexivity]. }
        destruct (j_exit s1) as [n|].
        -- destruct (Nat.ltb (length (j_deferStack s1)) n).
           ++ inversion H; subst res s'. clear H.
              split; [eapply same_Inv; [|exact HI1]; same_tac|]. split; [reflexivity|]. split; [exact Hsuf|]. split.
              ** intros _ id0 E. f_equal. symmetry. apply Hc. exact E.
              ** exists id. split; [reflexivity|]. intro Hi. exfalso. apply Hnin. rewrite <- Hd1. exact Hi.
           ++ inversion H; subst res s'. exact Hret.
        -- inversion H; subst res s'. exact Hret.
Qed.
