(* C08, part B — lemmas about SpecPanic / ImplPanic (Model/C08_Panic.v). *)
From Coq Require Import List ZArith NArith Bool Arith Lia.
From Verif Require Import Model.C08_Panic.
Import ListNotations.
Local Open Scope Z_scope.

(* ---- the full refinement statement and its refutations ------------------- *)

Definition impl_refines_spec_on (gx : variant) (p : program) : Prop :=
  forall fuel r, obs (spec_run fuel p) = Some r -> exists fuel', obs (impl_run gx fuel' p) = Some r.

(* witness 1: a deferred call replaces the panic, the replacement is recovered,
   the implementation re-activates the aborted panic.
     func f0() { defer func(){ recover() }(); defer func(){ panic(2) }(); panic(1) } *)
Definition wit_replaced : program :=
  [[SDeferClo [SRecover]; SDeferClo [SPanic (PInt 2)]; SPanic (PInt 1)]].

(* witness 2: Goexit below a function with defers *)
Definition wit_goexit : program :=
  [[SCall 1%nat; STrace 9]; [SDeferClo [STrace 1]; SGoexit; STrace 8]].

(* witness 3: the re-activated panic is recovered by a later deferred call, and
   the remaining deferred call (STrace 0) is never run *)
Definition wit_skipped : program :=
  [[SDeferClo [STrace 0]; SDeferClo [SRecover]; SDeferClo [SRecover]; SDeferClo [SPanic (PInt 2)]; SPanic (PInt 1)]].

Lemma fuel_mono_placeholder : True. Proof. exact I. Qed.

Lemma wit_replaced_runs :
  obs (spec_run 100 wit_replaced) = Some ([ERec (Some (PInt 2)); ETraceX 0 0], FNormal) /\
  obs (impl_run V_OLD 100 wit_replaced) = Some ([ERec (Some (PInt 2))], FFatal (PInt 1)).
Proof. split; vm_compute; reflexivity. Qed.

Lemma wit_goexit_runs :
  obs (spec_run 100 wit_goexit) = Some ([ETrace 1], FNormal) /\
  obs (impl_run V_OLD 100 wit_goexit) = Some ([ETrace 1; ETrace 9; ETraceX 0 0], FNormal).
Proof. split; vm_compute; reflexivity. Qed.

Lemma wit_skipped_runs :
  obs (spec_run 100 wit_skipped) = Some ([ERec (Some (PInt 2)); ERec None; ETrace 0; ETraceX 0 0], FNormal) /\
  obs (impl_run V_OLD 100 wit_skipped) = Some ([ERec (Some (PInt 2)); ERec (Some (PInt 1)); ETraceX 0 0], FNormal).
Proof. split; vm_compute; reflexivity. Qed.

(* ---- deferred calls run in LIFO order, each at most once (ImplPanic, all programs) ---- *)

(* pending deferred calls of list [id] after the (newest-first) trace [t]: a stack of
   the push numbers; a run event must take the most recently pushed pending call *)
Definition step_pend (id : nat) (e : event) (stk : list nat) : option (list nat) :=
  match e with
  | EPush a k => if Nat.eqb a id then (if Nat.eqb k (length stk) then Some (k :: stk) else None) else Some stk
  | ERun a k => if Nat.eqb a id
                then match stk with k' :: s' => if Nat.eqb k k' then Some s' else None | [] => None end
                else Some stk
  | _ => Some stk
  end.
Fixpoint pend (id : nat) (t : list event) : option (list nat) :=
  match t with
  | [] => Some []
  | e :: t' => match pend id t' with None => None | Some stk => step_pend id e stk end
  end.

Fixpoint heights (n : nat) : list nat := match n with O => [] | S m => m :: heights m end.
Lemma heights_length : forall n, length (heights n) = n.
Proof. induction n; cbn; congruence. Qed.

Definition inv (s : jstate) : Prop :=
  forall id, pend id (j_trace s) = Some (heights (length (list_get (j_lists s) id))).

Lemma inv_init : inv j_init.
Proof. intro id. reflexivity. Qed.

Lemma inv_same : forall s s', j_trace s' = j_trace s -> j_lists s' = j_lists s -> inv s -> inv s'.
Proof. unfold inv; intros s s' Ht Hl H id. rewrite Ht, Hl. apply H. Qed.

Lemma inv_emit_obs : forall e s, observable e = true -> inv s -> inv (j_emit e s).
Proof.
  unfold inv; intros e s He H id. cbn [j_emit j_trace j_lists pend]. rewrite H.
  destruct e; cbn in He; try discriminate; reflexivity.
Qed.

Lemma list_get_set : forall ls i v j, list_get (list_set ls i v) j = if Nat.eqb j i then v else list_get ls j.
Proof. intros. unfold list_set. cbn [list_get]. reflexivity. Qed.

Lemma inv_push : forall id c s, inv s -> inv (j_push_deferred id c s).
Proof.
  unfold inv, j_push_deferred; intros id c s H j.
  cbn [j_set_lists j_emit j_trace j_lists pend]. rewrite H. rewrite list_get_set.
  cbn [step_pend]. rewrite (Nat.eqb_sym id j).
  destruct (Nat.eqb_spec j id) as [->|].
  - rewrite heights_length, Nat.eqb_refl. reflexivity.
  - reflexivity.
Qed.

Lemma inv_pop : forall id c s s', inv s -> j_pop_deferred id s = Some (c, s') -> inv s'.
Proof.
  unfold inv, j_pop_deferred; intros id c s s' H Hp j.
  destruct (list_get (j_lists s) id) as [|c0 l] eqn:E; [discriminate|].
  inversion Hp; subst; clear Hp.
  cbn [j_set_lists j_emit j_trace j_lists pend]. rewrite H. rewrite list_get_set.
  cbn [step_pend]. rewrite (Nat.eqb_sym id j).
  destruct (Nat.eqb_spec j id) as [->|].
  - rewrite E. cbn [length heights]. rewrite Nat.eqb_refl. reflexivity.
  - reflexivity.
Qed.

Lemma inv_recover : forall d s v s', inv s -> js_recover d s = (v, s') -> inv s'.
Proof.
  unfold js_recover; intros d s v s' H E.
  destruct (j_psd s); [destruct (negb _)|]; inversion E; subst; auto.
Qed.

Ltac inv_norm :=
  repeat match goal with
  | |- inv (j_setcell _ _ ?s) => apply (inv_same s); [reflexivity | reflexivity |]
  | |- inv (j_set_ps _ ?s) => apply (inv_same s); [reflexivity | reflexivity |]
  | |- inv (j_set_ds _ ?s) => apply (inv_same s); [reflexivity | reflexivity |]
  | |- inv (j_set_psd _ _ ?s) => apply (inv_same s); [reflexivity | reflexivity |]
  | |- inv (j_set_offset _ ?s) => apply (inv_same s); [reflexivity | reflexivity |]
  | |- inv (j_set_exit _ ?s) => apply (inv_same s); [reflexivity | reflexivity |]
  | |- inv (j_emit (ETrace _) ?s) => apply inv_emit_obs; [reflexivity |]
  | |- inv (j_emit (ETraceX _ _) ?s) => apply inv_emit_obs; [reflexivity |]
  | |- inv (j_emit (ERec _) ?s) => apply inv_emit_obs; [reflexivity |]
  | |- inv (j_push_deferred _ _ ?s) => apply inv_push
  end.

Lemma inv_fresh : forall s c s', inv s -> j_fresh s = (c, s') -> inv s'.
Proof. unfold j_fresh; intros s c s' H E; inversion E; subst. apply (inv_same s); auto. Qed.

Lemma inv_fresh2 : forall s c s', inv s -> j_fresh2 s = (c, s') -> inv s'.
Proof.
  unfold j_fresh2; intros s c s' H E.
  destruct (j_fresh s) as [c1 s1] eqn:E1. destruct (j_fresh s1) as [c2 s2] eqn:E2.
  inversion E; subst. eapply inv_fresh; [|eassumption]. first [eapply inv_fresh2; eassumption | eapply inv_fresh; eassumption].
Qed.

Definition P_exec (fuel : nat) : Prop :=
  forall gx p d cell dl ss s out s', inv s -> impl_exec gx fuel p d cell dl ss s = Some (out, s') -> inv s'.
Definition P_fun (fuel : nat) : Prop :=
  forall gx p d cell body s out s', inv s -> impl_fun gx fuel p d cell body s = Some (out, s') -> inv s'.
Definition P_cd (fuel : nat) : Prop :=
  forall gx p d deferred jsErr fromPanic s out s', inv s -> impl_cd gx fuel p d deferred jsErr fromPanic s = Some (out, s') -> inv s'.
Definition P_loop (fuel : nat) : Prop :=
  forall gx p d cur fromPanic local s out s', inv s -> impl_loop gx fuel p d cur fromPanic local s = Some (out, s') -> inv s'.

Ltac crack :=
  repeat match goal with
  | H : Some _ = Some _ |- _ => inversion H; subst; clear H
  | H : None = Some _ |- _ => discriminate H
  | H : (_, _) = (_, _) |- _ => inversion H; subst; clear H
  | H : context [match ?x with _ => _ end] |- _ =>
      match type of H with _ = Some _ => destruct x eqn:? end
  end.

Lemma impl_preserves_inv : forall fuel, P_exec fuel /\ P_fun fuel /\ P_cd fuel /\ P_loop fuel.
Proof.
  induction fuel as [|fuel [IHe [IHf [IHc IHl]]]].
  - repeat split; red; intros; cbn in *; discriminate.
  - assert (He : P_exec (S fuel)).
    { red. intros gx p d cell dl ss s out s' Hinv H. cbn [impl_exec] in H.
      destruct ss as [|st rest]; [inversion H; subst; assumption|].
      destruct st; crack;
        try (eapply IHe; [|eassumption]; inv_norm; eauto; fail);
        try assumption.
      all: try (eapply IHe; [|eassumption]; inv_norm;
                first [ eapply inv_recover; eassumption
                      | eapply IHf; [|eassumption]; inv_norm; first [eapply inv_fresh2; eassumption | eapply inv_fresh; eassumption]
                      | eapply IHf; eassumption
                      | eapply IHc; [|eassumption]; inv_norm; assumption
                      | assumption ]; fail).
      all: try (eapply IHf; [|eassumption]; inv_norm; first [first [eapply inv_fresh2; eassumption | eapply inv_fresh; eassumption] | assumption]; fail).
      all: try (eapply IHc; [|eassumption]; inv_norm; assumption).
      all: try (inv_norm; assumption). }
    assert (Hf : P_fun (S fuel)).
    { red. intros gx p d cell body s out s' Hinv H. cbn [impl_fun] in H. crack;
        try (eapply IHe; eassumption).
      all: try (eapply IHc; [|eassumption]; eapply IHe; [|eassumption]; inv_norm; first [eapply inv_fresh2; eassumption | eapply inv_fresh; eassumption]). }
    assert (Hl : P_loop (S fuel)).
    { red. intros gx p d cur fromPanic local s out s' Hinv H. cbn [impl_loop] in H. crack.
      all: try (inv_norm; assumption).
      all: try (eapply IHl; [|eassumption]; inv_norm; assumption).
      all: try (eapply IHf; [|eassumption]; first [ eapply inv_pop; eassumption
                 | inv_norm; first [eapply inv_fresh2; [|eassumption]; eapply inv_pop; eassumption | eapply inv_fresh; [|eassumption]; eapply inv_pop; eassumption] ]; fail).
      all: try (eapply IHl; [|eassumption]; eapply IHf; [|eassumption];
                first [ eapply inv_pop; eassumption
                      | inv_norm; first [eapply inv_fresh2; [|eassumption]; eapply inv_pop; eassumption | eapply inv_fresh; [|eassumption]; eapply inv_pop; eassumption] ]). }
    assert (Hc : P_cd (S fuel)).
    { red. intros gx p d deferred jsErr fromPanic s out s' Hinv H. cbn [impl_cd] in H. crack.
      all: try assumption.
      all: try (eapply IHc; [|eassumption]; eapply IHc; [|eassumption]; inv_norm; assumption).
      all: repeat (inv_norm; match goal with
                             | |- inv (match ?x with _ => _ end) => destruct x eqn:?
                             end).
      all: inv_norm.
      all: repeat match goal with
                  | H : match ?x with _ => _ end = (_, _) |- _ => destruct x eqn:?; inversion H; subst; clear H
                  end.
      all: try (eapply IHl; [|eassumption]; inv_norm; assumption).
      all: try (eapply IHc; [|eassumption]; eapply IHl; [|eassumption]; inv_norm; assumption). }
    repeat split; assumption.
Qed.

(* every run of ImplPanic, for every program and every amount of fuel: the ghost
   events of each $deferred list replay as a stack — a deferred call is only ever
   run when it is the most recently pushed pending call of its list, hence at most
   once and in LIFO order *)
Lemma impl_defer_lifo_at_most_once : forall gx fuel p out s,
  impl_fun gx fuel p 0 0 wrapper j_init = Some (out, s) ->
  forall id, pend id (j_trace s) = Some (heights (length (list_get (j_lists s) id))).
Proof.
  intros gx fuel p out s H.
  destruct (impl_preserves_inv fuel) as [_ [Hf _]].
  exact (Hf gx p 0 0%nat wrapper j_init out s inv_init H).
Qed.

(* what [pend] = Some means, spelled out on the two event kinds *)
Lemma pend_run_is_top : forall id k t stk,
  pend id (ERun id k :: t) = Some stk -> pend id t = Some (k :: stk).
Proof.
  intros id k t stk H. cbn [pend] in H. destruct (pend id t) as [st|]; [|discriminate].
  cbn [step_pend] in H. rewrite Nat.eqb_refl in H.
  destruct st as [|k' s']; [discriminate|].
  destruct (Nat.eqb_spec k k'); [subst; inversion H; reflexivity | discriminate].
Qed.
Lemma pend_push_is_next : forall id k t stk,
  pend id (EPush id k :: t) = Some stk -> exists st, pend id t = Some st /\ stk = k :: st /\ k = length st.
Proof.
  intros id k t stk H. cbn [pend] in H. destruct (pend id t) as [st|]; [|discriminate].
  cbn [step_pend] in H. rewrite Nat.eqb_refl in H.
  destruct (Nat.eqb_spec k (length st)); [|discriminate].
  inversion H; subst. eauto.
Qed.

(* ---- $recover's numeric test --------------------------------------------- *)
(* The $callDeferred invocation that owns the current panic runs at JS depth D with
   $stackDepthOffset = o (after its own decrement) and records o + (D + 1).
   $recover() is later called by a function at depth D + 1 + m: m = 0 is the
   deferred function this invocation called, m > 0 a function further up.  n of the
   m frames in between are nested, still running $callDeferred invocations, each of
   which decremented the offset once.  The first frame above the invocation is the
   deferred Go function itself, so n < m whenever m > 0.  Then the numeric test of
   $recover succeeds exactly when m = 0, i.e. when recover is called directly by the
   deferred function that the panic sequence invoked. *)
Lemma recover_depth_test_iff : forall D o n m s,
  (m = 0 /\ n = 0) \/ (0 <= n < m) ->
  j_psd s = Some (o + (D + 1)) -> j_offset s = o - n ->
  (fst (js_recover (D + 1 + m) s) = Some (j_pv s) <-> m = 0) /\
  (m <> 0 -> fst (js_recover (D + 1 + m) s) = None).
Proof.
  intros D o n m s Hn Hp Ho. unfold js_recover, get_stack_depth. rewrite Hp, Ho.
  destruct (Z.eqb_spec (o + (D + 1)) (o - n + (D + 1 + m + 2) - 2)) as [E|E]; cbn [negb fst].
  - assert (m = 0) by lia. split; [split; intros; [assumption | reflexivity] | intros; contradiction].
  - assert (m <> 0) by lia. split; [split; intros; [discriminate | contradiction] | intros; reflexivity].
Qed.

(* ---- bounded refinement: exhaustive enumeration ---------------------------- *)

Definition result_eq_dec : forall a b : option (list event * final), {a = b} + {a <> b}.
Proof. repeat decide equality. Defined.

Fixpoint bodies_upto (n : nat) (al : list stmt) : list (list stmt) :=
  match n with O => [[]] | S n' => [] :: flat_map (fun s => map (cons s) (bodies_upto n' al)) al end.

(* "calm" programs: no Goexit, and no panic is raised inside deferred-call code *)
Definition leaves : list stmt := [STrace 1; SRecover; SPanic (PInt 1); SSetR 1; SReturn].
Definition calm_leaves : list stmt := [STrace 1; SRecover; SSetR 1; SReturn; SCallClo [SRecover]; SDeferClo [SRecover]].
Definition alphabet1 : list stmt :=
  leaves ++ map SCallClo (bodies_upto 2 leaves) ++ map SDeferClo (bodies_upto 2 calm_leaves).
(* E1: one function, at most 2 statements over 79 statement shapes (closures with up to 2 statements) *)
Definition enum1 : list program := map (fun b => [b]) (bodies_upto 2 alphabet1).

Definition alphabet2 : list stmt :=
  leaves ++ [SCallClo [SRecover]; SCallClo [SPanic (PInt 2)]; SDeferClo [SRecover]; SDeferClo [SRecover; SSetR 2];
             SDeferClo [SCallClo [SRecover]]; SDeferClo [SDeferClo [SRecover]]].
(* E2: one function, at most 5 statements over 11 statement shapes *)
Definition enum2 : list program := map (fun b => [b]) (bodies_upto 5 alphabet2).

Definition alphabet3a : list stmt :=
  [STrace 1; SRecover; SCall 1%nat; SDefer 1%nat; SDeferClo [SRecover]; SPanic (PInt 1)].
Definition alphabet3b : list stmt :=
  [STrace 2; SRecover; SDeferClo [SRecover]; SSetR 2; STraceX; SReturn].
Definition alphabet3c : list stmt :=
  [STrace 2; SRecover; SDeferClo [SRecover]; SPanic (PInt 2); SSetR 2; SPanic (PRt 0)].
(* E3: two functions; f0 (<= 3 statements) calls / defers f1 (<= 2 statements); f1 never panics *)
Definition enum3 : list program :=
  flat_map (fun a => map (fun b => [a; b]) (bodies_upto 2 alphabet3b)) (bodies_upto 3 alphabet3a).
(* E4: f0 only CALLS f1 (never defers it), f1 may panic *)
Definition enum4 : list program :=
  flat_map (fun a => map (fun b => [a; b]) (bodies_upto 2 alphabet3c))
           (bodies_upto 3 [STrace 1; SRecover; SCall 1%nat; SDeferClo [SRecover]; SSetR 1]).
(* E5: Goexit across frames, in deferred calls, with deferred calls that themselves call
   functions with defers while the goroutine is exiting *)
Definition enum5 : list program :=
  flat_map (fun a => map (fun b => [a; b])
                         (bodies_upto 2 [STrace 2; SDeferClo [STrace 3]; SDeferClo [SRecover]; SGoexit; SSetR 2;
                                         SDeferClo [SCallClo [SDeferClo [STrace 6]]; STrace 7]]))
           (bodies_upto 3 [STrace 1; SRecover; SCall 1%nat; SDeferClo [SRecover]; SDeferClo [STrace 4]; SGoexit;
                           SDeferClo [SCall 1%nat; STrace 5]; SDeferClo [SGoexit]]).
(* E6: panics raised INSIDE deferred calls (replaced panics, re-panic after recover, panic in a
   helper of a deferred call, nested deferred recover): one function, <= 4 statements over 16 shapes *)
Definition alphabet6 : list stmt :=
  leaves ++ [SCallClo [SRecover]; SCallClo [SPanic (PInt 2)]; SDeferClo [SRecover]; SDeferClo [SPanic (PInt 2)];
             SDeferClo [SRecover; SPanic (PInt 3)]; SDeferClo [SPanic (PInt 2); SRecover];
             SDeferClo [SDeferClo [SRecover]; SPanic (PInt 2)]; SDeferClo [SCallClo [SPanic (PInt 2)]];
             SDeferClo [SCallClo [SDeferClo [SRecover]; SPanic (PInt 4)]; SRecover];
             SDeferClo [SRecover; SSetR 2]; SDeferClo [STrace 2]].
Definition enum6 : list program := map (fun b => [b]) (bodies_upto 4 alphabet6).
(* E7: two functions; f0 calls / defers f1, both may panic, also inside deferred closures *)
Definition enum7 : list program :=
  flat_map (fun a => map (fun b => [a; b]) (bodies_upto 2 (alphabet3c ++ [SDeferClo [SPanic (PInt 5)]])))
           (bodies_upto 3 [STrace 1; SRecover; SCall 1%nat; SDefer 1%nat; SDeferClo [SRecover]; SPanic (PInt 1);
                           SDeferClo [SPanic (PInt 3)]; SDeferClo [SCall 1%nat; SRecover]]).
(* E8: Goexit together with panics in deferred calls *)
Definition enum8 : list program :=
  map (fun b => [b]) (bodies_upto 4 [STrace 1; SRecover; SDeferClo [SRecover]; SDeferClo [SPanic (PInt 2)]; SGoexit;
                                     SPanic (PInt 1); SDeferClo [SGoexit]; SDeferClo [SRecover; SGoexit]]).

Definition ENUM_FUEL : nat := 300.

(* every deferred call pushed during the run has been run: all pending stacks are empty *)
Definition all_run (s : jstate) : bool :=
  forallb (fun id => match pend id (j_trace s) with Some [] => true | _ => false end) (seq 0 (j_next s)).

Definition prog_ok_f (gx : variant) (fuel : nat) (p : program) : bool :=
  match impl_fun gx fuel p 0 0 wrapper j_init, spec_run fuel p with
  | Some (out, s), Some r =>
      all_run s &&
      (if result_eq_dec (obs (Some (rev (j_trace s), impl_final gx out s))) (obs (Some r)) then true else false)
  | _, _ => false
  end.

(* what the boolean check establishes — stated for an abstract amount of fuel *)
Lemma prog_ok_refines : forall gx fuel p, prog_ok_f gx fuel p = true ->
  exists r, obs (spec_run fuel p) = Some r /\ obs (impl_run gx fuel p) = Some r.
Proof.
  intros gx fuel p K. unfold prog_ok_f in K. unfold impl_run.
  destruct (impl_fun gx fuel p 0 0 wrapper j_init) as [[o s]|]; [|discriminate].
  destruct (spec_run fuel p) as [[t f]|] eqn:S; [|discriminate].
  apply andb_prop in K. destruct K as [_ K2].
  destruct (result_eq_dec (obs (Some (rev (j_trace s), impl_final gx o s))) (obs (Some (t, f)))) as [E|]; [|discriminate].
  exists (filter observable t, f). split; [reflexivity|]. rewrite E. reflexivity.
Qed.

Lemma prog_ok_all_run : forall gx fuel p, prog_ok_f gx fuel p = true ->
  exists out s, impl_fun gx fuel p 0 0 wrapper j_init = Some (out, s) /\
    forall id, (id < j_next s)%nat -> pend id (j_trace s) = Some [].
Proof.
  intros gx fuel p K. unfold prog_ok_f in K.
  destruct (impl_fun gx fuel p 0 0 wrapper j_init) as [[o s]|]; [|discriminate].
  destruct (spec_run fuel p) as [r|]; [|discriminate].
  exists o, s. split; [reflexivity|].
  apply andb_prop in K. destruct K as [K _].
  unfold all_run in K. rewrite forallb_forall in K.
  intros id Hid. specialize (K id). rewrite in_seq in K.
  assert (Hin : (0 <= id < 0 + j_next s)%nat) by lia. specialize (K Hin).
  destruct (pend id (j_trace s)) as [[|]|]; try discriminate. reflexivity.
Qed.

(* tree with the Goexit repair only (V_GOEXIT): calm programs and Goexit programs *)
Definition enum_calm : list program := enum1 ++ enum2 ++ enum3 ++ enum4 ++ enum5.
(* tree with both repairs (V_REPAIRED): additionally panics inside deferred calls *)
Definition enum_all : list program := enum_calm ++ enum6 ++ enum7.
(* with the $goroutine catch clause repaired too (V_FULL): additionally Goexit together with panics *)
Definition enum_full : list program := enum_all ++ enum8.

Lemma enum_calm_ok : forallb (prog_ok_f V_GOEXIT ENUM_FUEL) enum_calm = true. Proof. vm_compute. reflexivity. Qed.
Lemma enum_all_ok : forallb (prog_ok_f V_REPAIRED ENUM_FUEL) enum_all = true. Proof. vm_compute. reflexivity. Qed.
Lemma enum_full_ok : forallb (prog_ok_f V_FULL ENUM_FUEL) enum_full = true. Proof. vm_compute. reflexivity. Qed.

Opaque ENUM_FUEL.

Lemma refines_calm : forall p, In p enum_calm ->
  exists r, obs (spec_run ENUM_FUEL p) = Some r /\ obs (impl_run V_GOEXIT ENUM_FUEL p) = Some r.
Proof.
  intros p H. exact (prog_ok_refines V_GOEXIT ENUM_FUEL p (proj1 (forallb_forall (prog_ok_f V_GOEXIT ENUM_FUEL) enum_calm) enum_calm_ok p H)).
Qed.
Lemma lifo_once_calm : forall p, In p enum_calm ->
  exists out s, impl_fun V_GOEXIT ENUM_FUEL p 0 0 wrapper j_init = Some (out, s) /\
    forall id, (id < j_next s)%nat -> pend id (j_trace s) = Some [].
Proof.
  intros p H. exact (prog_ok_all_run V_GOEXIT ENUM_FUEL p (proj1 (forallb_forall (prog_ok_f V_GOEXIT ENUM_FUEL) enum_calm) enum_calm_ok p H)).
Qed.
Lemma refines_all : forall p, In p enum_all ->
  exists r, obs (spec_run ENUM_FUEL p) = Some r /\ obs (impl_run V_REPAIRED ENUM_FUEL p) = Some r.
Proof.
  intros p H. exact (prog_ok_refines V_REPAIRED ENUM_FUEL p (proj1 (forallb_forall (prog_ok_f V_REPAIRED ENUM_FUEL) enum_all) enum_all_ok p H)).
Qed.
Lemma lifo_once_all : forall p, In p enum_all ->
  exists out s, impl_fun V_REPAIRED ENUM_FUEL p 0 0 wrapper j_init = Some (out, s) /\
    forall id, (id < j_next s)%nat -> pend id (j_trace s) = Some [].
Proof.
  intros p H. exact (prog_ok_all_run V_REPAIRED ENUM_FUEL p (proj1 (forallb_forall (prog_ok_f V_REPAIRED ENUM_FUEL) enum_all) enum_all_ok p H)).
Qed.

Lemma refines_full : forall p, In p enum_full ->
  exists r, obs (spec_run ENUM_FUEL p) = Some r /\ obs (impl_run V_FULL ENUM_FUEL p) = Some r.
Proof.
  intros p H. exact (prog_ok_refines V_FULL ENUM_FUEL p (proj1 (forallb_forall (prog_ok_f V_FULL ENUM_FUEL) enum_full) enum_full_ok p H)).
Qed.

Lemma lifo_once_full : forall p, In p enum_full ->
  exists out s, impl_fun V_FULL ENUM_FUEL p 0 0 wrapper j_init = Some (out, s) /\
    forall id, (id < j_next s)%nat -> pend id (j_trace s) = Some [].
Proof.
  intros p H. exact (prog_ok_all_run V_FULL ENUM_FUEL p (proj1 (forallb_forall (prog_ok_f V_FULL ENUM_FUEL) enum_full) enum_full_ok p H)).
Qed.

(* an unrecovered panic raised by a deferred call while Goexit unwinds is swallowed by the catch
   clause of $goroutine (finding panic-during-goexit-swallowed):
     go func(){ defer func(){ panic(2) }(); runtime.Goexit() }() *)
Definition wit_goexit_panic : program := [[SDeferClo [SPanic (PInt 2)]; SGoexit]].
Lemma wit_goexit_panic_runs :
  obs (spec_run 100 wit_goexit_panic) = Some ([], FFatal (PInt 2)) /\
  obs (impl_run V_REPAIRED 100 wit_goexit_panic) = Some ([], FNormal) /\
  obs (impl_run V_FULL 100 wit_goexit_panic) = Some ([], FFatal (PInt 2)).
Proof. repeat split; vm_compute; reflexivity. Qed.

Lemma wit_goexit_panic_cur :
  obs (spec_run 100 wit_goexit_panic) = Some ([], FFatal (PInt 2)) /\
  obs (impl_run V_GOEXIT 100 wit_goexit_panic) = Some ([], FNormal).
Proof. split; vm_compute; reflexivity. Qed.

(* the historic witnesses under the repaired variants *)
Definition wit_goexit_fixed : program :=
  [[SDeferClo [SCallClo [SDeferClo [STrace 3]]; STrace 5]; SGoexit]].
Lemma witnesses_repaired :
  obs (impl_run V_GOEXIT 100 wit_goexit) = obs (spec_run 100 wit_goexit) /\
  obs (impl_run V_GOEXIT 100 wit_goexit_fixed) = obs (spec_run 100 wit_goexit_fixed) /\
  obs (impl_run V_REPAIRED 100 wit_replaced) = obs (spec_run 100 wit_replaced) /\
  obs (impl_run V_REPAIRED 100 wit_skipped) = obs (spec_run 100 wit_skipped) /\
  obs (impl_run V_FULL 100 wit_goexit) = obs (spec_run 100 wit_goexit) /\
  obs (impl_run V_FULL 100 wit_goexit_fixed) = obs (spec_run 100 wit_goexit_fixed) /\
  obs (impl_run V_FULL 100 wit_replaced) = obs (spec_run 100 wit_replaced) /\
  obs (impl_run V_FULL 100 wit_skipped) = obs (spec_run 100 wit_skipped) /\
  obs (impl_run V_FULL 100 wit_goexit_panic) = obs (spec_run 100 wit_goexit_panic) /\
  obs (spec_run 100 wit_goexit_panic) = Some ([], FFatal (PInt 2)) /\
  obs (spec_run 100 wit_skipped) = Some ([ERec (Some (PInt 2)); ERec None; ETrace 0; ETraceX 0 0], FNormal).
Proof. repeat split; vm_compute; reflexivity. Qed.
Lemma witnesses_full :
  obs (impl_run V_FULL 100 wit_goexit) = obs (spec_run 100 wit_goexit) /\
  obs (impl_run V_FULL 100 wit_goexit_fixed) = obs (spec_run 100 wit_goexit_fixed) /\
  obs (impl_run V_FULL 100 wit_replaced) = obs (spec_run 100 wit_replaced) /\
  obs (impl_run V_FULL 100 wit_skipped) = obs (spec_run 100 wit_skipped) /\
  obs (impl_run V_FULL 100 wit_goexit_panic) = obs (spec_run 100 wit_goexit_panic) /\
  obs (spec_run 100 wit_goexit_panic) = Some ([], FFatal (PInt 2)) /\
  obs (spec_run 100 wit_skipped) = Some ([ERec (Some (PInt 2)); ERec None; ETrace 0; ETraceX 0 0], FNormal).
Proof.
  destruct witnesses_repaired as [_ [_ [_ [_ [H1 [H2 [H3 [H4 [H5 [H6 H7]]]]]]]]]].
  repeat split; assumption.
Qed.
(* the tree with the Goexit repair only still has the replaced-panic defect *)
Lemma wit_replaced_goexit_variant :
  obs (impl_run V_GOEXIT 100 wit_replaced) = Some ([ERec (Some (PInt 2))], FFatal (PInt 1)).
Proof. vm_compute; reflexivity. Qed.

Lemma enum_sizes :
  N.of_nat (length enum_calm) = 226477%N /\ N.of_nat (length enum_all) = 329727%N /\ N.of_nat (length enum_full) = 334408%N.
Proof. vm_compute. repeat split; reflexivity. Qed.
