(* C14 — the bit-twiddling decoder of prelude.js equals the table-driven specification. *)
From Coq Require Import List NArith ZArith Bool Arith Lia ZifyN ZifyNat ZifyBool.
From Verif Require Import Model.C14_Utf8 Base.C14_Bits.
Import ListNotations.
Local Open Scope N_scope.
Ltac Zify.zify_post_hook ::= Z.div_mod_to_equations.


Lemma r2_eq c0 c1 : N.lor (N.shiftl (N.land c0 0x1F) 6) (N.land c1 0x3F) = (c0 mod 32) * 64 + c1 mod 64.
Proof.
  change 0x1F with (N.ones 5). change 0x3F with (N.ones 6).
  rewrite !land_mask, shl. apply lor_add. apply N.mod_lt. discriminate.
Qed.

Lemma r3_eq c0 c1 c2 :
  N.lor (N.lor (N.shiftl (N.land c0 0x0F) 12) (N.shiftl (N.land c1 0x3F) 6)) (N.land c2 0x3F)
  = (c0 mod 16) * 4096 + (c1 mod 64) * 64 + c2 mod 64.
Proof.
  change 0x0F with (N.ones 4). change 0x3F with (N.ones 6).
  rewrite !land_mask, !shl.
  rewrite (lor_add (c0 mod 2 ^ 4) 12) by (change (2 ^ 12) with 4096; change (2 ^ 6) with 64; lia).
  replace (c0 mod 2 ^ 4 * 2 ^ 12 + c1 mod 2 ^ 6 * 2 ^ 6) with ((c0 mod 2 ^ 4 * 64 + c1 mod 2 ^ 6) * 2 ^ 6)
    by (change (2 ^ 12) with 4096; change (2 ^ 6) with 64; lia).
  rewrite lor_add by (apply N.mod_lt; discriminate).
  change (2 ^ 12) with 4096; change (2 ^ 6) with 64; change (2 ^ 4) with 16. lia.
Qed.

Lemma r4_eq c0 c1 c2 c3 :
  N.lor (N.lor (N.lor (N.shiftl (N.land c0 0x07) 18) (N.shiftl (N.land c1 0x3F) 12))
               (N.shiftl (N.land c2 0x3F) 6)) (N.land c3 0x3F)
  = (c0 mod 8) * 262144 + (c1 mod 64) * 4096 + (c2 mod 64) * 64 + c3 mod 64.
Proof.
  change 0x07 with (N.ones 3). change 0x3F with (N.ones 6).
  rewrite !land_mask, !shl.
  change (2 ^ 18) with 262144; change (2 ^ 3) with 8.
  assert (P18 : 262144 = 2 ^ 18) by reflexivity.
  assert (P12 : 4096 = 2 ^ 12) by reflexivity.
  assert (P6 : 64 = 2 ^ 6) by reflexivity.
  pose proof (N.mod_lt c1 64 ltac:(discriminate)) as H1.
  pose proof (N.mod_lt c2 64 ltac:(discriminate)) as H2.
  pose proof (N.mod_lt c3 64 ltac:(discriminate)) as H3.
  change (2 ^ 6) with 64. change (2 ^ 12) with 4096.
  set (A := c0 mod 8) in *. set (B := c1 mod 64) in *. set (C := c2 mod 64) in *. set (D := c3 mod 64) in *.
  rewrite P18. rewrite (lor_add A 18) by (rewrite <- P18; lia). rewrite <- P18.
  replace (A * 262144 + B * 4096) with ((A * 64 + B) * 2 ^ 12) by (rewrite <- P12; lia).
  rewrite lor_add by (rewrite <- P12; lia). rewrite <- P12.
  replace ((A * 64 + B) * 4096 + C * 64) with (((A * 64 + B) * 64 + C) * 2 ^ 6) by (rewrite <- P6; lia).
  rewrite lor_add by (rewrite <- P6; lia). rewrite <- P6. lia.
Qed.

Lemma nth_error_skipn {A} (s : list A) pos k : nth_error (skipn pos s) k = nth_error s (pos + k).
Proof. revert s. induction pos; intros [|x s]; cbn; auto. destruct k; reflexivity. Qed.

Lemma decode_rune_skipn s pos : decode_rune s pos = decode_rune (skipn pos s) 0.
Proof.
  unfold decode_rune. rewrite !nth_error_skipn. rewrite Nat.add_0_r. reflexivity.
Qed.



Lemma decode0_eq_spec t : decode_rune t 0 = spec_decode t.
Proof.
  unfold decode_rune, spec_decode, ERR, second_ok, tail, between.
  destruct t as [|c0 [|c1 [|c2 [|c3 t]]]]; cbn [nth_error Nat.add]; try rewrite r2_eq; try rewrite r3_eq; try rewrite r4_eq.
  - reflexivity.
  - split_ifs; try reflexivity; try (exfalso; lia).
  - split_ifs; try reflexivity; try (exfalso; lia); try (f_equal; lia).
  - split_ifs; try reflexivity; try (exfalso; lia); try (f_equal; lia).
  - split_ifs; try reflexivity; try (exfalso; lia); try (f_equal; lia).
Qed.

(* for EVERY list of code units and EVERY position (also past the end, also units >= 256) *)
Theorem decode_eq_spec s pos : decode_rune s pos = spec_decode (skipn pos s).
Proof. rewrite decode_rune_skipn. apply decode0_eq_spec. Qed.
