(* C06 — correctness of the templates for the integer kinds of at most 32 bits
   (Model/C06_Templates.v, any repair variant V) against the Go specification (Model/C06_Spec.v). *)
From Coq Require Import ZArith Znumtheory Bool List Lia ZifyBool.
From Verif Require Import Base.C06_JsNum Model.C06_Prelude64 Model.C06_Spec Gen.C06_Tables Model.C06_Templates Proofs.C06_Arith.
Import ListNotations.
Local Open Scope Z_scope.
Ltac Zify.zify_post_hook ::= Z.div_mod_to_equations.

Definition embed (g : gres Z) : res jsnum :=
  match g with GVal v => Ret (Fin v) | GPanicDivide => Throw DivideByZero end.

Lemma chk_ok : forall z, - two53 <= z <= two53 -> chk z = Fin z.
Proof. intros z H; unfold chk; destruct (Z.leb_spec (Z.abs z) two53); [reflexivity | lia]. Qed.

(* fixNumber, through the regenerated table: brings any integer into the kind's range *)
Lemma fixnum_fin : forall k z, is64 k = false -> fixnum k (Fin z) = Fin (wrap k z).
Proof.
  intros k z H; destruct k; try discriminate H; unfold fixnum; cbn [lookup_suffix fix_suffix_table kind_eqb apply_suffix];
    unfold js_shr, js_shl, js_ushr, lift2; cbn [trunc_of]; apply f_equal; unfold wrap; cbn [signed bits];
    lazymatch goal with
    | |- shr32 (shl32 _ 24) 24 = wraps 8 _ => change (shr32 (shl32 z (32 - 8)) (32 - 8) = wraps 8 z); apply shl_shr_wraps; lia
    | |- shr32 (shl32 _ 16) 16 = wraps 16 _ => change (shr32 (shl32 z (32 - 16)) (32 - 16) = wraps 16 z); apply shl_shr_wraps; lia
    | |- ushr32 (shl32 _ 24) 24 = wrapu 8 _ => change (ushr32 (shl32 z (32 - 8)) (32 - 8) = wrapu 8 z); apply shl_ushr_wrapu; lia
    | |- ushr32 (shl32 _ 16) 16 = wrapu 16 _ => change (ushr32 (shl32 z (32 - 16)) (32 - 16) = wrapu 16 z); apply shl_ushr_wrapu; lia
    | |- shr32 _ 0 = wraps 32 _ => rewrite shr32_0; exact (to_int32_wraps z)
    | |- ushr32 _ 0 = wrapu 32 _ => rewrite ushr32_0; exact (to_uint32_wrapu z)
    end.
Qed.

Lemma fixnum_nz : forall k, is64 k = false -> fixnum k NZ = Fin 0.
Proof. intros k H; destruct k; try discriminate H; reflexivity. Qed.

Ltac range32 :=
  repeat match goal with
  | H64 : is64 ?k = false, R : in_range ?k ?z |- _ =>
      lazymatch goal with
      | _ : - two31 <= z < two32 |- _ => fail
      | _ => pose proof (in_range_32 k z H64 R)
      end
  end; unfold two31, two32, two53 in *.

Lemma in_range_53 : forall k z, is64 k = false -> in_range k z -> - two53 <= z <= two53.
Proof. intros k z H R. pose proof (in_range_32 k z H R). unfold two31, two32, two53 in *; lia. Qed.

