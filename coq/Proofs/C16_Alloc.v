(* C16 - lemmas about the newVariable model (Model/C16_Alloc.v). *)
From Coq Require Import List NArith Arith Bool Lia ZifyN ZifyNat ZifyBool DecimalN.
From Verif Require Import Model.C16_Alloc.
Import ListNotations.
Local Open Scope N_scope.

(* ---- names, maps --------------------------------------------------------------------- *)

Lemma name_eqb_true : forall a b, name_eqb a b = true <-> a = b.
Proof.
  induction a as [|x a IH]; destruct b as [|y b]; cbn [name_eqb]; split; intros H; try discriminate; try reflexivity.
  - apply andb_true_iff in H. destruct H as [H1 H2]. apply N.eqb_eq in H1. apply IH in H2. subst. reflexivity.
  - inversion H; subst. apply andb_true_iff. split; [apply N.eqb_refl | apply IH; reflexivity].
Qed.

Lemma name_eqb_refl : forall a, name_eqb a a = true.
Proof. intros. apply name_eqb_true. reflexivity. Qed.

Lemma name_eqb_false : forall a b, name_eqb a b = false <-> a <> b.
Proof.
  intros a b. split.
  - intros H E. apply name_eqb_true in E. congruence.
  - intros H. destruct (name_eqb a b) eqn:E; [apply name_eqb_true in E; contradiction | reflexivity].
Qed.

Lemma get_set_same : forall m k v, get (set m k v) k = v.
Proof.
  induction m as [|[k' v'] m IH]; intros k v; cbn [set get].
  - rewrite name_eqb_refl. reflexivity.
  - destruct (name_eqb k k') eqn:E; cbn [get]; rewrite E; [reflexivity | apply IH].
Qed.

Lemma get_set_other : forall m k v k', k' <> k -> get (set m k v) k' = get m k'.
Proof.
  induction m as [|[k0 v0] m IH]; intros k v k' Hne; cbn [set get].
  - apply name_eqb_false in Hne. rewrite Hne. reflexivity.
  - destruct (name_eqb k k0) eqn:E; cbn [get].
    + apply name_eqb_true in E. subst k0. apply name_eqb_false in Hne. rewrite Hne. reflexivity.
    + destruct (name_eqb k' k0); [reflexivity | apply IH; assumption].
Qed.

(* ---- decimal rendering ---------------------------------------------------------------- *)

Definition is_dig (c : N) : bool := (48 <=? c) && (c <=? 57).

Lemma uint_bytes_digits : forall u, Forall (fun c => is_dig c = true) (uint_bytes u).
Proof. induction u; cbn [uint_bytes]; constructor; auto. Qed.

Lemma uint_bytes_inj : forall u u', uint_bytes u = uint_bytes u' -> u = u'.
Proof.
  induction u; destruct u'; cbn [uint_bytes]; intros H; try discriminate; try reflexivity;
    inversion H; f_equal; auto.
Qed.

Lemma dec_inj : forall n m, dec n = dec m -> n = m.
Proof.
  intros n m H. apply uint_bytes_inj in H.
  rewrite <- (DecimalN.Unsigned.of_to n), <- (DecimalN.Unsigned.of_to m), H. reflexivity.
Qed.

Lemma dec_digits : forall n, Forall (fun c => is_dig c = true) (dec n).
Proof. intros. apply uint_bytes_digits. Qed.

(* ---- clean base names ------------------------------------------------------------------ *)

Fixpoint drop_digits (l : list N) : list N :=
  match l with
  | c :: r => if is_dig c then drop_digits r else l
  | [] => []
  end.

(* the base does not end in a dollar sign followed by (zero or more) digits *)
Definition cleanb (b : name) : bool :=
  match drop_digits (rev b) with
  | c :: _ => negb (c =? 36)
  | [] => true
  end.

Lemma drop_digits_app : forall d r, Forall (fun c => is_dig c = true) d -> drop_digits (d ++ 36 :: r) = 36 :: r.
Proof.
  induction d as [|c d IH]; intros r H; cbn [app drop_digits].
  - reflexivity.
  - inversion H; subst. rewrite H2. apply IH. assumption.
Qed.

Lemma clean_no_suffix : forall b p n, cleanb b = true -> b <> p ++ 36 :: dec n.
Proof.
  intros b p n Hc E. subst b. unfold cleanb in Hc.
  rewrite rev_app_distr in Hc. cbn [rev] in Hc. rewrite <- app_assoc in Hc. cbn [app] in Hc.
  rewrite drop_digits_app in Hc.
  - cbn in Hc. discriminate.
  - apply Forall_rev. apply dec_digits.
Qed.

Lemma split_at_first : forall (x : N) a1 a2 r1 r2,
  ~ In x a1 -> ~ In x a2 -> a1 ++ x :: r1 = a2 ++ x :: r2 -> a1 = a2 /\ r1 = r2.
Proof.
  induction a1 as [|y a1 IH]; destruct a2 as [|z a2]; cbn [app]; intros r1 r2 H1 H2 E.
  - inversion E. auto.
  - inversion E; subst. exfalso. apply H2. left. reflexivity.
  - inversion E; subst. exfalso. apply H1. left. reflexivity.
  - inversion E; subst. destruct (IH a2 r1 r2) as [Ea Er]; auto.
    + intros Hin. apply H1. right. assumption.
    + intros Hin. apply H2. right. assumption.
    + subst. auto.
Qed.

Lemma digits_no_dollar : forall d, Forall (fun c => is_dig c = true) d -> ~ In 36 d.
Proof.
  intros d H Hin. rewrite Forall_forall in H. apply H in Hin. cbn in Hin. discriminate.
Qed.

Lemma split_last_dollar : forall l1 l2 d1 d2,
  Forall (fun c => is_dig c = true) d1 -> Forall (fun c => is_dig c = true) d2 ->
  l1 ++ 36 :: d1 = l2 ++ 36 :: d2 -> l1 = l2 /\ d1 = d2.
Proof.
  intros l1 l2 d1 d2 H1 H2 E.
  apply (f_equal (@rev N)) in E. rewrite !rev_app_distr in E. cbn [rev] in E. rewrite <- !app_assoc in E. cbn [app] in E.
  apply split_at_first in E.
  - destruct E as [Ed El]. apply (f_equal (@rev N)) in Ed. apply (f_equal (@rev N)) in El.
    rewrite !rev_involutive in Ed, El. auto.
  - rewrite <- in_rev. apply digits_no_dollar. assumption.
  - rewrite <- in_rev. apply digits_no_dollar. assumption.
Qed.

Lemma fmt_name_inj : forall b n b' n',
  cleanb b = true -> cleanb b' = true -> fmt_name b n = fmt_name b' n' -> b = b' /\ n = n'.
Proof.
  intros b n b' n' Hb Hb' E. unfold fmt_name in E.
  destruct (n =? 0) eqn:En; destruct (n' =? 0) eqn:En'.
  - apply N.eqb_eq in En, En'. subst. auto.
  - exfalso. eapply clean_no_suffix; [exact Hb | exact E].
  - exfalso. eapply clean_no_suffix; [exact Hb' | symmetry; exact E].
  - apply split_last_dollar in E; try apply dec_digits. destruct E as [E1 E2]. apply dec_inj in E2. auto.
Qed.

(* ---- short names are clean --------------------------------------------------------------- *)

Definition letterish (c : N) : Prop := is_dig c = false /\ c <> 36.

Lemma letterish_clean : forall l, Forall letterish l -> cleanb l = true.
Proof.
  intros l H. unfold cleanb. apply Forall_rev in H. destruct (rev l) as [|c r]; [reflexivity|].
  inversion H; subst. destruct H2 as [Hd Hn]. cbn [drop_digits]. rewrite Hd.
  apply negb_true_iff. apply N.eqb_neq. assumption.
Qed.

Lemma short_name_loop_letterish : forall fuel offset j acc,
  (offset = 65 \/ offset = 97) -> Forall letterish acc -> Forall letterish (short_name_loop fuel offset j acc).
Proof.
  induction fuel as [|f IH]; intros offset j acc Ho Hacc; cbn [short_name_loop];
    assert (Hc : letterish (offset + j mod 26)) by
      (pose proof (N.mod_upper_bound j 26 ltac:(lia)); unfold letterish, is_dig; destruct Ho; subst; split; lia).
  - destruct (j <? 26); constructor; assumption.
  - destruct (j <? 26); [constructor; assumption|]. apply IH; [assumption | constructor; assumption].
Qed.

Lemma find_free_spec : forall fuel m offset i nm,
  (offset = 65 \/ offset = 97) -> find_free fuel m offset i = Some nm -> cleanb nm = true /\ get m nm = 0.
Proof.
  induction fuel as [|f IH]; intros m offset i nm Ho H; cbn [find_free] in H;
    destruct (get m (short_name offset i) =? 0) eqn:E.
  - inversion H; subst. split; [|apply N.eqb_eq; assumption].
    apply letterish_clean. apply short_name_loop_letterish; [assumption | constructor].
  - discriminate.
  - inversion H; subst. split; [|apply N.eqb_eq; assumption].
    apply letterish_clean. apply short_name_loop_letterish; [assumption | constructor].
  - eapply IH; eassumption.
Qed.

(* ---- the invariant ------------------------------------------------------------------------ *)

Definition wf_frame (f : frame) : Prop :=
  forall v, In v (fseen f) -> exists b n, v = fmt_name b n /\ cleanb b = true /\ n < get (fvars f) b.

Definition mono (c p : frame) : Prop := forall k, get (fvars p) k <= get (fvars c) k.

Inductive wf_stack : list frame -> Prop :=
| wfs_nil : wf_stack []
| wfs_cons : forall c rest, wf_frame c -> NoDup (fseen c) -> Forall (mono c) rest -> wf_stack rest -> wf_stack (c :: rest).

Definition op_clean (o : op) : Prop :=
  match o with
  | OEnter f => cleanb f = true
  | OLeave => True
  | OAlloc b _ => cleanb b = true
  | OReuse _ => True
  end.

(* histories in which no cached pointer name is re-used by a second generic instance *)
Definition op_no_reuse (o : op) : Prop :=
  match o with OReuse _ => False | _ => True end.

Lemma not_seen : forall f nm,
  wf_frame f -> cleanb nm = true -> forall n, get (fvars f) nm <= n -> ~ In (fmt_name nm n) (fseen f).
Proof.
  intros f nm Hwf Hc n Hle Hin. destruct (Hwf _ Hin) as (b & n' & E & Hb & Hlt).
  apply fmt_name_inj in E; auto. destruct E; subst. lia.
Qed.

Lemma wf_frame_bump : forall f nm n v,
  wf_frame f -> cleanb nm = true -> v = fmt_name nm n -> get (fvars f) nm <= n -> wf_frame (bump nm (n + 1) v f).
Proof.
  intros f nm n v Hwf Hc Hv Hle v' Hin. cbn [bump fseen fvars] in *. destruct Hin as [E | Hin].
  - subst v'. exists nm, n. rewrite get_set_same. repeat split; auto. lia.
  - destruct (Hwf _ Hin) as (b & n' & E & Hb & Hlt). exists b, n'. repeat split; auto.
    destruct (name_eqb b nm) eqn:Eb.
    + apply name_eqb_true in Eb. subst b. rewrite get_set_same. lia.
    + apply name_eqb_false in Eb. rewrite get_set_other; auto.
Qed.

Lemma mono_bump_both : forall c p nm n v v',
  mono c p -> mono (bump nm n v c) (bump nm n v' p).
Proof.
  intros c p nm n v v' H k. cbn [bump fvars].
  destruct (name_eqb k nm) eqn:E.
  - apply name_eqb_true in E. subst. rewrite !get_set_same. lia.
  - apply name_eqb_false in E. rewrite !get_set_other; auto.
Qed.

Lemma wf_stack_bump : forall rest nm n v,
  wf_stack rest -> cleanb nm = true -> v = fmt_name nm n ->
  Forall (fun p => get (fvars p) nm <= n) rest ->
  wf_stack (map (bump nm (n + 1) v) rest).
Proof.
  induction rest as [|p rest IH]; intros nm n v Hwf Hc Hv Hle; cbn [map]; [constructor|].
  inversion Hwf; subst. inversion Hle; subst. constructor.
  - apply wf_frame_bump; auto.
  - cbn [bump fseen]. constructor; [|assumption]. apply not_seen; auto.
  - rewrite Forall_map. rewrite Forall_forall in *. intros q Hq. apply mono_bump_both. auto.
  - apply IH; auto.
Qed.

(* freshness + preservation, one allocation *)
Lemma alloc_step : forall minify base pkg st v st',
  wf_stack st -> (minify = false -> cleanb base = true) ->
  alloc minify base pkg st = Some (v, st') ->
  wf_stack st' /\
  (forall c rest, st = c :: rest -> ~ In v (fseen c) /\ (pkg = true -> Forall (fun f => ~ In v (fseen f)) rest)).
Proof.
  intros minify base pkg st v st' Hwf Hclean H.
  destruct st as [|c parents]; [discriminate|]. cbn [alloc] in H.
  destruct (is_nil_name base); [discriminate|].
  set (chosen := if minify then find_free (S (length (fvars c))) (fvars c) (if pkg then 65 else 97) 0 else Some base) in H.
  destruct chosen as [nm|] eqn:Ech; [|discriminate].
  assert (Hnm : cleanb nm = true).
  { subst chosen. destruct minify.
    - apply find_free_spec in Ech; [tauto | destruct pkg; auto].
    - inversion Ech; subst. auto. }
  inversion Hwf as [|c0 r0 Hwfc Hnd Hmono Hwfr]; subst c0 r0.
  assert (Hpar : Forall (fun p => get (fvars p) nm <= get (fvars c) nm) parents).
  { rewrite Forall_forall in *. intros p Hp. apply Hmono. assumption. }
  assert (Hfresh_c : ~ In (fmt_name nm (get (fvars c) nm)) (fseen c)) by (apply not_seen; auto; lia).
  assert (Hfresh_p : Forall (fun f => ~ In (fmt_name nm (get (fvars c) nm)) (fseen f)) parents).
  { inversion Hwf; subst. clear - Hwfr Hpar Hnm. induction Hwfr; constructor.
    - inversion Hpar; subst. apply not_seen; auto.
    - inversion Hpar; subst. auto. }
  destruct pkg; inversion H; subst v st'; clear H.
  - split.
    + constructor.
      * apply wf_frame_bump; auto. lia.
      * cbn [bump fseen]. constructor; assumption.
      * rewrite Forall_map. rewrite Forall_forall in *. intros q Hq. apply mono_bump_both. auto.
      * apply wf_stack_bump; auto.
    + intros c' rest' E. inversion E; subst. split; auto.
  - split.
    + constructor.
      * change (wf_frame {| fvars := set (fvars c) nm (get (fvars c) nm + 1); flocals := flocals c ++ [fmt_name nm (get (fvars c) nm)];
                            fseen := fmt_name nm (get (fvars c) nm) :: fseen c |}).
        intros v' Hin. cbn [fseen fvars] in *. destruct Hin as [E | Hin].
        -- subst v'. exists nm, (get (fvars c) nm). rewrite get_set_same. repeat split; auto. lia.
        -- destruct (Hwfc _ Hin) as (b & n' & E & Hb & Hlt). exists b, n'. repeat split; auto.
           destruct (name_eqb b nm) eqn:Eb.
           ++ apply name_eqb_true in Eb. subst b. rewrite get_set_same. lia.
           ++ apply name_eqb_false in Eb. rewrite get_set_other; auto.
      * cbn [fseen]. constructor; assumption.
      * rewrite Forall_forall in *. intros q Hq k. cbn [fvars]. specialize (Hmono q Hq k).
        destruct (name_eqb k nm) eqn:Eb.
        -- apply name_eqb_true in Eb. subst k. rewrite get_set_same. lia.
        -- apply name_eqb_false in Eb. rewrite get_set_other; auto.
      * assumption.
    + intros c' rest' E. inversion E; subst. split; [assumption | discriminate].
Qed.

Lemma enter_step : forall minify f st v st',
  wf_stack st -> (minify = false -> cleanb f = true) ->
  enter minify f st = Some (v, st') -> wf_stack st'.
Proof.
  intros minify f st v st' Hwf Hc H. destruct st as [|c rest]; [discriminate|]. cbn [enter] in H.
  apply alloc_step in H; auto; [tauto|].
  inversion Hwf; subst. constructor; auto.
  constructor; [intros k; cbn; lia | assumption].
Qed.

Lemma run_wf : forall minify ops st outs fin,
  wf_stack st -> (minify = false -> Forall op_clean ops) -> Forall op_no_reuse ops ->
  run minify ops st = Some (outs, fin) -> wf_stack fin.
Proof.
  induction ops as [|o ops IH]; intros st outs fin Hwf Hc Hnr H; cbn [run] in H.
  - inversion H; subst. assumption.
  - inversion Hnr as [|o0 ops0 Hnr1 Hnr']; subst o0 ops0.
    assert (Hc' : minify = false -> Forall op_clean ops) by (intros E; specialize (Hc E); inversion Hc; assumption).
    assert (Ho : minify = false -> op_clean o) by (intros E; specialize (Hc E); inversion Hc; assumption).
    destruct o as [f | | b pkg | v0]; [| | |contradiction].
    + destruct (enter minify f st) as [[v st']|] eqn:E; [|discriminate].
      destruct (run minify ops st') as [[os fin']|] eqn:R; [|discriminate]. inversion H; subst.
      eapply IH; [| exact Hc' | exact Hnr' | exact R]. eapply enter_step; eauto.
    + destruct st as [|c [|p rest]]; try discriminate.
      destruct (run minify ops (p :: rest)) as [[os fin']|] eqn:R; [|discriminate]. inversion H; subst.
      eapply IH; [| exact Hc' | exact Hnr' | exact R]. inversion Hwf; assumption.
    + destruct (alloc minify b pkg st) as [[v st']|] eqn:E; [|discriminate].
      destruct (run minify ops st') as [[os fin']|] eqn:R; [|discriminate]. inversion H; subst.
      eapply IH; [| exact Hc' | exact Hnr' | exact R]. eapply alloc_step in E; eauto. tauto.
Qed.

Lemma root_wf : forall kws, wf_stack [root_frame kws].
Proof.
  intros. constructor; try constructor. intros v Hin. cbn in Hin. contradiction.
Qed.

Lemma wf_stack_nodup : forall st, wf_stack st -> Forall (fun f => NoDup (fseen f)) st.
Proof. induction 1; constructor; auto. Qed.

(* names visible in any context are pairwise distinct, after every history *)
Lemma alloc_distinct : forall minify kws ops outs fin,
  (minify = false -> Forall op_clean ops) -> Forall op_no_reuse ops ->
  run_root minify kws ops = Some (outs, fin) ->
  Forall (fun f => NoDup (fseen f)) fin.
Proof.
  intros. apply wf_stack_nodup. eapply run_wf; [apply root_wf | eassumption | eassumption | eassumption].
Qed.

(* ... and the next allocation after any history returns a name that is not visible yet *)
Lemma alloc_fresh : forall minify kws ops outs c rest base pkg v st',
  (minify = false -> Forall op_clean ops) -> Forall op_no_reuse ops -> (minify = false -> cleanb base = true) ->
  run_root minify kws ops = Some (outs, c :: rest) ->
  alloc minify base pkg (c :: rest) = Some (v, st') ->
  ~ In v (fseen c) /\ (pkg = true -> Forall (fun f => ~ In v (fseen f)) rest).
Proof.
  intros minify kws ops outs c rest base pkg v st' Hc Hnr Hb Hrun Ha.
  assert (Hwf : wf_stack (c :: rest)) by (eapply run_wf; [apply root_wf | eassumption | eassumption | eassumption]).
  eapply alloc_step in Ha; eauto. destruct Ha as [_ Ha]. apply Ha. reflexivity.
Qed.

(* ---- reserved words ---------------------------------------------------------------------- *)

Definition seeded (kws : list name) (st : list frame) : Prop :=
  Forall (fun f => forall k, In k kws -> 1 <= get (fvars f) k) st.

Lemma fold_seed : forall kws m k,
  (In k kws \/ 1 <= get m k) -> 1 <= get (fold_left (fun m k => set m k 1) kws m) k.
Proof.
  induction kws as [|a kws IH]; intros m k H; cbn [fold_left].
  - destruct H as [[]|H]. assumption.
  - apply IH. destruct (name_eqb k a) eqn:E.
    + apply name_eqb_true in E. subst. right. rewrite get_set_same. lia.
    + apply name_eqb_false in E. destruct H as [[H|H]|H].
      * congruence.
      * left. assumption.
      * right. rewrite get_set_other; auto.
Qed.

Lemma root_seeded : forall kws, seeded kws [root_frame kws].
Proof.
  intros. constructor; [|constructor]. intros k Hk. cbn [root_frame fvars]. apply fold_seed. left. assumption.
Qed.

Lemma get_set_ge : forall m nm n k, get m k <= get (set m nm (n + 1)) k \/ 1 <= get (set m nm (n + 1)) k.
Proof.
  intros. destruct (name_eqb k nm) eqn:E.
  - apply name_eqb_true in E. subst. rewrite get_set_same. right. lia.
  - apply name_eqb_false in E. rewrite get_set_other; auto. left. lia.
Qed.

Definition no_dollar (k : name) : bool := forallb (fun c => negb (c =? 36)) k.

Lemma fmt_has_dollar : forall nm n, n <> 0 -> no_dollar (fmt_name nm n) = false.
Proof.
  intros nm n Hn. unfold fmt_name. apply N.eqb_neq in Hn. rewrite Hn. unfold no_dollar.
  rewrite forallb_app. cbn [forallb]. rewrite N.eqb_refl. cbn. apply andb_false_r.
Qed.

Lemma alloc_seeded : forall kws minify base pkg st v st',
  seeded kws st -> forallb no_dollar kws = true ->
  alloc minify base pkg st = Some (v, st') ->
  seeded kws st' /\ ~ In v kws.
Proof.
  intros kws minify base pkg st v st' Hs Hnd H.
  destruct st as [|c parents]; [discriminate|]. cbn [alloc] in H.
  destruct (is_nil_name base); [discriminate|].
  destruct (if minify then find_free (S (length (fvars c))) (fvars c) (if pkg then 65 else 97) 0 else Some base) as [nm|]; [|discriminate].
  inversion Hs as [|c0 r0 Hsc Hsr]; subst c0 r0.
  assert (Hv : ~ In (fmt_name nm (get (fvars c) nm)) kws).
  { intros Hin. destruct (N.eq_dec (get (fvars c) nm) 0) as [E0|E0].
    - rewrite E0 in Hin. unfold fmt_name in Hin. cbn in Hin. specialize (Hsc _ Hin). lia.
    - rewrite forallb_forall in Hnd. specialize (Hnd _ Hin). rewrite fmt_has_dollar in Hnd; [discriminate | assumption]. }
  assert (Hset : forall (f : frame) k, In k kws -> 1 <= get (fvars f) k -> 1 <= get (set (fvars f) nm (get (fvars c) nm + 1)) k).
  { intros f k Hk Hge. destruct (get_set_ge (fvars f) nm (get (fvars c) nm) k); lia. }
  destruct pkg; inversion H; subst v st'; (split; [|assumption]).
  - constructor.
    + intros k Hk. cbn [bump fvars]. apply Hset; auto.
    + unfold seeded in *. rewrite Forall_map. rewrite Forall_forall in *. intros q Hq k Hk. cbn [bump fvars]. apply Hset; auto.
  - constructor; [|assumption]. intros k Hk. cbn [fvars]. apply Hset; auto.
Qed.

Definition op_reuse_not_in (bad : list name) (o : op) : Prop :=
  match o with OReuse v => ~ In v bad | _ => True end.

Lemma run_not_reserved : forall kws minify ops st outs fin,
  seeded kws st -> forallb no_dollar kws = true -> Forall (op_reuse_not_in kws) ops ->
  run minify ops st = Some (outs, fin) ->
  forall v, In (ON v) outs -> ~ In v kws.
Proof.
  intros kws minify. induction ops as [|o ops IH]; intros st outs fin Hs Hnd Hru H v Hin; cbn [run] in H.
  - inversion H; subst. contradiction.
  - inversion Hru as [|o0 ops0 Hru1 Hru']; subst o0 ops0.
    destruct o as [f | | b pkg | v1].
    + destruct st as [|c rest]; [discriminate|]. cbn [enter] in H.
      destruct (alloc minify f true _) as [[v0 st']|] eqn:E; [|discriminate].
      destruct (run minify ops st') as [[os fin']|] eqn:R; [|discriminate]. inversion H; subst.
      apply alloc_seeded with (kws := kws) in E; auto.
      * destruct E as [Hs' Hv]. destruct Hin as [Hin|Hin]; [inversion Hin; subst; assumption | eapply IH; eauto].
      * inversion Hs; subst. constructor; auto.
    + destruct st as [|c [|p rest]]; try discriminate.
      destruct (run minify ops (p :: rest)) as [[os fin']|] eqn:R; [|discriminate]. inversion H; subst.
      destruct Hin as [Hin|Hin]; [discriminate|]. eapply IH; [| assumption | exact Hru' | exact R | exact Hin]. inversion Hs; assumption.
    + destruct (alloc minify b pkg st) as [[v0 st']|] eqn:E; [|discriminate].
      destruct (run minify ops st') as [[os fin']|] eqn:R; [|discriminate]. inversion H; subst.
      apply alloc_seeded with (kws := kws) in E; auto. destruct E as [Hs' Hv].
      destruct Hin as [Hin|Hin]; [inversion Hin; subst; assumption | eapply IH; eauto].
    + destruct st as [|c rest]; [discriminate|]. cbn [op_reuse_not_in] in Hru1.
      destruct (existsb (name_eqb v1) (flocals c)).
      * destruct (run minify ops (c :: rest)) as [[os fin']|] eqn:R; [|discriminate]. inversion H; subst.
        destruct Hin as [Hin|Hin]; [inversion Hin; subst; assumption | eapply IH; eauto].
      * destruct (run minify ops _) as [[os fin']|] eqn:R; [|discriminate]. inversion H; subst.
        destruct Hin as [Hin|Hin]; [inversion Hin; subst; assumption|].
        eapply IH; [| assumption | exact Hru' | exact R | exact Hin].
        inversion Hs; subst. constructor; assumption.
Qed.

(* no allocation ever returns a word of [reserved], provided every such word is in the seeded table *)
Lemma alloc_not_reserved : forall kws reserved minify ops outs fin,
  forallb no_dollar kws = true ->
  forallb (fun k => existsb (name_eqb k) kws) reserved = true ->
  Forall (op_reuse_not_in kws) ops ->
  run_root minify kws ops = Some (outs, fin) ->
  forall v, In (ON v) outs -> ~ In v reserved.
Proof.
  intros kws reserved minify ops outs fin Hnd Hsub Hru Hrun v Hin Hres.
  rewrite forallb_forall in Hsub. specialize (Hsub _ Hres). apply existsb_exists in Hsub.
  destruct Hsub as (k & Hk & E). apply name_eqb_true in E. subst k.
  eapply run_not_reserved; [apply root_seeded | exact Hnd | exact Hru | exact Hrun | exact Hin | exact Hk].
Qed.

(* ---- JavaScript globals ---------------------------------------------------------------------- *)

Definition op_base_not_in (bad : list name) (o : op) : Prop :=
  match o with
  | OEnter f => ~ In f bad
  | OLeave => True
  | OAlloc b _ => ~ In b bad
  | OReuse v => ~ In v bad
  end.

Lemma alloc_nonminify_form : forall base pkg st v st',
  alloc false base pkg st = Some (v, st') -> exists n, v = fmt_name base n.
Proof.
  intros base pkg st v st' H. destruct st as [|c parents]; [discriminate|]. cbn [alloc] in H.
  destruct (is_nil_name base); [discriminate|].
  destruct pkg; inversion H; subst; eexists; reflexivity.
Qed.

Lemma fmt_not_in : forall bad base n, forallb no_dollar bad = true -> ~ In base bad -> ~ In (fmt_name base n) bad.
Proof.
  intros bad base n Hnd Hb Hin. destruct (N.eq_dec n 0) as [E|E].
  - subst. apply Hb. exact Hin.
  - rewrite forallb_forall in Hnd. specialize (Hnd _ Hin). rewrite fmt_has_dollar in Hnd; [discriminate | assumption].
Qed.

(* without minification a returned name is the requested one, possibly with a $n suffix: it can
   only be one of [bad] if the Go identifier itself was *)
Lemma run_nonminify_form : forall bad ops st outs fin,
  forallb no_dollar bad = true -> Forall (op_base_not_in bad) ops ->
  run false ops st = Some (outs, fin) ->
  forall v, In (ON v) outs -> ~ In v bad.
Proof.
  intros bad. induction ops as [|o ops IH]; intros st outs fin Hnd Hops H v Hin; cbn [run] in H.
  - inversion H; subst. contradiction.
  - inversion Hops as [|o0 ops0 Ho Hops']; subst o0 ops0.
    destruct o as [f | | b pkg | v1].
    4: { destruct st as [|c rest]; [discriminate|]. cbn [op_base_not_in] in Ho.
         destruct (existsb (name_eqb v1) (flocals c));
           (destruct (run false ops _) as [[os fin']|] eqn:R; [|discriminate]); inversion H; subst;
           (destruct Hin as [Hin|Hin]; [inversion Hin; subst; assumption | eapply IH; eauto]). }
    + destruct st as [|c rest]; [discriminate|]. cbn [enter] in H.
      destruct (alloc false f true _) as [[v0 st']|] eqn:E; [|discriminate].
      destruct (run false ops st') as [[os fin']|] eqn:R; [|discriminate]. inversion H; subst.
      destruct Hin as [Hin|Hin]; [|eapply IH; eauto].
      inversion Hin; subst. apply alloc_nonminify_form in E. destruct E as [n E]. subst. apply fmt_not_in; assumption.
    + destruct st as [|c [|p rest]]; try discriminate.
      destruct (run false ops (p :: rest)) as [[os fin']|] eqn:R; [|discriminate]. inversion H; subst.
      destruct Hin as [Hin|Hin]; [discriminate|]. eapply IH; eauto.
    + destruct (alloc false b pkg st) as [[v0 st']|] eqn:E; [|discriminate].
      destruct (run false ops st') as [[os fin']|] eqn:R; [|discriminate]. inversion H; subst.
      destruct Hin as [Hin|Hin]; [|eapply IH; eauto].
      inversion Hin; subst. apply alloc_nonminify_form in E. destruct E as [n E]. subst. apply fmt_not_in; assumption.
Qed.

(* ---- a decidable NoDup, to refute distinctness on a witness ------------------------------------ *)

Fixpoint nodupb (l : list name) : bool :=
  match l with
  | [] => true
  | x :: r => negb (existsb (name_eqb x) r) && nodupb r
  end.

Lemma NoDup_nodupb : forall l, NoDup l -> nodupb l = true.
Proof.
  induction 1 as [|x r Hx Hr IH]; cbn [nodupb]; [reflexivity|].
  rewrite IH, andb_true_r. apply negb_true_iff. destruct (existsb (name_eqb x) r) eqn:E; [|reflexivity].
  apply existsb_exists in E. destruct E as (y & Hy & Exy). apply name_eqb_true in Exy. subst. contradiction.
Qed.
