(* C10 — lemmas: ImportDependencies ([collect], [import_deps]) yields a topological order
   of exactly the reachable packages, for every closed acyclic import graph. *)
From Coq Require Import List NArith Arith Bool Lia Permutation.
From Verif Require Import Model.C10_Order Proofs.C10_Order.
Import ListNotations.

Definition keys {B} (g : list (str * B)) : list str := map fst g.

Lemma lookup_In_keys : forall B (g : list (str * B)) p v, lookup g p = Some v -> In p (keys g).
Proof.
  induction g as [|[k v'] r IH]; simpl; intros p v H; try discriminate.
  destruct (str_eqb p k) eqn:E.
  - apply str_eqb_eq in E. left. symmetry. exact E.
  - right. eapply IH. exact H.
Qed.

(* p imports q *)
Definition edge (g : graph) (p q : str) : Prop := exists imps, lookup g p = Some imps /\ In q imps.

Inductive reach (g : graph) : str -> str -> Prop :=
| reach_refl : forall p, reach g p p
| reach_step : forall p q r, edge g p q -> reach g q r -> reach g p r.

(* every imported package can be loaded *)
Definition closed (g : graph) : Prop := forall p q, edge g p q -> exists imps, lookup g q = Some imps.
(* no import cycles: some measure strictly decreases along imports *)
Definition ranked (g : graph) (rank : str -> nat) : Prop := forall p q, edge g p q -> rank q < rank p.
Definition acyclic (g : graph) : Prop := exists rank, ranked g rank.

(* q occurs strictly before (an occurrence of) p *)
Definition before (q p : str) (l : list str) : Prop := exists l1 l2, l = l1 ++ p :: l2 /\ In q l1.

Definition topo (g : graph) (l : list str) : Prop :=
  NoDup l /\ (forall p, In p l -> exists imps, lookup g p = Some imps) /\
  (forall p q, In p l -> edge g p q -> before q p l).

Lemma before_In : forall q p l, before q p l -> In q l /\ In p l.
Proof.
  intros q p l [l1 [l2 [E H]]]. subst. split; apply in_or_app.
  - left. exact H.
  - right. left. reflexivity.
Qed.

Lemma before_app : forall q p l e, before q p l -> before q p (l ++ e).
Proof.
  intros q p l e [l1 [l2 [E H]]]. subst. exists l1, (l2 ++ e). split; auto.
  rewrite <- app_assoc. reflexivity.
Qed.

Lemma before_last : forall q p l, In q l -> before q p (l ++ [p]).
Proof. intros q p l H. exists l, []. split; auto. Qed.

Lemma reach_rank : forall g rank a x, ranked g rank -> reach g a x -> rank x <= rank a.
Proof.
  intros g rank a x Hr H. induction H as [p | p q r He _ IH].
  - lia.
  - apply Hr in He. lia.
Qed.

Lemma topo_closed_reach : forall g l q x, topo g l -> In q l -> reach g q x -> In x l.
Proof.
  intros g l q x [_ [_ Ho]] Hq H. induction H as [p | p q r He _ IH]; auto.
  apply IH. apply (Ho _ _ Hq) in He. apply before_In in He. tauto.
Qed.

Lemma NoDup_snoc : forall (l : list str) x, NoDup l -> ~ In x l -> NoDup (l ++ [x]).
Proof.
  intros l x Hn Hx. eapply Permutation_NoDup.
  - apply Permutation_cons_append.
  - constructor; auto.
Qed.

Lemma collect_mem : forall fuel g p deps, mem p deps = true -> collect fuel g p deps = Some deps.
Proof. intros fuel g p deps H. destruct fuel; simpl; rewrite H; reflexivity. Qed.

(* ---- the result only grows ------------------------------------------------ *)

Lemma fold_opt_extends : forall (f : str -> list str -> option (list str)) roots,
  (forall q deps d, In q roots -> f q deps = Some d -> exists ext, d = deps ++ ext) ->
  forall deps d, fold_opt f roots deps = Some d -> exists ext, d = deps ++ ext.
Proof.
  induction roots as [|a r IH]; simpl; intros Hf deps d H.
  - inversion H; subst. exists []. rewrite app_nil_r. reflexivity.
  - destruct (f a deps) as [d1|] eqn:E; try discriminate.
    destruct (Hf a deps d1 (or_introl eq_refl) E) as [e1 E1]. subst d1.
    assert (Hf' : forall q deps d, In q r -> f q deps = Some d -> exists ext, d = deps ++ ext).
    { intros q deps0 d0 Hq. apply Hf. right. exact Hq. }
    destruct (IH Hf' _ _ H) as [e2 E2]. subst d.
    exists (e1 ++ e2). rewrite app_assoc. reflexivity.
Qed.

Lemma collect_extends : forall fuel g p deps d, collect fuel g p deps = Some d -> exists ext, d = deps ++ ext.
Proof.
  induction fuel as [|f IH]; intros g p deps d H; simpl in H.
  - destruct (mem p deps); try discriminate. inversion H; subst. exists []. rewrite app_nil_r. reflexivity.
  - destruct (mem p deps). { inversion H; subst. exists []. rewrite app_nil_r. reflexivity. }
    destruct (lookup g p) as [imps|]; try discriminate.
    destruct (fold_opt (collect f g) imps deps) as [d1|] eqn:E; try discriminate.
    inversion H; subst.
    apply fold_opt_extends in E.
    + destruct E as [e E]. subst d1. exists (e ++ [p]). rewrite app_assoc. reflexivity.
    + intros q deps0 d0 _ Hq. eapply IH. exact Hq.
Qed.

(* ---- specification of one call -------------------------------------------- *)

Definition collect_post (g : graph) (p : str) (deps ext : list str) : Prop :=
  topo g (deps ++ ext) /\ In p (deps ++ ext) /\ (forall x, In x ext -> reach g p x) /\
  ((In p deps /\ ext = []) \/ (~ In p deps /\ exists e, ext = e ++ [p])).

Lemma fold_collect_spec : forall g f roots,
  (forall q deps, In q roots -> topo g deps ->
     exists ext, collect f g q deps = Some (deps ++ ext) /\ collect_post g q deps ext) ->
  forall deps, topo g deps ->
  exists ext, fold_opt (collect f g) roots deps = Some (deps ++ ext) /\ topo g (deps ++ ext) /\
    (forall q, In q roots -> In q (deps ++ ext)) /\
    (forall x, In x ext -> exists q, In q roots /\ reach g q x).
Proof.
  induction roots as [|a r IH]; intros Hf deps Ht; simpl.
  - exists []. rewrite app_nil_r. split; [reflexivity | split; [exact Ht | split]].
    + intros q [].
    + intros x [].
  - destruct (Hf a deps (or_introl eq_refl) Ht) as [e1 [E1 HP]].
    destruct HP as [T1 [I1 [R1 _]]].
    rewrite E1.
    assert (Hf' : forall q d, In q r -> topo g d ->
              exists ext, collect f g q d = Some (d ++ ext) /\ collect_post g q d ext).
    { intros q d Hq. apply Hf. right. exact Hq. }
    destruct (IH Hf' (deps ++ e1) T1) as [e2 [E2 [T2 [I2 R2]]]].
    exists (e1 ++ e2). rewrite app_assoc. split; [exact E2 | split; [exact T2 | split]].
    + intros q [Hq | Hq].
      * subst q. apply in_or_app. left. exact I1.
      * apply I2. exact Hq.
    + intros x Hx. apply in_app_or in Hx. destruct Hx as [Hx | Hx].
      * exists a. split; [left; reflexivity | apply R1; exact Hx].
      * destruct (R2 x Hx) as [q [Hq Hr]]. exists q. split; [right; exact Hq | exact Hr].
Qed.

Lemma collect_post_mem : forall g p deps, topo g deps -> In p deps -> collect_post g p deps [].
Proof.
  intros g p deps Ht Hp. unfold collect_post. rewrite app_nil_r.
  split; [exact Ht | split; [exact Hp | split]].
  - intros x [].
  - left. split; [exact Hp | reflexivity].
Qed.

Lemma collect_spec : forall g rank, closed g -> ranked g rank ->
  forall fuel p deps stk,
    topo g deps -> (exists imps, lookup g p = Some imps) ->
    NoDup stk -> incl stk (keys g) -> (forall x, In x stk -> rank p < rank x) ->
    length g <= fuel + length stk ->
    exists ext, collect fuel g p deps = Some (deps ++ ext) /\ collect_post g p deps ext.
Proof.
  intros g rank Hcl Hrk. induction fuel as [|f IH]; intros p deps stk Ht [imps Hl] Hnd Hincl Hst Hfuel.
  - (* no fuel: impossible unless p is already there *)
    destruct (mem p deps) eqn:M.
    + exists []. rewrite app_nil_r. split; [apply collect_mem; exact M |].
      apply collect_post_mem; [exact Ht | apply mem_In; exact M].
    + exfalso.
      assert (Hnd' : NoDup (p :: stk)).
      { constructor; auto. intro Hp. apply Hst in Hp. lia. }
      assert (Hincl' : incl (p :: stk) (keys g)).
      { intros x [Hx | Hx]. subst. eapply lookup_In_keys; eauto. apply Hincl; auto. }
      pose proof (NoDup_incl_length Hnd' Hincl') as HL. unfold keys in HL. rewrite map_length in HL. simpl in HL. lia.
  - destruct (mem p deps) eqn:M.
    + exists []. rewrite app_nil_r. split; [apply collect_mem; exact M |].
      apply collect_post_mem; [exact Ht | apply mem_In; exact M].
    + assert (Hnp : ~ In p deps) by (apply mem_not_In; exact M).
      assert (Hnd' : NoDup (p :: stk)).
      { constructor; auto. intro Hp. apply Hst in Hp. lia. }
      assert (Hincl' : incl (p :: stk) (keys g)).
      { intros x [Hx | Hx]. subst. eapply lookup_In_keys; eauto. apply Hincl; auto. }
      assert (HF : forall q deps0, In q imps -> topo g deps0 ->
                exists ext, collect f g q deps0 = Some (deps0 ++ ext) /\ collect_post g q deps0 ext).
      { intros q deps0 Hq Ht0.
        assert (He : edge g p q) by (exists imps; split; auto).
        apply IH with (stk := p :: stk).
        - exact Ht0.
        - apply Hcl in He. exact He.
        - exact Hnd'.
        - exact Hincl'.
        - intros x [Hx | Hx].
          + subst x. apply Hrk. exact He.
          + apply Hrk in He. apply Hst in Hx. lia.
        - simpl. lia. }
      destruct (fold_collect_spec g f imps HF deps Ht) as [ext [E [T [I R]]]].
      exists (ext ++ [p]). simpl. rewrite M, Hl, E. rewrite app_assoc. split; [reflexivity |].
      assert (Hpe : ~ In p ext).
      { intro Hp. destruct (R p Hp) as [q [Hq Hr]].
        assert (He : edge g p q) by (exists imps; split; auto).
        apply Hrk in He. apply (reach_rank g rank q p Hrk) in Hr. lia. }
      destruct T as [Tn [Tl To]].
      unfold collect_post. rewrite app_assoc.
      split; [unfold topo; split; [| split] | split; [| split]].
      * apply NoDup_snoc; auto. intro Hp. apply in_app_or in Hp. tauto.
      * intros x Hx. apply in_app_or in Hx. destruct Hx as [Hx | [Hx | []]].
        -- apply Tl. exact Hx.
        -- subst x. exists imps. exact Hl.
      * intros x q Hx He. apply in_app_or in Hx. destruct Hx as [Hx | [Hx | []]].
        -- apply before_app. apply To; auto.
        -- subst x. destruct He as [imps0 [Hl0 Hq]]. rewrite Hl in Hl0. inversion Hl0; subst imps0.
           apply before_last. apply I. exact Hq.
      * apply in_or_app. right. left. reflexivity.
      * intros x Hx. apply in_app_or in Hx. destruct Hx as [Hx | [Hx | []]].
        -- destruct (R x Hx) as [q [Hq Hr]]. eapply reach_step; [| exact Hr]. exists imps. split; auto.
        -- subst x. apply reach_refl.
      * right. split; [exact Hnp |]. exists ext. reflexivity.
Qed.

Lemma topo_nil : forall g, topo g [].
Proof. intro g. repeat split; try constructor; intros; contradiction. Qed.

(* a whole list of roots, starting from nothing, with enough fuel *)
Lemma collect_roots_spec : forall g rank roots fuel, closed g -> ranked g rank ->
  (forall q, In q roots -> exists imps, lookup g q = Some imps) ->
  length g <= fuel ->
  exists l, fold_opt (collect fuel g) roots [] = Some l /\ topo g l /\
    (forall x, In x l <-> exists q, In q roots /\ reach g q x).
Proof.
  intros g rank roots fuel Hcl Hrk Hroots Hfuel.
  assert (HF : forall q deps, In q roots -> topo g deps ->
            exists ext, collect fuel g q deps = Some (deps ++ ext) /\ collect_post g q deps ext).
  { intros q deps Hq Ht. apply (collect_spec g rank Hcl Hrk) with (stk := []).
    - exact Ht.
    - apply Hroots. exact Hq.
    - constructor.
    - intros x [].
    - intros x [].
    - simpl. lia. }
  destruct (fold_collect_spec g fuel roots HF [] (topo_nil g)) as [ext [E [T [I R]]]].
  simpl in *. exists ext. split; [exact E | split; [exact T |]].
  intro x. split.
  - apply R.
  - intros [q [Hq Hr]]. eapply topo_closed_reach; [exact T | apply I; exact Hq | exact Hr].
Qed.

Theorem import_deps_topological : forall g rank root root_imports,
  closed g -> ranked g rank ->
  (forall q, In q (RUNTIME :: root_imports) -> exists imps, lookup g q = Some imps) ->
  lookup g root = None ->
  exists l, import_deps g root root_imports = Some (l ++ [root]) /\
    NoDup (l ++ [root]) /\
    (forall x, In x l <-> exists q, In q (RUNTIME :: root_imports) /\ reach g q x) /\
    (forall p q, In p l -> edge g p q -> before q p (l ++ [root])) /\
    (forall q, In q root_imports -> before q root (l ++ [root])).
Proof.
  intros g rank root ri Hcl Hrk Hroots Hroot.
  destruct (collect_roots_spec g rank (RUNTIME :: ri) (length g) Hcl Hrk Hroots (le_n _)) as [l [E [[Tn [Tl To]] Hiff]]].
  exists l. unfold import_deps. rewrite E.
  split; [reflexivity | split; [| split; [exact Hiff | split]]].
  - apply NoDup_snoc; auto. intro Hr. apply Tl in Hr. destruct Hr as [imps Hr]. congruence.
  - intros p q Hp He. apply before_app. apply To; auto.
  - intros q Hq. apply before_last. apply Hiff. exists q. split; [right; exact Hq | apply reach_refl].
Qed.

(* ---- decidable checks of the hypotheses (used for non-vacuity examples) ---- *)

Definition closedb (g : graph) : bool :=
  forallb (fun kv => forallb (fun q => match lookup g q with Some _ => true | None => false end) (snd kv)) g.

Definition rank_of (t : list (str * nat)) (p : str) : nat := match lookup t p with Some n => n | None => O end.

Definition rankedb (g : graph) (t : list (str * nat)) : bool :=
  forallb (fun kv => forallb (fun q => Nat.ltb (rank_of t q) (rank_of t (fst kv))) (snd kv)) g.

Lemma lookup_In : forall B (g : list (str * B)) p v, lookup g p = Some v -> In (p, v) g.
Proof.
  induction g as [|[k w] r IH]; simpl; intros p v H; try discriminate.
  destruct (str_eqb p k) eqn:E.
  - apply str_eqb_eq in E. inversion H; subst. left. reflexivity.
  - right. apply IH. exact H.
Qed.

Lemma closedb_sound : forall g, closedb g = true -> closed g.
Proof.
  intros g H p q [imps [H1 H2]]. apply lookup_In in H1.
  unfold closedb in H. rewrite forallb_forall in H. specialize (H _ H1). simpl in H.
  rewrite forallb_forall in H. specialize (H _ H2).
  destruct (lookup g q) as [i|]; try discriminate. exists i. reflexivity.
Qed.

Lemma rankedb_sound : forall g t, rankedb g t = true -> ranked g (rank_of t).
Proof.
  intros g t H p q [imps [H1 H2]]. apply lookup_In in H1.
  unfold rankedb in H. rewrite forallb_forall in H. specialize (H _ H1). simpl in H.
  rewrite forallb_forall in H. specialize (H _ H2). apply Nat.ltb_lt in H. exact H.
Qed.
