(* C13 — the float-logic overrides of math.go against upstream, on all bit patterns: proofs. *)
From Coq Require Import ZArith Lia List Bool.
From Verif Require Import Model.C13_Float.
Import ListNotations.
Local Open Scope Z_scope.

Definition wf (x : fl) : Prop := match x with FFin _ m _ => 0 <= m | _ => True end.

Lemma decode_wf : forall b, 0 <= b -> wf (decode b).
Proof.
  intros b Hb. unfold decode.
  assert (H : 0 <= Z.land b (two52 - 1)) by (apply Z.land_nonneg; left; exact Hb).
  set (fr := Z.land b (two52 - 1)) in *. clearbody fr.
  destruct (_ =? 2047); [destruct (fr =? 0); exact I|].
  destruct (_ =? 0); unfold wf, two52; lia.
Qed.

(* the input class on which the `1/x == -Inf` test misfires: negative, non-zero, |x| <= 2^-1024 *)
Definition tiny_negative (x : fl) : bool :=
  match x with FFin _ m _ => recip_is_neginf x && negb (m =? 0) | _ => false end.

Lemma recip_pos : forall m e, recip_is_neginf (FFin false m e) = false.
Proof. reflexivity. Qed.

Lemma recip_zero : forall e, recip_is_neginf (FFin true 0 e) = true.
Proof. reflexivity. Qed.

(* ------------------------------------------------------------------ Signbit / Copysign *)
Theorem signbit_agrees : forall x, wf x -> js_isnan x = false -> js_signbit x = go_signbit x.
Proof.
  intros x Hwf Hn. destruct x as [n | n | n m e]; [discriminate | |].
  - unfold js_signbit. cbn. apply orb_false_r.
  - unfold js_signbit. cbn [lt0 go_signbit]. destruct n; [|reflexivity].
    cbn [andb]. destruct (Z.ltb_spec 0 m) as [|Hm]; [reflexivity|].
    cbn in Hwf. assert (m = 0) by lia. subst m. reflexivity.
Qed.

Theorem copysign_agrees : forall x y, wf x -> wf y -> js_isnan y = false ->
  obs (js_copysign x y) = obs (go_copysign x y).
Proof.
  intros x y Hx Hy Hny. unfold js_copysign, go_copysign. rewrite (signbit_agrees y Hy Hny).
  destruct x as [n | n | n m e].
  - destruct (xorb _ _); reflexivity.
  - rewrite (signbit_agrees (FInf n) I eq_refl). cbn [go_signbit set_sign neg_fl].
    destruct n, (go_signbit y); reflexivity.
  - rewrite (signbit_agrees (FFin n m e) Hx eq_refl). cbn [go_signbit set_sign neg_fl].
    destruct n, (go_signbit y); reflexivity.
Qed.

(* ------------------------------------------------------------------ Trunc *)
Theorem trunc_math_trunc_correct : forall x, js_trunc TruncViaMathTrunc x = go_trunc x.
Proof. reflexivity. Qed.

Lemma int_part_zero : forall e, int_part 0 e = 0.
Proof. intros e. unfold int_part. destruct (0 <=? e); [apply Z.shiftl_0_l | apply Z.shiftr_0_l]. Qed.

Lemma int_part_nonneg : forall m e, 0 <= m -> 0 <= int_part m e.
Proof. intros m e H. unfold int_part. destruct (0 <=? e); [apply Z.shiftl_nonneg | apply Z.shiftr_nonneg]; exact H. Qed.

Lemma encode_zero : forall n e, encode (FFin n 0 e) = sign_word n.
Proof. reflexivity. Qed.

Lemma neg_recip_pos : forall m e, recip_is_neginf (FFin true m e) = false -> 0 <= m -> 0 < m.
Proof.
  intros m e H Hm. destruct (Z.eq_dec m 0) as [->|]; [rewrite recip_zero in H; discriminate | lia].
Qed.

(* Copysign(t, x) where t is an integer magnitude n carrying the sign si: the result has x's sign *)
Lemma copysign_int : forall si n neg m e,
  0 <= n -> 0 <= m -> recip_is_neginf (FFin neg m e) = false -> (0 < n -> 0 < m) -> (n = 0 -> si = false \/ si = neg) ->
  obs (js_copysign (FFin si n 0) (FFin neg m e)) = obs (FFin neg n 0).
Proof.
  intros si n neg m e Hn Hm Hrec Hnm Hz.
  assert (Hsx : js_signbit (FFin neg m e) = neg).
  { unfold js_signbit. rewrite Hrec. cbn [lt0]. rewrite orb_false_r. destruct neg; [|reflexivity].
    pose proof (neg_recip_pos m e Hrec Hm). cbn [andb]. apply Z.ltb_lt. lia. }
  unfold js_copysign. rewrite Hsx.
  destruct (Z.eq_dec n 0) as [->|Hn0].
  - destruct (Hz eq_refl) as [->| ->].
    + replace (js_signbit (FFin false 0 0)) with false by reflexivity.
      destruct neg; reflexivity.
    + destruct neg; reflexivity.
  - assert (Hn1 : 0 < n) by lia.
    assert (Hst : js_signbit (FFin si n 0) = si).
    { unfold js_signbit. cbn [lt0]. replace (0 <? n) with true by (symmetry; apply Z.ltb_lt; lia). rewrite andb_true_r.
      destruct si; reflexivity. }
    rewrite Hst. destruct si, neg; reflexivity.
Qed.

Lemma int_part_pos_m : forall m e, 0 <= m -> 0 < int_part m e -> 0 < m.
Proof. intros m e Hm H. destruct (Z.eq_dec m 0) as [->|]; [rewrite int_part_zero in H; lia | lia]. Qed.

Theorem trunc_guarded_partial : forall x, wf x -> tiny_negative x = false ->
  obs (js_trunc TruncViaMathTruncGuarded x) = obs (go_trunc x).
Proof.
  intros x Hwf Ht. destruct x as [n | n | neg m e]; [reflexivity | reflexivity |].
  cbn [js_trunc js_trunc_guarded go_trunc ieee_trunc]. cbn in Hwf. unfold tiny_negative in Ht.
  destruct (recip_is_neginf (FFin neg m e)) eqn:Hrec.
  - cbn [andb] in Ht. apply negb_false_iff in Ht. apply Z.eqb_eq in Ht. subst m.
    rewrite int_part_zero. unfold obs. rewrite !encode_zero. reflexivity.
  - apply copysign_int; try assumption.
    + apply int_part_nonneg; assumption.
    + apply int_part_pos_m; assumption.
    + intros _. right. reflexivity.
Qed.

(* the original shape: correct exactly while the truncated magnitude fits what `x >> 0` preserves *)
Lemma wrap32s_abs : forall n (neg : bool), 0 <= n <= 2147483648 ->
  Z.abs (wrap32s (if neg then - n else n)) = n /\
  (n = 0 -> (wrap32s (if neg then - n else n) <? 0) = false).
Proof.
  intros n neg H. unfold wrap32s. destruct neg.
  - split; [|intros ->; reflexivity].
    replace ((- n + 2147483648) mod 4294967296) with (- n + 2147483648) by (symmetry; apply Z.mod_small; lia). lia.
  - split; [|intros ->; reflexivity].
    destruct (Z.eq_dec n 2147483648) as [->|]; [reflexivity|].
    replace ((n + 2147483648) mod 4294967296) with (n + 2147483648) by (symmetry; apply Z.mod_small; lia). lia.
Qed.

Theorem trunc_int32_partial : forall x, wf x -> tiny_negative x = false ->
  (match x with FFin _ m e => int_part m e <= 2147483648 | _ => True end) ->
  obs (js_trunc TruncViaInt32 x) = obs (go_trunc x).
Proof.
  intros x Hwf Ht Hsmall. destruct x as [n | n | neg m e]; [reflexivity | reflexivity |].
  cbn [js_trunc js_trunc_int32 go_trunc ieee_trunc]. cbn in Hwf. unfold tiny_negative in Ht.
  destruct (recip_is_neginf (FFin neg m e)) eqn:Hrec.
  - cbn [andb] in Ht. apply negb_false_iff in Ht. apply Z.eqb_eq in Ht. subst m.
    rewrite int_part_zero. unfold obs. rewrite !encode_zero. reflexivity.
  - pose proof (int_part_nonneg m e Hwf) as Hn0.
    destruct (wrap32s_abs (int_part m e) neg ltac:(lia)) as [Habs Hz].
    rewrite Habs. apply copysign_int; try assumption.
    + apply int_part_pos_m; assumption.
    + intros E. left. apply Hz. exact E.
Qed.

(* 1e10, and the smallest negative denormal *)
Theorem trunc_int32_refuted :
  obs (js_trunc TruncViaInt32 (decode 4756540486875873280)) <> obs (go_trunc (decode 4756540486875873280)) /\
  obs (js_trunc TruncViaInt32 (decode 9223372036854775809)) <> obs (go_trunc (decode 9223372036854775809)) /\
  obs (js_trunc TruncViaMathTruncGuarded (decode 9223372036854775809)) <> obs (go_trunc (decode 9223372036854775809)).
Proof. vm_compute. repeat split; discriminate. Qed.

(* negative NaN 0xFFF8000000000001: Signbit; Copysign(+0, negative NaN) *)
Theorem signbit_copysign_refuted :
  js_signbit (decode 18444492273895866369) <> go_signbit (decode 18444492273895866369) /\
  obs (js_copysign (decode 0) (decode 18444492273895866369)) <> obs (go_copysign (decode 0) (decode 18444492273895866369)).
Proof. vm_compute. split; discriminate. Qed.

(* ------------------------------------------------------------------ Modf *)
Definition obs2 (p : fl * fl) : Z * Z := (obs (fst p), obs (snd p)).

(* -0.5 and the smallest negative denormal *)
Theorem modf_via_mod_refuted :
  obs2 (js_modf (decode 13826050856027422720)) <> obs2 (go_modf (decode 13826050856027422720)) /\
  obs2 (js_modf (decode 9223372036854775809)) <> obs2 (go_modf (decode 9223372036854775809)).
Proof. vm_compute. split; discriminate. Qed.


(* ------------------------------------------------------------------ Modf, second shape:
   i := Trunc(f); return i, Copysign(f-i, f)   with Trunc = Math.trunc: equal to upstream on ALL arguments *)
Lemma signbit_fin : forall neg m e, 0 <= m -> js_signbit (FFin neg m e) = true -> neg = true.
Proof.
  intros neg m e Hm H. destruct neg; [reflexivity|]. unfold js_signbit in H. cbn in H. discriminate.
Qed.

Lemma signbit_neg_true : forall m e, 0 <= m -> js_signbit (FFin true m e) = true.
Proof.
  intros m e Hm. unfold js_signbit. cbn [lt0 andb]. destruct (Z.ltb_spec 0 m); [reflexivity|].
  assert (m = 0) by lia. subst m. reflexivity.
Qed.

Lemma signbit_pos_false : forall m e, js_signbit (FFin false m e) = false.
Proof. reflexivity. Qed.

(* Copysign(+0, x) *)
Lemma copysign_zero : forall neg m e, 0 <= m -> obs (js_copysign (FFin false 0 0) (FFin neg m e)) = sign_word neg.
Proof.
  intros neg m e Hm. unfold js_copysign. replace (js_signbit (FFin false 0 0)) with false by reflexivity.
  destruct neg.
  - rewrite signbit_neg_true by assumption. reflexivity.
  - rewrite signbit_pos_false. reflexivity.
Qed.

Theorem modf_via_trunc_correct : forall x, wf x ->
  obs2 (js_modf_via_trunc TruncViaMathTrunc x) = obs2 (go_modf x).
Proof.
  intros x Hwf. destruct x as [n | n | neg m e]; [reflexivity | reflexivity |].
  cbn in Hwf. unfold js_modf_via_trunc, go_modf. cbn [js_trunc ieee_trunc].
  unfold fsub_exact, frac_part, int_part.
  destruct (Z.leb_spec 0 e) as [He|He]; unfold obs2; cbn [fst snd]; (f_equal; try reflexivity).
  - (* integer-valued: the difference is exactly zero *)
    rewrite Z.min_r by lia. rewrite Z.sub_diag. replace (e - 0) with e by lia. change (2 ^ 0) with 1.
    rewrite Z.shiftl_mul_pow2 by lia.
    replace ((if neg then - m else m) * 2 ^ e - (if neg then - (m * 2 ^ e) else m * 2 ^ e) * 1) with 0 by (destruct neg; ring).
    cbn [Z.eqb]. replace (neg && negb neg) with false by (destruct neg; reflexivity). cbn [andb].
    rewrite copysign_zero by assumption. unfold obs. rewrite encode_zero. reflexivity.
  - rewrite Z.min_l by lia. rewrite Z.sub_diag. change (2 ^ 0) with 1.
    rewrite Z.shiftr_div_pow2 by lia.
    assert (Hp : 0 < 2 ^ (- e)) by (apply Z.pow_pos_nonneg; lia).
    replace (0 - e) with (- e) by lia.
    assert (Hones : Z.shiftl 1 (- e) - 1 = Z.ones (- e)) by (rewrite Z.ones_equiv, Z.shiftl_1_l; lia).
    rewrite Hones, Z.land_ones by lia.
    set (q := m / 2 ^ (- e)). set (fm := m mod 2 ^ (- e)).
    assert (Hdm : m = 2 ^ (- e) * q + fm) by (apply Z.div_mod; lia).
    assert (Hfm : 0 <= fm < 2 ^ (- e)) by (apply Z.mod_pos_bound; lia).
    replace ((if neg then - m else m) * 1 - (if neg then - q else q) * 2 ^ (- e)) with (if neg then - fm else fm)
      by (destruct neg; rewrite Hdm at 1; ring).
    destruct (Z.eq_dec fm 0) as [E0|E0].
    + rewrite E0. replace (if neg then - 0 else 0) with 0 by (destruct neg; reflexivity). cbn [Z.eqb].
      replace (neg && negb neg) with false by (destruct neg; reflexivity). cbn [andb].
      rewrite copysign_zero by assumption. unfold obs. rewrite encode_zero. reflexivity.
    + replace ((if neg then - fm else fm) =? 0) with false by (symmetry; apply Z.eqb_neq; destruct neg; lia).
      replace ((if neg then - fm else fm) <? 0) with neg by (symmetry; destruct neg; [apply Z.ltb_lt | apply Z.ltb_ge]; lia).
      replace (Z.abs (if neg then - fm else fm)) with fm by (destruct neg; lia).
      unfold js_copysign.
      assert (Hs : js_signbit (FFin neg fm e) = js_signbit (FFin neg m e)).
      { destruct neg; [rewrite !signbit_neg_true by lia; reflexivity | reflexivity]. }
      rewrite Hs, xorb_nilpotent. reflexivity.
Qed.
