(* C14 — encodeString: literal round trip and safety of the emitted text. *)
From Coq Require Import List NArith Bool Arith Lia ZifyN ZifyNat ZifyBool.
From Verif Require Import Model.C14_Utf8 Model.C14_Literal.
Import ListNotations.
Local Open Scope N_scope.

Definition all_bytes : list N := map N.of_nat (seq 0 256).

Lemma in_all_bytes b : b < 256 -> In b all_bytes.
Proof.
  intros H. unfold all_bytes. rewrite <- (N2Nat.id b). apply in_map. apply in_seq. lia.
Qed.

(* a fact about every byte, from a complete sweep over the 256 values *)
Lemma byte_sweep (P : N -> bool) : forallb P all_bytes = true -> forall b, b < 256 -> P b = true.
Proof. intros H b Hb. rewrite forallb_forall in H. apply H, in_all_bytes, Hb. Qed.

Lemma enc_byte_body b rest : b < 256 -> js_body (enc_byte b ++ rest) = push b (js_body rest).
Proof.
  intros H. apply in_all_bytes in H. vm_compute in H.
  repeat (destruct H as [<-|H]; [reflexivity|]). destruct H.
Qed.

Lemma is_bytes_cons c s : is_bytes (c :: s) = true -> c < 256 /\ is_bytes s = true.
Proof. unfold is_bytes. cbn [forallb]. intros H. apply andb_true_iff in H as [H1 H2]. split; [lia|auto]. Qed.

Lemma body_flat_map s rest : is_bytes s = true ->
  js_body (flat_map enc_byte s ++ rest) = fold_right push (js_body rest) s.
Proof.
  induction s as [|c s IH]; intros H; [reflexivity|].
  apply is_bytes_cons in H as [H1 H2]. cbn [flat_map fold_right].
  rewrite <- app_assoc, enc_byte_body by assumption. rewrite IH by assumption. reflexivity.
Qed.

Lemma fold_push s v tl : fold_right push (Some (v, tl)) s = Some (s ++ v, tl).
Proof. induction s; cbn [fold_right app]; [reflexivity|]. rewrite IHs. reflexivity. Qed.

(* the literal is read back exactly, and ends exactly at its closing quote, in any context *)
Lemma literal_roundtrip_ctx s tl : is_bytes s = true ->
  js_unescape (encode_string s ++ tl) = Some (s, tl).
Proof.
  intros H. unfold encode_string, js_unescape. cbn [app]. rewrite N.eqb_refl.
  rewrite <- app_assoc. rewrite body_flat_map by assumption. cbn [app js_body]. rewrite N.eqb_refl.
  rewrite fold_push, app_nil_r. reflexivity.
Qed.

Lemma literal_roundtrip s : is_bytes s = true -> js_unescape (encode_string s) = Some (s, []).
Proof. intros H. rewrite <- (app_nil_r (encode_string s)). apply literal_roundtrip_ctx, H. Qed.

Lemma enc_byte_printable b : b < 256 -> forallb printable (enc_byte b) = true.
Proof. apply (byte_sweep (fun b => forallb printable (enc_byte b))). vm_compute. reflexivity. Qed.

Lemma forallb_flat_map {A B} (p : B -> bool) (f : A -> list B) l :
  (forall x, In x l -> forallb p (f x) = true) -> forallb p (flat_map f l) = true.
Proof.
  induction l; cbn [flat_map]; intros H; [reflexivity|].
  rewrite forallb_app. rewrite H by (left; reflexivity). rewrite IHl; [reflexivity|].
  intros; apply H; right; auto.
Qed.

Lemma is_bytes_in s : is_bytes s = true -> forall x, In x s -> x < 256.
Proof. unfold is_bytes. rewrite forallb_forall. intros H x Hx. specialize (H x Hx). lia. Qed.

Lemma encode_string_safe s : is_bytes s = true -> forallb printable (encode_string s) = true.
Proof.
  intros H. unfold encode_string. cbn [forallb]. rewrite forallb_app. cbn [forallb].
  replace (printable 34) with true by reflexivity. cbn [andb]. rewrite andb_true_r.
  apply forallb_flat_map. intros x Hx. apply enc_byte_printable. eapply is_bytes_in; eauto.
Qed.

Lemma forallb_impl {A} (p q : A -> bool) l : (forall x, p x = true -> q x = true) ->
  forallb p l = true -> forallb q l = true.
Proof. intros Hi H. rewrite forallb_forall in *. auto. Qed.

(* no 0x08: a literal can never be mistaken for a source-map hint (C19 code_ok) *)
Lemma encode_string_no_magic s : is_bytes s = true ->
  forallb (fun x => negb (x =? 8)) (encode_string s) = true.
Proof.
  intros H. eapply forallb_impl; [|apply encode_string_safe, H].
  intros x. unfold printable. lia.
Qed.

(* no raw line terminator, quote characters only as delimiters or escaped (by the round trip) *)
Lemma encode_string_no_newline s : is_bytes s = true ->
  forallb (fun x => negb ((x =? 10) || (x =? 13))) (encode_string s) = true.
Proof.
  intros H. eapply forallb_impl; [|apply encode_string_safe, H].
  intros x. unfold printable. lia.
Qed.

(* Go strings stay byte strings: the literal's value has only units < 256 *)
Lemma literal_value_bytes s v tl : is_bytes s = true -> js_unescape (encode_string s) = Some (v, tl) -> is_bytes v = true.
Proof. intros H E. rewrite literal_roundtrip in E by assumption. congruence. Qed.
