(* C08 phase 4 — consequences of the stack-shape invariant (Proofs/C08_P4_Once.v .. Steps4.v) *)
From Coq Require Import List ZArith Bool Arith Lia.
From Verif Require Import Model.C08_Panic Proofs.C08_Panic Proofs.C08_P4_Once Proofs.C08_P4_Steps4.
Import ListNotations.

Lemma Inv_init : Inv j_init.
Proof.
  split; [split|]; cbn; auto.
  - constructor.
  - intros id [].
Qed.

(* what the invariant gives for one activation of a compiled function (any program, fuel, depth, body),
   started in a state satisfying the invariant: however the activation is left, the deferStack is cut back
   to (a suffix of) what it was, $stackDepthOffset is restored, no panic stays queued, and every $deferred
   list that does not belong to a still active frame is empty *)
Lemma fun_leaves_clean : forall vr fuel p d cell body s out s',
  v_pushback_asleep_only vr = true -> Inv s ->
  impl_fun vr fuel p d cell body s = Some (out, s') ->
  Inv s' /\ j_offset s' = j_offset s /\ suffix (j_deferStack s') (j_deferStack s) /\
  ((forall e, out <> JThrow e) -> j_deferStack s' = j_deferStack s) /\
  (forall id, ~ In id (j_deferStack s) -> list_get (j_lists s') id = []).
Proof.
  intros vr fuel p d cell body s out s' Hao HI H.
  destruct (stack_shape fuel) as (_ & Hf & _).
  destruct (Hf vr p d cell body s out s' Hao HI H) as (A & B & C & D).
  split; [exact A|]. split; [exact B|]. split; [exact C|]. split; [exact D|].
  intros id Hn. apply A. intro Hi. apply Hn. eapply suffix_in; eassumption.
Qed.

(* defer_lifo_exactly_once, per activation: every deferred call pushed by an activation that has been left
   (normal return, panic, Goexit) has run exactly once, in LIFO order — [pend] replays the ghost push/run
   events of the list as a stack and ends empty.  Includes the activation's own list (its id is fresh). *)
Lemma defer_exactly_once_per_activation : forall vr fuel p d cell body s out s',
  v_pushback_asleep_only vr = true -> Inv s -> inv s ->
  impl_fun vr fuel p d cell body s = Some (out, s') ->
  forall id, ~ In id (j_deferStack s) -> pend id (j_trace s') = Some [].
Proof.
  intros vr fuel p d cell body s out s' Hao HI Hinv H id Hn.
  destruct (fun_leaves_clean _ _ _ _ _ _ _ _ _ Hao HI H) as (_ & _ & _ & _ & E).
  destruct (impl_preserves_inv fuel) as (_ & Hf & _).
  rewrite (Hf vr p d cell body s out s' Hinv H id). rewrite (E id Hn). reflexivity.
Qed.

(* the whole goroutine *)
Lemma defer_lifo_exactly_once : forall vr fuel p out s,
  v_pushback_asleep_only vr = true ->
  impl_fun vr fuel p 0 0 wrapper j_init = Some (out, s) ->
  forall id, pend id (j_trace s) = Some [].
Proof.
  intros vr fuel p out s Hao H id.
  eapply defer_exactly_once_per_activation; [exact Hao|exact Inv_init|exact inv_init|exact H|].
  intros [].
Qed.

Lemma defer_once_full : forall vr, v_pushback_asleep_only vr = true ->
  forall fuel p out s, impl_fun vr fuel p 0 0 wrapper j_init = Some (out, s) ->
  forall id, pend id (j_trace s) = Some [].
Proof. intros vr Hv fuel p out s H id. exact (defer_lifo_exactly_once vr fuel p out s Hv H id). Qed.

Lemma run_ends_clean : forall vr fuel p out s,
  v_pushback_asleep_only vr = true ->
  impl_fun vr fuel p 0 0 wrapper j_init = Some (out, s) ->
  j_deferStack s = [] /\ j_panicStack s = [] /\ j_offset s = 0%Z /\ forall id, list_get (j_lists s) id = [].
Proof.
  intros vr fuel p out s Hao H.
  destruct (fun_leaves_clean _ _ _ _ _ _ _ _ _ Hao Inv_init H) as (A & B & C & _ & E).
  split; [apply suffix_nil_inv; exact C|]. split; [apply A|]. split; [exact B|].
  intro id. apply E. intros [].
Qed.

(* the invariant at every $callDeferred invocation made by a function epilogue: its $deferred array is the
   top of the deferStack or no longer in it, and when the invocation returns normally exactly that frame
   has been popped *)
Lemma epilogue_pops_own_frame : forall vr fuel p d id jsErr s out s',
  v_pushback_asleep_only vr = true -> Inv s ->
  (In id (j_deferStack s) -> exists ds0, j_deferStack s = id :: ds0) ->
  impl_cd vr fuel p d (Some id) jsErr false s = Some (out, s') ->
  Inv s' /\ j_offset s' = j_offset s /\ ~ In id (j_deferStack s') /\
  ((forall e, out <> JThrow e) -> exists ds0, j_deferStack s = id :: ds0 /\ j_deferStack s' = ds0).
Proof.
  intros vr fuel p d id jsErr s out s' Hao [HI0 Hps] Ht H.
  destruct (stack_shape fuel) as (_ & _ & Hc & _).
  assert (Hpre : cd_pre (Some id) jsErr false s).
  { split; [exact HI0|]. split; [exact Hps|]. exists id. split; [reflexivity|exact Ht]. }
  destruct (Hc vr p d (Some id) jsErr false s out s' Hao Hpre H) as (A & B & _ & _ & E).
  destruct (E eq_refl id eq_refl) as [F G]. auto.
Qed.

(* $panic never returns: a panic either reaches the top of the stack (fatal) or is recovered, and then null is
   thrown to unwind the JavaScript stack down to the recovering frame *)
Lemma panic_never_returns : forall vr fuel p d v s out s',
  v_pushback_asleep_only vr = true -> Inv s ->
  impl_cd vr fuel p d None None true (j_set_ps (v :: j_panicStack s) s) = Some (out, s') ->
  (exists e, out = JThrow e) /\ Inv s' /\ j_offset s' = j_offset s /\ suffix (j_deferStack s') (j_deferStack s).
Proof.
  intros vr fuel p d v s out s' Hao [HI0 Hps] H.
  destruct (stack_shape fuel) as (_ & _ & Hc & _).
  assert (Hpre : cd_pre None None true (j_set_ps (v :: j_panicStack s) s)).
  { split; [destruct HI0 as [A B C]; split; cbn; auto|]. split; [reflexivity|]. split; [reflexivity|].
    cbn. rewrite Hps. eexists; reflexivity. }
  destruct (Hc vr p d None None true _ out s' Hao Hpre H) as (A & B & C & D & _).
  split; [apply D; reflexivity|]. split; [exact A|]. split; [exact B|exact C].
Qed.
