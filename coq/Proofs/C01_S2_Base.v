(* C01 stage 2 — simulation proof, part 1: equations of the interpreters, static facts about the
   allocator, arguments, parameters, assignment of a call result *)
From Coq Require Import ZArith List String Bool Lia.
From Verif Require Import Model.C01_GoSem Model.C01_JsSem Model.C01_Compile Model.C01_Wf
  Model.C01_S2_GoSem Model.C01_S2_JsSem Model.C01_S2_Compile Model.C01_S2_Wf
  Proofs.C01_Arith Proofs.C01_SimBase Proofs.C01_SimExpr Proofs.C01_SimExpr2 Proofs.C01_SimBin Proofs.C01_SimStatic
  Proofs.C01_SimStmt1 Proofs.C01_SimStmt2 Proofs.C01_SimStmt3 Proofs.C01_SimStmt4.
Import ListNotations.
Local Open Scope Z_scope.

Lemma inj2_eq : forall v, inj2 v = inj v.
Proof. reflexivity. Qed.

Lemma prepend2_nil : forall S V (r : res2 S V), prepend2 [] r = r.
Proof. intros S V [g s o|o| |]; reflexivity. Qed.
Lemma prepend2_app : forall S V o1 o2 (r : res2 S V), prepend2 o1 (prepend2 o2 r) = prepend2 (o1 ++ o2) r.
Proof. intros S V o1 o2 [g s o|o| |]; cbn; rewrite ?app_assoc; reflexivity. Qed.
Lemma of_sres_prepend : forall S V o (r : sres S), @of_sres S V (prepend o r) = prepend2 o (of_sres r).
Proof. intros S V o [[|[l|]|l] s o1|o1| |]; reflexivity. Qed.

(* ---------------------------------------------------------------- MiniJS equations *)
Section JEq.
  Variable jfe : list (fname * jfdef).

  Lemma jexec2_list_nil : forall f s, jexec2_list jfe f [] s = Q2Ok GNorm s [].
  Proof. reflexivity. Qed.
  Lemma jexec2_list_cons : forall f a r s,
    jexec2_list jfe f (a :: r) s = match jexec2 jfe f a s with
                                   | Q2Ok GNorm s1 o1 => prepend2 o1 (jexec2_list jfe f r s1)
                                   | q => q
                                   end.
  Proof. reflexivity. Qed.
  Lemma jexec2_list_app : forall f l1 l2 s,
    jexec2_list jfe f (l1 ++ l2) s = match jexec2_list jfe f l1 s with
                                     | Q2Ok GNorm s1 o1 => prepend2 o1 (jexec2_list jfe f l2 s1)
                                     | q => q
                                     end.
  Proof.
    induction l1 as [|a l1 IH]; intros l2 s.
    - cbn [app]. rewrite jexec2_list_nil, prepend2_nil. reflexivity.
    - cbn [app]. rewrite !jexec2_list_cons. destruct (jexec2 jfe f a s) as [g s1 o1|o| |]; try reflexivity.
      destruct g; try reflexivity. rewrite IH.
      destruct (jexec2_list jfe f l1 s1) as [g2 s2 o2|o| |]; try reflexivity.
      destruct g2; try reflexivity. cbn [prepend2]. rewrite prepend2_app. reflexivity.
  Qed.
  Lemma jexec2_list_single : forall f a s, jexec2_list jfe f [a] s = jexec2 jfe f a s.
  Proof.
    intros. rewrite jexec2_list_cons. destruct (jexec2 jfe f a s) as [g s1 o1|o| |]; try reflexivity.
    destruct g; try reflexivity. rewrite jexec2_list_nil. cbn [prepend2]. rewrite app_nil_r. reflexivity.
  Qed.

  Lemma jexec2_base : forall f b s, jexec2 jfe f (J2Base b) s = of_sres (jexec f b s).
  Proof. destruct f; reflexivity. Qed.

  Lemma jexec2_list_base : forall f js s, jexec2_list jfe f (map J2Base js) s = of_sres (jexec_list f js s).
  Proof.
    induction js as [|a js IH]; intros s.
    - reflexivity.
    - cbn [map]. rewrite jexec2_list_cons, jexec_list_cons, jexec2_base.
      destruct (jexec f a s) as [[|[l|]|l] s1 o1|o1| |]; try reflexivity.
      cbn [of_sres]. rewrite IH, of_sres_prepend. reflexivity.
  Qed.

  Lemma jexec2_call : forall f dst fn args s,
    jexec2 jfe f (J2Call dst fn args) s =
    match jeval_list s args with
    | inl (Some (vs, s1)) =>
        match f with
        | O => Q2OOF
        | S fl =>
            match find_fn jfe fn with
            | None => Q2Stuck
            | Some fd =>
                match bind_params (jf_params fd) (map inj vs) [] with
                | None => Q2Stuck
                | Some s0 =>
                    after_call (fun s a => set s (match dst with Some n => n | None => (""%string, 0%N) end) a)
                      (has_dst dst) s1 (finish_call (jexec2_list jfe fl (jf_body fd) s0))
                end
            end
        end
    | inl None => Q2Stuck
    | inr JThrow => Q2Panic []
    | inr _ => Q2Stuck
    end.
  Proof. destruct f; reflexivity. Qed.

  Lemma jexec2_if : forall f c t e s,
    jexec2 jfe f (J2If c t e) s =
    match jeval s c with
    | JOk (JB true) s1 => jexec2_list jfe f t s1
    | JOk (JB false) s1 => match e with None => Q2Ok GNorm s1 [] | Some b => jexec2_list jfe f b s1 end
    | JOk _ _ => Q2Stuck
    | JThrow => Q2Panic []
    | JStuck => Q2Stuck
    end.
  Proof. destruct f; reflexivity. Qed.

  Lemma jexec2_while : forall f body s,
    jexec2 jfe f (J2While body) s =
    match jexec2_list jfe f body s with
    | Q2Ok GNorm s1 o1 => match f with O => Q2OOF | S fl => prepend2 o1 (jexec2 jfe fl (J2While body) s1) end
    | Q2Ok GBrk s1 o1 => Q2Ok GNorm s1 o1
    | r => r
    end.
  Proof. destruct f; reflexivity. Qed.

  Lemma jexec2_return : forall f e s,
    jexec2 jfe f (J2Return e) s =
    match e with
    | None => Q2Ok (GRet None) s []
    | Some e => match jeval s e with
                | JOk v s1 => Q2Ok (GRet (Some v)) s1 []
                | JThrow => Q2Panic []
                | JStuck => Q2Stuck
                end
    end.
  Proof. destruct f; destruct e; reflexivity. Qed.

  Lemma head_true : forall f jc sj sj1, jeval sj jc = JOk (JB true) sj1 ->
    jexec2 jfe f (loop_head jc) sj = Q2Ok GNorm sj1 [].
  Proof.
    intros f jc sj sj1 H. unfold loop_head. rewrite jexec2_base, jexec_if. cbn [jeval]. rewrite H. reflexivity.
  Qed.
  Lemma head_false : forall f jc sj sj1, jeval sj jc = JOk (JB false) sj1 ->
    jexec2 jfe f (loop_head jc) sj = Q2Ok GBrk sj1 [].
  Proof.
    intros f jc sj sj1 H. unfold loop_head. rewrite jexec2_base, jexec_if. cbn [jeval]. rewrite H.
    cbn [js_un negb]. rewrite jexec_list_single, jexec_break. reflexivity.
  Qed.
  Lemma head_throw : forall f jc sj, jeval sj jc = JThrow ->
    jexec2 jfe f (loop_head jc) sj = Q2Panic [].
  Proof.
    intros f jc sj H. unfold loop_head. rewrite jexec2_base, jexec_if. cbn [jeval]. rewrite H. reflexivity.
  Qed.
End JEq.

(* ---------------------------------------------------------------- MiniGo equations *)
Section GEq.
  Variable fe : fenv.

  Lemma exec2_skip : forall f s, exec2 fe f TSkip s = Q2Ok GNorm s [].
  Proof. destruct f; reflexivity. Qed.
  Lemma exec2_base : forall f b s, exec2 fe f (TBase b) s = of_sres (exec f b s).
  Proof. destruct f; reflexivity. Qed.
  Lemma exec2_seq : forall f a b s,
    exec2 fe f (TSeq a b) s = match exec2 fe f a s with
                              | Q2Ok GNorm s1 o1 => prepend2 o1 (exec2 fe f b s1)
                              | r => r
                              end.
  Proof. destruct f; reflexivity. Qed.
  Lemma exec2_call : forall f dst fn args s,
    exec2 fe f (TCall dst fn args) s =
    match eval_list s args with
    | inl (Some vs) =>
        match f with
        | O => Q2OOF
        | S fl =>
            match find_fn fe fn with
            | None => Q2Stuck
            | Some fd =>
                match bind_params (map fst (f_params fd)) vs [] with
                | None => Q2Stuck
                | Some s0 =>
                    after_call (fun s a => set s (dst_name dst) a) (has_dst dst) s
                      (finish_call (exec2 fe fl (f_body fd) s0))
                end
            end
        end
    | inl None => Q2Stuck
    | inr EPanic => Q2Panic []
    | inr _ => Q2Stuck
    end.
  Proof. destruct f; reflexivity. Qed.
  Lemma exec2_if : forall f c t e s,
    exec2 fe f (TIf c t e) s = match eval s c with
                               | EV (VB true) => exec2 fe f t s
                               | EV (VB false) => exec2 fe f e s
                               | EV _ => Q2Stuck
                               | EPanic => Q2Panic []
                               | EStuck => Q2Stuck
                               end.
  Proof. destruct f; reflexivity. Qed.
  Lemma exec2_return : forall f e s,
    exec2 fe f (TReturn e) s =
    match e with
    | None => Q2Ok (GRet None) s []
    | Some e => match eval s e with
                | EV a => Q2Ok (GRet (Some a)) s []
                | EPanic => Q2Panic []
                | EStuck => Q2Stuck
                end
    end.
  Proof. destruct f; destruct e; reflexivity. Qed.

  Definition loop_once (f : nat) (c : expr) (post : stmt) (body : stmt2) (s1 : store val) : res2 (store val) val :=
    match eval s1 c with
    | EV (VB true) =>
        match exec2 fe f body s1 with
        | Q2Ok GNorm s2 o2 =>
            match exec_simple post s2 with
            | ROk SNormal s3 o3 =>
                match f with
                | O => Q2OOF
                | S fl => prepend2 (o2 ++ o3) (exec2 fe fl (TFor SSkip c post body) s3)
                end
            | ROk _ _ _ => Q2Stuck
            | RPanic o => Q2Panic (o2 ++ o)
            | ROOF => Q2OOF
            | RStuck => Q2Stuck
            end
        | Q2Ok GBrk _ _ => Q2Stuck
        | r => r
        end
    | EV (VB false) => Q2Ok GNorm s1 []
    | EV _ => Q2Stuck
    | EPanic => Q2Panic []
    | EStuck => Q2Stuck
    end.

  Lemma exec2_for : forall f init c post body s,
    exec2 fe f (TFor init c post body) s =
    match exec_simple init s with
    | ROk SNormal s1 o1 => prepend2 o1 (loop_once f c post body s1)
    | ROk _ _ _ => Q2Stuck
    | RPanic o => Q2Panic o
    | ROOF => Q2OOF
    | RStuck => Q2Stuck
    end.
  Proof. destruct f; reflexivity. Qed.
  Lemma exec2_for_skip : forall f c post body s,
    exec2 fe f (TFor SSkip c post body) s = loop_once f c post body s.
  Proof. intros. rewrite exec2_for. cbn [exec_simple]. apply prepend2_nil. Qed.
End GEq.

(* ---------------------------------------------------------------- static facts *)
Definition else2 (st1 : cstate) (e : stmt2) : option (list jstmt2) * cstate :=
  match e with
  | TSkip => (None, st1)
  | _ => let '(je, st2) := cstmt2 st1 e in (Some je, st2)
  end.

Lemma cstmt2_if : forall st c t e,
  cstmt2 st (TIf c t e) =
  let '(jc, st0) := cexpr st c in let '(jt, st1) := cstmt2 st0 t in let '(oe, st2) := else2 st1 e in
  ([J2If jc jt oe], st2).
Proof.
  intros st c t e. cbn [cstmt2]. destruct (cexpr st c) as [jc st0]. destruct (cstmt2 st0 t) as [jt st1].
  unfold else2. destruct e; try reflexivity;
    match goal with |- context [cstmt2 st1 ?X] => destruct (cstmt2 st1 X) as [je st2]; reflexivity end.
Qed.

Lemma else2_spec : forall st1 e oe st2, else2 st1 e = (oe, st2) ->
  (e = TSkip /\ oe = None /\ st2 = st1) \/ (exists je, cstmt2 st1 e = (je, st2) /\ oe = Some je).
Proof.
  intros st1 e oe st2 H. unfold else2 in H. destruct e;
    try (left; inversion H; auto; fail);
    right;
    match type of H with context [cstmt2 st1 ?X] => destruct (cstmt2 st1 X) as [je s2] eqn:E end;
    inversion H; subst; eauto.
Qed.

Lemma cparams_static : forall ps st ns st', cparams st ps = (ns, st') -> Static st ps st'.
Proof.
  induction ps as [|p ps IH]; cbn [cparams]; intros st ns st' H.
  - inversion H; subst. apply Static_refl.
  - destruct (declare st p) as [n st1] eqn:D. destruct (cparams st1 ps) as [ns' st2] eqn:C. inversion H; subst.
    change (p :: ps) with ([p] ++ ps). eapply Static_trans. eapply Static_declare; eauto. eauto.
Qed.

Lemma cstmt2_static : forall s st js st', cstmt2 st s = (js, st') -> Static st (defs2 s) st'.
Proof.
  induction s as [ | b | a IHa b IHb | dst f args | c t IHt e IHe | init c post body IHbody | oe ]; intros st js st' H.
  - cbn in H. inversion H; subst. apply Static_refl.
  - cbn [cstmt2 defs2] in *. destruct (cstmt [] st b) as [js0 st1] eqn:C. inversion H; subst.
    eapply (proj1 (cstmt_static b)); eauto.
  - cbn [cstmt2 defs2] in *. destruct (cstmt2 st a) as [ja st1] eqn:C1. destruct (cstmt2 st1 b) as [jb st2] eqn:C2.
    inversion H; subst. eapply Static_trans; eauto.
  - cbn [cstmt2] in H. destruct (cexprs st args) as [ja st1] eqn:C. destruct (cexprs_mono _ _ _ _ C) as [L R].
    assert (S1 : Static st [] st1) by (apply Static_same; auto).
    destruct dst as [[v [t|]]|]; cbn [defs2].
    + destruct (declare st1 v) as [n st2] eqn:D. inversion H; subst.
      eapply Static_nil_l; eauto. eapply Static_declare; eauto.
    + inversion H; subst. exact S1.
    + inversion H; subst. exact S1.
  - rewrite cstmt2_if in H. destruct (cexpr st c) as [jc st0] eqn:C0. destruct (cstmt2 st0 t) as [jt st1] eqn:C1.
    destruct (else2 st1 e) as [oe st2] eqn:C2. inversion H; subst. cbn [defs2].
    eapply Static_nil_l. eapply Static_cexpr; eauto.
    eapply Static_trans. eauto.
    destruct (else2_spec _ _ _ _ C2) as [[-> [_ ->]]|[je [Ce _]]].
    + apply Static_refl.
    + eauto.
  - cbn [cstmt2 defs2] in *. destruct (csimple st init) as [ji st0] eqn:C0. destruct (cexpr st0 c) as [jc st1] eqn:C1.
    destruct (cstmt2 st1 body) as [jb st2] eqn:C2. destruct (cpost st2 post) as [jp st3] eqn:C3. inversion H; subst.
    eapply Static_trans. eapply Static_csimple; eauto.
    eapply Static_nil_l. eapply Static_cexpr; eauto.
    eapply Static_nil_r. eauto. eapply Static_cpost; eauto.
  - destruct oe as [e|]; cbn [cstmt2 defs2] in *.
    + destruct (cexpr st e) as [je st1] eqn:C. inversion H; subst. eapply Static_cexpr; eauto.
    + inversion H; subst. apply Static_refl.
Qed.

Lemma else2_static : forall st1 e oe st2, else2 st1 e = (oe, st2) -> Static st1 (defs2 e) st2.
Proof.
  intros st1 e oe st2 H. destruct (else2_spec _ _ _ _ H) as [[-> [_ ->]]|[je [Ce _]]].
  - apply Static_refl.
  - eapply cstmt2_static; eauto.
Qed.

Lemma wf_stmt2_incl : forall fe rt s g g', wf_stmt2 fe rt g s = Some g' -> incl g g'.
Proof.
  intros fe rt. induction s as [ | b | a IHa b IHb | dst f args | c t IHt e IHe | init c post body IHbody | oe ];
    intros g g' H; cbn [wf_stmt2] in H.
  - inversion H; subst. apply incl_refl.
  - eapply wf_stmt_incl; eauto.
  - destruct (wf_stmt2 fe rt g a) as [g1|] eqn:W; [|discriminate]. eapply incl_tran; eauto.
  - destruct (find_fn fe f) as [fd|]; [|discriminate]. destruct (wf_args g args _); [|discriminate].
    destruct dst as [[v [t|]]|].
    + destruct (f_ret fd) as [t'|]; [|discriminate]. destruct (ty_eqb t t'); [|discriminate]. inversion H; subst.
      apply incl_tl. apply incl_refl.
    + destruct (f_ret fd) as [t'|]; [|discriminate]. destruct (env_get g v) as [t''|]; [|discriminate].
      destruct (ty_eqb t' t''); [|discriminate]. inversion H; subst. apply incl_refl.
    + inversion H; subst. apply incl_refl.
  - destruct (opt_ty_is (wf_expr g c) TB); [|discriminate].
    destruct (wf_stmt2 fe rt g t); [|discriminate]. destruct (wf_stmt2 fe rt g e); [|discriminate].
    inversion H; subst. apply incl_refl.
  - destruct (wf_simple g init true) as [g1|]; [|discriminate].
    destruct (_ && _); [|discriminate].
    destruct (wf_simple g1 post false); [|discriminate]. destruct (wf_stmt2 fe rt g1 body); [|discriminate].
    inversion H; subst. apply incl_refl.
  - destruct oe as [e|]; destruct rt as [t|]; try discriminate.
    + destruct (opt_ty_is (wf_expr g e) t); [|discriminate]. inversion H; subst. apply incl_refl.
    + inversion H; subst. apply incl_refl.
Qed.

(* ---------------------------------------------------------------- stores *)
Lemma Inv_declare : forall g st v n st' sg sj t a,
  declare st v = (n, st') -> rho_ok st -> lookup (rho st) v = None -> Inv g (rho st) sg sj -> val_ok t a ->
  Inv ((v, t) :: g) (rho st') (set sg v a) (set sj n (inj a)).
Proof.
  intros g st v n st' sg sj t a D Hr Hv HI Va.
  destruct (declare_spec _ _ _ _ D) as [D1 [D2 [D3 D4]]].
  rewrite D4. destruct HI as [Hf HIv]. destruct Hr as [Rb Ri]. split.
  - intros u t1 t2 [E1|I1] [E2|I2].
    + congruence.
    + inversion E1; subst. destruct (HIv _ _ I2) as [? [? [_ [_ [L _]]]]]. congruence.
    + inversion E2; subst. destruct (HIv _ _ I1) as [? [? [_ [_ [L _]]]]]. congruence.
    + eauto.
  - intros u tu [E|I].
    + inversion E; subst. exists a, n. rewrite !get_set_same, lookup_cons_same. auto.
    + destruct (HIv _ _ I) as [au [nu [G1 [G2 [G3 G4]]]]].
      assert (u <> v) by (intro; subst; congruence).
      assert (nu <> n) by (intro; subst; apply D1; eapply Rb; eauto).
      exists au, nu. rewrite lookup_cons_other by auto. rewrite !get_set_other by auto.
      repeat split; auto.
Qed.

Lemma Inv_assign : forall g st v sg sj t a,
  rho_ok st -> env_get g v = Some t -> Inv g (rho st) sg sj -> val_ok t a ->
  Inv g (rho st) (set sg v a) (set sj (js_name st v) (inj a)).
Proof.
  intros g st v sg sj t a Hr Hv HI Va. apply env_get_In in Hv.
  destruct HI as [Hf HIv]. destruct Hr as [Rb Ri].
  destruct (HIv _ _ Hv) as [av [nv [G1 [G2 [G3 G4]]]]].
  unfold js_name. rewrite G3. split. exact Hf.
  intros u tu I. destruct (name_eqb u v) eqn:E.
  - apply name_eqb_eq in E. subst u. assert (tu = t) by (eapply Hf; eauto). subst.
    exists a, nv. rewrite !get_set_same. auto.
  - assert (u <> v) by (intro; subst; rewrite name_eqb_refl in E; discriminate).
    destruct (HIv _ _ I) as [au [nu [U1 [U2 [U3 U4]]]]].
    assert (nu <> nv) by (intro; subst; apply H; eapply Ri; eauto).
    exists au, nu. rewrite !get_set_other by auto. repeat split; auto.
Qed.

(* ---------------------------------------------------------------- arguments *)
Lemma cargs_sim : forall g sg es ts st js st' sj,
  wf_args g es ts = true -> cexprs st es = (js, st') -> rho_ok st -> Inv g (rho st) sg sj ->
  match eval_list sg es with
  | inl (Some vs) => Forall2 val_ok ts vs /\ exists sj', jeval_list sj js = inl (Some (vs, sj')) /\ frame st sj sj'
  | inl None => False
  | inr EPanic => jeval_list sj js = inr JThrow
  | inr _ => False
  end.
Proof.
  intros g sg. induction es as [|e es IH]; intros ts st js st' sj Hwf Hc Hr HI; cbn [cexprs eval_list wf_args] in *.
  - destruct ts; [|discriminate]. inversion Hc; subst. split. constructor. exists sj. split. reflexivity. apply frame_refl.
  - destruct ts as [|t ts]; [discriminate|]. apply andb_true_iff in Hwf as [We Wes]. apply opt_ty_is_spec in We.
    destruct (cexpr st e) as [je st1] eqn:Ce. destruct (cexprs st1 es) as [jr st2] eqn:Cs. inversion Hc; subst; clear Hc.
    destruct (cexpr_mono _ _ _ _ Ce) as [L1 R1].
    pose proof (cexpr_sim g sg e _ _ _ _ sj We Ce Hr HI) as Sim. unfold ESim in Sim.
    destruct (eval sg e) as [a| |]; try contradiction.
    + destruct Sim as [Va [sj1 [J F]]].
      assert (Hr1 : rho_ok st1) by (apply (rho_ok_mono st); auto).
      assert (HI1 : Inv g (rho st1) sg sj1) by (apply (Inv_next g sg st st1 sj sj1); auto).
      specialize (IH ts _ _ _ sj1 Wes Cs Hr1 HI1).
      cbn [jeval_list]. rewrite J.
      assert (Pr : printable (inj a) = Some a) by (destruct a; reflexivity). rewrite Pr.
      destruct (eval_list sg es) as [[vs|]|[?| |]]; try contradiction.
      * destruct IH as [FV [sj' [JL F2]]]. rewrite JL. split. constructor; auto.
        exists sj'. split. reflexivity. eapply frame_trans; eauto.
      * rewrite IH. reflexivity.
    + cbn [jeval_list]. rewrite Sim. reflexivity.
Qed.

(* ---------------------------------------------------------------- parameters *)
Lemma params_sim : forall ps vs st ns st' g sg sj sg',
  cparams st (map fst ps) = (ns, st') -> Forall2 val_ok (map snd ps) vs -> rho_ok st -> Inv g (rho st) sg sj ->
  fresh st (map fst ps) -> NoDup (map fst ps) ->
  bind_params (map fst ps) vs sg = Some sg' ->
  exists sj', bind_params ns (map inj vs) sj = Some sj' /\ Inv (rev ps ++ g) (rho st') sg' sj' /\ rho_ok st'.
Proof.
  induction ps as [|[p t] ps IH]; intros vs st ns st' g sg sj sg' Hc HV Hr HI Hf Hn Hb; cbn [map fst snd cparams bind_params] in *.
  - inversion HV; subst. inversion Hc; subst. cbn [map bind_params] in *. inversion Hb; subst.
    exists sj. auto.
  - inversion HV as [|t0 a ts vs' Va HV']; subst. cbn [bind_params map] in *.
    destruct (declare st p) as [n st1] eqn:D. destruct (cparams st1 (map fst ps)) as [ns' st2] eqn:C. inversion Hc; subst; clear Hc.
    pose proof (Static_declare _ _ _ _ D) as SD.
    assert (Fp : fresh st [p]) by (intros v [<-|[]]; apply Hf; left; reflexivity).
    assert (Np : NoDup [p]) by (constructor; [intros []|constructor]).
    destruct (Static_ext _ _ _ SD Fp Np Hr) as [E1 Hr1].
    assert (F1 : fresh st1 (map fst ps)).
    { eapply (fresh_next st [p] st1 (map fst ps)); eauto. }
    inversion Hn; subst.
    assert (HI1 : Inv ((p, t) :: g) (rho st1) (set sg p a) (set sj n (inj a))).
    { eapply Inv_declare; eauto. apply Hf. left. reflexivity. }
    destruct (IH vs' st1 ns' st' ((p, t) :: g) _ _ sg' C HV' Hr1 HI1 F1 H2 Hb) as [sj' [B [HI' Hr']]].
    exists sj'. cbn [bind_params]. split. exact B. split; auto.
    cbn [rev]. rewrite <- app_assoc. exact HI'.
Qed.

Lemma find_compile : forall fe f fd, find_fn fe f = Some fd -> find_fn (compile_fns fe) f = Some (compile_fn fd).
Proof.
  induction fe as [|[g d] fe IH]; cbn [find_fn compile_fns map fst snd]; intros f fd H. discriminate.
  destruct (String.eqb g f). inversion H; subst. reflexivity. apply IH. exact H.
Qed.

Lemma find_fn_In : forall A (fe : list (fname * A)) f fd, find_fn fe f = Some fd -> exists g, In (g, fd) fe.
Proof.
  induction fe as [|[g d] fe IH]; cbn [find_fn]; intros f fd H. discriminate.
  destruct (String.eqb g f). inversion H; subst. exists g. left. reflexivity.
  destruct (IH _ _ H) as [g' I]. exists g'. right. exact I.
Qed.
