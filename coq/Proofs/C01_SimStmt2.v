(* C01 — simulation proof, part 7: assignments, println, conditions, contexts *)
From Coq Require Import ZArith List String Bool Lia.
From Verif Require Import Model.C01_GoSem Model.C01_JsSem Model.C01_Compile Model.C01_Wf
  Proofs.C01_Arith Proofs.C01_SimBase Proofs.C01_SimExpr Proofs.C01_SimExpr2 Proofs.C01_SimBin Proofs.C01_SimStatic
  Proofs.C01_SimStmt1.
Import ListNotations.
Local Open Scope Z_scope.

Lemma env_get_name : forall g v t, env_get g v = Some t -> In (v, t) g.
Proof. exact env_get_In. Qed.

(* ---------------------------------------------------------------- assignment *)
Lemma cassign_sim : forall g sg sj st v e define t js st' fuel,
  wf_expr g e = Some t -> cassign st v e define = (js, st') -> rho_ok st -> Inv g (rho st) sg sj ->
  (if define then lookup (rho st) v = None else env_get g v = Some t) ->
  match assign sg v e with
  | ROk SNormal sg' out => out = [] /\ exists sj', jexec_list fuel js sj = ROk SNormal sj' [] /\
        Inv (if define then (v, t) :: g else g) (rho st') sg' sj'
  | ROk _ _ _ => False
  | RPanic out => out = [] /\ jexec_list fuel js sj = RPanic []
  | _ => False
  end.
Proof.
  intros g sg sj st v e define t js st' fuel Hwf Hc Hr HI Hv.
  unfold cassign in Hc. destruct (cexpr st e) as [je st1] eqn:Ce.
  destruct (cexpr_mono _ _ _ _ Ce) as [L1 R1].
  pose proof (cexpr_sim g sg e _ _ _ _ sj Hwf Ce Hr HI) as Sim. unfold ESim in Sim. unfold assign.
  destruct (eval sg e) as [a| |]; try contradiction.
  - destruct Sim as [Va [sj1 [J F]]]. split. reflexivity.
    destruct define.
    + destruct (declare st1 v) as [n st2] eqn:D. inversion Hc; subst; clear Hc.
      destruct (declare_spec _ _ _ _ D) as [D1 [D2 [D3 D4]]].
      exists (set sj1 n (inj a)). split.
      { rewrite jexec_list_single, jexec_expr. cbn [jeval]. rewrite J. reflexivity. }
      rewrite D4, R1. destruct HI as [Hf HIv]. destruct Hr as [Rb Ri]. split.
      * intros u t1 t2 [E1|I1] [E2|I2].
        -- congruence.
        -- inversion E1; subst. destruct (HIv _ _ I2) as [? [? [_ [_ [L _]]]]]. congruence.
        -- inversion E2; subst. destruct (HIv _ _ I1) as [? [? [_ [_ [L _]]]]]. congruence.
        -- eauto.
      * intros u tu [E|I].
        -- inversion E; subst. exists a, n. rewrite !get_set_same, lookup_cons_same. auto.
        -- destruct (HIv _ _ I) as [au [nu [G1 [G2 [G3 G4]]]]].
           assert (u <> v) by (intro; subst; congruence).
           assert (nu <> n) by (intro; subst; apply D1; apply L1; eapply Rb; eauto).
           exists au, nu. rewrite lookup_cons_other by auto. rewrite !get_set_other by auto.
           repeat split; auto. rewrite F; auto. eapply Rb; eauto.
    + inversion Hc; subst; clear Hc. apply env_get_In in Hv.
      destruct HI as [Hf HIv]. destruct Hr as [Rb Ri].
      destruct (HIv _ _ Hv) as [av [nv [G1 [G2 [G3 G4]]]]].
      exists (set sj1 nv (inj a)). split.
      { rewrite jexec_list_single, jexec_expr. cbn [jeval]. rewrite J. unfold js_name. rewrite R1, G3. reflexivity. }
      rewrite R1. split. exact Hf.
      intros u tu I. destruct (name_eqb u v) eqn:E.
      * apply name_eqb_eq in E. subst u. assert (tu = t) by (eapply Hf; eauto). subst.
        exists a, nv. rewrite !get_set_same. auto.
      * assert (u <> v) by (intro; subst; rewrite name_eqb_refl in E; discriminate).
        destruct (HIv _ _ I) as [au [nu [U1 [U2 [U3 U4]]]]].
        assert (nu <> nv) by (intro; subst; apply H; eapply Ri; eauto).
        exists au, nu. rewrite !get_set_other by auto. repeat split; auto. rewrite F; auto. eapply Rb; eauto.
  - split. reflexivity. destruct define.
    + destruct (declare st1 v) as [n st2] eqn:D. inversion Hc; subst.
      rewrite jexec_list_single, jexec_expr. cbn [jeval]. rewrite Sim. reflexivity.
    + inversion Hc; subst. rewrite jexec_list_single, jexec_expr. cbn [jeval]. rewrite Sim. reflexivity.
Qed.

Lemma in_range_one : forall k, in_range k 1 = true.
Proof. destruct k; reflexivity. Qed.

Lemma wf_simple_simple : forall g p allow g', wf_simple g p allow = Some g' -> is_simple p = true.
Proof. intros g p allow g' H. destruct p; try discriminate; reflexivity. Qed.

Lemma csimple_sim : forall g g' allow sg sj st p js st' fuel,
  wf_simple g p allow = Some g' -> csimple st p = (js, st') -> rho_ok st -> fresh st (defs p) -> Inv g (rho st) sg sj ->
  match exec_simple p sg with
  | ROk SNormal sg' out => out = [] /\ exists sj', jexec_list fuel js sj = ROk SNormal sj' [] /\ Inv g' (rho st') sg' sj'
  | ROk _ _ _ => False
  | RPanic out => out = [] /\ jexec_list fuel js sj = RPanic []
  | _ => False
  end.
Proof.
  intros g g' allow sg sj st p js st' fuel Hwf Hc Hr Hfr HI.
  destruct p; try discriminate; cbn [wf_simple csimple exec_simple defs] in *.
  - (* SSkip *) inversion Hwf; inversion Hc; subst. split. reflexivity. exists sj. split. reflexivity. exact HI.
  - (* SDefine *) destruct (allow && opt_ty_is (wf_expr g e) t) eqn:W; [|discriminate]. inversion Hwf; subst.
    apply andb_true_iff in W as [_ W]. apply opt_ty_is_spec in W.
    apply (cassign_sim g sg sj st v e true t js st' fuel W Hc Hr HI). apply Hfr. left. reflexivity.
  - (* SAssign *) destruct (env_get g v) as [t|] eqn:G; [|discriminate].
    destruct (opt_ty_is (wf_expr g e) t) eqn:W; [|discriminate]. inversion Hwf; subst. apply opt_ty_is_spec in W.
    apply (cassign_sim g' sg sj st v e false t js st' fuel W Hc Hr HI G).
  - (* SOpAssign *)
    destruct (opt_ty_is (env_get g v) (TI k) && opt_ty_is (wf_expr g (EBin true k op (EVar v) e)) (TI k)) eqn:W; [|discriminate].
    inversion Hwf; subst. apply andb_true_iff in W as [W1 W2]. apply opt_ty_is_spec in W1, W2.
    apply (cassign_sim g' sg sj st v _ false (TI k) js st' fuel W2 Hc Hr HI W1).
  - (* SIncDec *)
    destruct (opt_ty_is (env_get g v) (TI k)) eqn:W; [|discriminate]. inversion Hwf; subst. apply opt_ty_is_spec in W.
    assert (W2 : wf_expr g' (EBin true k (if inc then Add else Sub) (EVar v) (ELit k 1)) = Some (TI k)).
    { cbn [wf_expr]. rewrite W, in_range_one. destruct inc; cbn; destruct k; reflexivity. }
    apply (cassign_sim g' sg sj st v _ false (TI k) js st' fuel W2 Hc Hr HI W).
Qed.

Lemma cpost_sim : forall g sg sj st p js st' fuel,
  wf_simple g p false = Some g -> cpost st p = (js, st') -> rho_ok st -> Inv g (rho st) sg sj ->
  match exec_simple p sg with
  | ROk SNormal sg' out => out = [] /\ exists sj', jexec_list fuel js sj = ROk SNormal sj' [] /\ Inv g (rho st') sg' sj'
  | ROk _ _ _ => False
  | RPanic out => out = [] /\ jexec_list fuel js sj = RPanic []
  | _ => False
  end.
Proof.
  intros g sg sj st p js st' fuel Hwf Hc Hr HI.
  assert (Hd : defs p = []) by (destruct p; try reflexivity; cbn in Hwf; discriminate).
  assert (Hc' : csimple st p = (js, st')) by (destruct p; try exact Hc; cbn in Hwf; discriminate).
  apply (csimple_sim g g false sg sj st p js st' fuel Hwf Hc' Hr); auto.
  rewrite Hd. intros v [].
Qed.

Lemma wf_simple_incl : forall g p allow g', wf_simple g p allow = Some g' -> incl g g'.
Proof.
  intros g p allow g' H. destruct p; try discriminate; cbn [wf_simple] in H.
  - inversion H; subst. apply incl_refl.
  - destruct (allow && _); [|discriminate]. inversion H; subst. apply incl_tl, incl_refl.
  - destruct (env_get g v); [|discriminate]. destruct (opt_ty_is _ _); [|discriminate]. inversion H; subst. apply incl_refl.
  - destruct (_ && _); [|discriminate]. inversion H; subst. apply incl_refl.
  - destruct (opt_ty_is _ _); [|discriminate]. inversion H; subst. apply incl_refl.
Qed.

Lemma wf_stmt_incl : forall s loops g g', wf_stmt loops g s = Some g' -> incl g g'.
Proof.
  induction s as [ | a IHa b IHb | v t e | v e | v k op e | v k inc | c t IHt e IHe | | l init IHinit oc post IHpost body IHbody | l | l | es ];
    intros loops g g' H; cbn [wf_stmt] in H;
    try (inversion H; subst; apply incl_refl);
    try (eapply wf_simple_incl; eassumption).
  - destruct (wf_stmt loops g a) as [g1|] eqn:W1; [|discriminate].
    eapply incl_tran; [eapply IHa; eauto | eapply IHb; eauto].
  - destruct (opt_ty_is _ _); [|discriminate].
    destruct (wf_stmt loops g t); [|discriminate]. destruct (wf_stmt loops g e); [|discriminate].
    inversion H; subst. apply incl_refl.
  - destruct (wf_simple g init true) as [g1|]; [|discriminate].
    destruct (wf_simple g1 post false); [|discriminate]. destruct (wf_stmt (l :: loops) g1 body); [|discriminate].
    destruct (_ && _); [|discriminate]. inversion H; subst. apply incl_refl.
  - destruct (label_ok loops l); [|discriminate]. inversion H; subst. apply incl_refl.
  - destruct (label_ok loops l); [|discriminate]. inversion H; subst. apply incl_refl.
  - destruct (forallb _ _); [|discriminate]. inversion H; subst. apply incl_refl.
Qed.

(* ---------------------------------------------------------------- println *)
Lemma cexprs_sim : forall g sg es st js st' sj,
  forallb (fun e => match wf_expr g e with Some _ => has_var e | None => false end) es = true ->
  cexprs st es = (js, st') -> rho_ok st -> Inv g (rho st) sg sj ->
  match eval_list sg es with
  | inl (Some vs) => exists sj', jeval_list sj js = inl (Some (vs, sj')) /\ frame st sj sj'
  | inl None => False
  | inr EPanic => jeval_list sj js = inr JThrow
  | inr _ => False
  end.
Proof.
  intros g sg. induction es as [|e es IH]; intros st js st' sj Hwf Hc Hr HI; cbn [cexprs eval_list] in *.
  - inversion Hc; subst. exists sj. split. reflexivity. apply frame_refl.
  - cbn [forallb] in Hwf. apply andb_true_iff in Hwf as [We Wes].
    destruct (wf_expr g e) as [t|] eqn:W; [|discriminate].
    destruct (cexpr st e) as [je st1] eqn:Ce. destruct (cexprs st1 es) as [jr st2] eqn:Cs. inversion Hc; subst; clear Hc.
    destruct (cexpr_mono _ _ _ _ Ce) as [L1 R1].
    pose proof (cexpr_sim g sg e _ _ _ _ sj W Ce Hr HI) as Sim. unfold ESim in Sim.
    destruct (eval sg e) as [a| |]; try contradiction.
    + destruct Sim as [Va [sj1 [J F]]].
      assert (Hr1 : rho_ok st1) by (apply (rho_ok_mono st); auto).
      assert (HI1 : Inv g (rho st1) sg sj1) by (apply (Inv_next g sg st st1 sj sj1); auto).
      specialize (IH _ _ _ sj1 Wes Cs Hr1 HI1).
      cbn [jeval_list]. rewrite J.
      assert (Pr : printable (inj a) = Some a) by (destruct a; reflexivity). rewrite Pr.
      destruct (eval_list sg es) as [[vs|]|[?| |]]; try contradiction.
      * destruct IH as [sj' [JL F2]]. rewrite JL. exists sj'. split. reflexivity. eapply frame_trans; eauto.
      * rewrite IH. reflexivity.
    + cbn [jeval_list]. rewrite Sim. reflexivity.
Qed.

(* ---------------------------------------------------------------- conditions *)
Definition CondSim (g : env) (r0 : list (name * name)) (c : expr) (jc : jexpr) : Prop :=
  forall sg sj, Inv g r0 sg sj ->
  match eval sg c with
  | EV (VB b) => exists sj', jeval sj jc = JOk (JB b) sj' /\ Inv g r0 sg sj'
  | EV _ => False
  | EPanic => jeval sj jc = JThrow
  | EStuck => False
  end.

Lemma cond_sim : forall g c st jc st', wf_expr g c = Some TB -> cexpr st c = (jc, st') -> rho_ok st ->
  CondSim g (rho st) c jc.
Proof.
  intros g c st jc st' W C Hr sg sj HI.
  pose proof (cexpr_sim g sg c _ _ _ _ sj W C Hr HI) as Sim. unfold ESim in Sim.
  destruct (eval sg c) as [a| |]; try contradiction; auto.
  destruct Sim as [Va [sj1 [J F]]]. destruct a as [z|b]; [destruct Va|].
  exists sj1. split. exact J. eapply Inv_frame; eauto. apply Hr.
Qed.

Fixpoint CondsOK (g : env) (r0 : list (name * name)) (e : stmt) (cs : list jexpr) : Prop :=
  match e with
  | SIf c _ e' => match cs with
                  | jc :: cs' => CondSim g r0 c jc /\ CondsOK g r0 e' cs'
                  | [] => False
                  end
  | _ => True
  end.

Lemma chain_conds_ok : forall e loops g g' st cs st', wf_stmt loops g e = Some g' ->
  chain_conds st e = (cs, st') -> rho_ok st -> CondsOK g (rho st) e cs.
Proof.
  induction e as [ | a IHa b IHb | v t e | v e | v k op e | v k inc | c e1 IHe1 e2 IHe2 | | l init IHinit oc post IHpost body IHbody | l | l | es ];
    intros loops g g' st cs st' W C Hr; cbn [CondsOK]; auto.
  cbn [chain_conds] in C. destruct (cexpr st c) as [jc st1] eqn:Ce. destruct (chain_conds st1 e2) as [r st2] eqn:Cs.
  inversion C; subst; clear C.
  cbn [wf_stmt] in W. destruct (opt_ty_is (wf_expr g c) TB) eqn:Wc; [|discriminate]. apply opt_ty_is_spec in Wc.
  destruct (wf_stmt loops g e1); [|discriminate]. destruct (wf_stmt loops g e2) as [g2|] eqn:W2; [|discriminate].
  destruct (cexpr_mono _ _ _ _ Ce) as [L1 R1].
  split. eapply cond_sim; eauto.
  rewrite <- R1. eapply IHe2; eauto. apply (rho_ok_mono st); auto.
Qed.

(* ---------------------------------------------------------------- loop contexts *)
Definition pctx := list (option string * stmt * env).
Definition cx_of (p : pctx) : ctx := map (fun x => (fst (fst x), snd (fst x))) p.
Definition loops_of (p : pctx) : list (option string) := map (fun x => fst (fst x)) p.

Fixpoint find_env (p : pctx) (l : option string) : env :=
  match p with
  | [] => []
  | (l', _, gl) :: r => if catches l' l then gl else find_env r l
  end.

Definition ctx_ok (g : env) (p : pctx) : Prop :=
  Forall (fun x => wf_simple (snd x) (snd (fst x)) false = Some (snd x) /\ incl (snd x) g) p.

Lemma ctx_ok_incl : forall g g' p, incl g g' -> ctx_ok g p -> ctx_ok g' p.
Proof.
  unfold ctx_ok. intros g g' p Hi H. induction H; constructor; auto.
  destruct H as [A B]. split; auto. eapply incl_tran; eauto.
Qed.

Lemma ctx_find : forall g p l, ctx_ok g p ->
  wf_simple (find_env p l) (find_post (cx_of p) l) false = Some (find_env p l) /\ incl (find_env p l) g.
Proof.
  unfold ctx_ok. intros g p l H. induction H as [|[[l' po] gl] r Hx Hr IH]; cbn [find_env find_post cx_of map fst snd].
  - split. reflexivity. intros x [].
  - destruct (catches l' l). exact Hx. exact IH.
Qed.

Lemma Inv_nil : forall r sg sj, Inv [] r sg sj.
Proof. intros. split. intros v t t' []. intros v t []. Qed.
