(* C06 — the hand-written model (Model/C06_Templates.v, variant [current]) is convertible with
   the templates the real compiler emitted in this run (Gen/C06_Tables.v), for every integer
   kind, operator and operand shape that was compiled. *)
From Coq Require Import ZArith Bool List.
From Verif Require Import Base.C06_JsNum Model.C06_Prelude64 Model.C06_Spec Gen.C06_Tables Model.C06_Templates.
Import ListNotations.
Local Open Scope Z_scope.

Lemma tie_bin32 : forall k o, is64 k = false -> g_bin32 k o = Some (bin32 current k o).
Proof. intros k o H; destruct k; try discriminate H; destruct o; reflexivity. Qed.

Lemma tie_bin64 : forall k o, is64 k = true -> g_bin64 k o = Some (bin64 current k o).
Proof. intros k o H; destruct k; try discriminate H; destruct o; reflexivity. Qed.

Lemma tie_cmp32 : forall k c, is64 k = false -> g_cmp32 k c = Some (cmp32 c).
Proof. intros k o H; destruct k; try discriminate H; destruct o; reflexivity. Qed.

Lemma tie_cmp64 : forall k c, is64 k = true -> g_cmp64 k c = Some (cmp64 c).
Proof. intros k o H; destruct k; try discriminate H; destruct o; reflexivity. Qed.

Lemma tie_un32 : forall k u, is64 k = false -> g_un32 k u = Some (un32 current k u).
Proof. intros k o H; destruct k; try discriminate H; destruct o; reflexivity. Qed.

Lemma tie_un64 : forall k u, is64 k = true -> g_un64 k u = Some (un64 current k u).
Proof. intros k o H; destruct k; try discriminate H; destruct o; reflexivity. Qed.

Lemma tie_shv32 : forall k s, is64 k = false -> g_shv32 k s = Some (shv32 k s).
Proof. intros k o H; destruct k; try discriminate H; destruct o; reflexivity. Qed.

Lemma tie_shv64 : forall k s, is64 k = true -> g_shv64 k s = Some (sh64 current k s).
Proof. intros k o H; destruct k; try discriminate H; destruct o; reflexivity. Qed.

(* constant counts: every compiled sample count *)
Definition sample_counts : list Z := map fst (g_shc32 Int8 Shl).

Lemma tie_shc32 : forall k s, is64 k = false ->
  g_shc32 k s = map (fun c => (c, shc32 current k s c)) sample_counts.
Proof. intros k o H; destruct k; try discriminate H; destruct o; reflexivity. Qed.

Lemma tie_shc64 : forall k s, is64 k = true ->
  g_shc64 k s = map (fun c => (c, fun x => sh64 current k s x (Fin c))) sample_counts.
Proof. intros k o H; destruct k; try discriminate H; destruct o; reflexivity. Qed.

Lemma tie_conv_nn : forall k1 k2, is64 k1 = false -> is64 k2 = false -> k1 <> k2 ->
  g_conv_nn k1 k2 = Some (conv_nn k2).
Proof. intros k1 k2 H1 H2 N; destruct k1; try discriminate H1; destruct k2; try discriminate H2; try (exfalso; apply N; reflexivity); reflexivity. Qed.

Lemma tie_conv_no : forall k1 k2, is64 k1 = false -> is64 k2 = true ->
  g_conv_no k1 k2 = Some (conv_no current k2).
Proof. intros k1 k2 H1 H2; destruct k1; try discriminate H1; destruct k2; try discriminate H2; reflexivity. Qed.

Lemma tie_conv_on : forall k1 k2, is64 k1 = true -> is64 k2 = false ->
  g_conv_on k1 k2 = Some (conv_on k1 k2).
Proof. intros k1 k2 H1 H2; destruct k1; try discriminate H1; destruct k2; try discriminate H2; reflexivity. Qed.

Lemma tie_conv_oo : forall k1 k2, is64 k1 = true -> is64 k2 = true -> k1 <> k2 ->
  g_conv_oo k1 k2 = Some (conv_oo current k2).
Proof. intros k1 k2 H1 H2 N; destruct k1; try discriminate H1; destruct k2; try discriminate H2; try (exfalso; apply N; reflexivity); reflexivity. Qed.

(* the regenerated is64Bit agrees with the kind classification used by the specification *)
Lemma is64b_is64 : forall k, is64b k = is64 k.
Proof. destruct k; reflexivity. Qed.
