(* C02 — the translation model produces well-formed flat programs: [wf_prog (compile sp)] for EVERY source
   program whose calls go to existing functions and whose loop post statements are simple statements.
   This is where the blocking analysis is used: a function (statement) left in direct form cannot call a
   blocking function because the propagated flags are closed (Proofs/C02_Blocking.propagate_closed) and the
   marks computed by [annot] cover every ancestor of a blocking call and of a `continue` that leads to a
   blocking post statement (closed marks).  Case labels are unique because caseCounter only grows. *)
From Coq Require Import List ZArith Bool Arith Lia.
From Verif Require Import Model.C02_Blocking Model.C02_Flat Model.C02_Wf Proofs.C02_Blocking Proofs.C02_Flat.
Import ListNotations.

(* ------------------------------------------------------------------ list helpers *)
Lemma labels_app : forall a b, labels (a ++ b) = labels a ++ labels b.
Proof. induction a; intros; simpl; auto. destruct a; simpl; rewrite ?IHa; auto. Qed.

Lemma nodup_app : forall (a b : list nat), NoDup a -> NoDup b -> (forall x, In x a -> In x b -> False) -> NoDup (a ++ b).
Proof.
  induction a; intros b Ha Hb Hd; simpl; auto.
  inversion Ha; subst. constructor.
  - intro Hin. apply in_app_or in Hin as [Hin|Hin]; auto. apply (Hd a); simpl; auto.
  - apply IHa; auto. intros x Hx Hx'. apply (Hd x); simpl; auto.
Qed.

Lemma NoDup_nodupb : forall l, NoDup l -> nodupb l = true.
Proof.
  induction l; intros H; simpl; auto. inversion H; subst. rewrite IHl by auto.
  rewrite andb_true_r. apply negb_true_iff. destruct (existsb (Nat.eqb a) l) eqn:E; auto.
  apply existsb_exists in E as [x [Hx Hx']]. apply Nat.eqb_eq in Hx'. subst. contradiction.
Qed.

(* ------------------------------------------------------------------ labels: caseCounter only grows *)
Definition in_range (lo hi : nat) (l : list nat) : Prop := forall n, In n l -> lo <= n < hi.

Lemma in_range_app : forall lo hi a b, in_range lo hi a -> in_range lo hi b -> in_range lo hi (a ++ b).
Proof. intros lo hi a b Ha Hb n Hn. apply in_app_or in Hn as [Hn|Hn]; auto. Qed.

Lemma in_range_weaken : forall lo hi lo' hi' l, in_range lo hi l -> lo' <= lo -> hi <= hi' -> in_range lo' hi' l.
Proof. intros lo hi lo' hi' l H H1 H2 n Hn. specialize (H n Hn). lia. Qed.

Lemma nodup_ranges : forall a b lo mid hi, NoDup a -> NoDup b -> in_range lo mid a -> in_range mid hi b -> NoDup (a ++ b).
Proof.
  intros a b lo mid hi Ha Hb Ra Rb. apply nodup_app; auto.
  intros x Hx Hx'. specialize (Ra x Hx). specialize (Rb x Hx'). lia.
Qed.

Definition lab_ok (cc : nat) (r : list instr * nat) : Prop :=
  cc <= snd r /\ in_range cc (snd r) (labels (fst r)) /\ NoDup (labels (fst r)).

Ltac lab_solve :=
  split; [|split];
  [ simpl; lia
  | let Hin := fresh "Hin" in intros ? Hin; simpl in Hin; repeat (destruct Hin as [<-|Hin]; [lia|]); contradiction
  | repeat constructor; simpl; intuition lia ].

Lemma flat_simple_labels : forall s ctx cc, lab_ok cc (flat_simple s ctx cc).
Proof.
  intros s ctx cc. unfold lab_ok.
  destruct s; simpl; try (lab_solve; fail).
  destruct b; simpl; lab_solve.
Qed.

Lemma flatten_labels : forall s ctx cc, lab_ok cc (flatten s ctx cc).
Proof.
  induction s; intros ctx cc; unfold lab_ok in *; simpl;
    try (lab_solve; fail).
  - (* SCall *) destruct b; simpl; lab_solve.
  - (* SSeq *)
    destruct (flatten s1 ctx cc) as [ia c1] eqn:E1. destruct (flatten s2 ctx c1) as [ib c2] eqn:E2.
    pose proof (IHs1 ctx cc) as [A1 [A2 A3]]. rewrite E1 in *. pose proof (IHs2 ctx c1) as [B1 [B2 B3]]. rewrite E2 in *.
    simpl in *. rewrite labels_app. split; [|split]; [lia | |].
    + apply in_range_app; eapply in_range_weaken; eauto; lia.
    + eapply nodup_ranges; eauto.
  - (* SIf *)
    destruct m; simpl; [|lab_solve].
    destruct (flatten s ctx (cc + 2)) as [ia c1] eqn:E1.
    pose proof (IHs ctx (cc + 2)) as [A1 [A2 A3]]. rewrite E1 in *. simpl in *.
    rewrite labels_app. simpl. split; [|split]; [lia | |].
    + intros n [<-|Hn]; [lia|]. apply in_app_or in Hn as [Hn|[<-|[]]]; [specialize (A2 n Hn)|]; lia.
    + constructor.
      * intro Hn. apply in_app_or in Hn as [Hn|[Hn|[]]]; [specialize (A2 _ Hn)|]; lia.
      * apply nodup_app; auto; [repeat constructor; auto|].
        intros x Hx [<-|[]]. specialize (A2 _ Hx). lia.
  - (* SIfElse *)
    destruct m; simpl; [|lab_solve].
    destruct (flatten s1 ctx (cc + 3)) as [ia c1] eqn:E1. destruct (flatten s2 ctx c1) as [ib c2] eqn:E2.
    pose proof (IHs1 ctx (cc + 3)) as [A1 [A2 A3]]. rewrite E1 in *. pose proof (IHs2 ctx c1) as [B1 [B2 B3]]. rewrite E2 in *.
    simpl in *.
    assert (L : labels (ia ++ (if ends_with_return s1 then [] else [IGoto (cc + 2)]) ++ ILbl (cc + 1) :: ib ++ [ILbl (cc + 2)])
                = labels ia ++ (cc + 1) :: labels ib ++ [cc + 2]).
    { rewrite !labels_app. destruct (ends_with_return s1); simpl; rewrite labels_app; auto. }
    rewrite L. split; [|split]; [lia | |].
    + intros n [<-|Hn]; [lia|]. apply in_app_or in Hn as [Hn|[<-|Hn]]; [specialize (A2 n Hn); lia | lia |].
      apply in_app_or in Hn as [Hn|[<-|[]]]; [specialize (B2 n Hn)|]; lia.
    + constructor.
      * intro Hn. apply in_app_or in Hn as [Hn|[Hn|Hn]]; [specialize (A2 _ Hn); lia | lia |].
        apply in_app_or in Hn as [Hn|[Hn|[]]]; [specialize (B2 _ Hn)|]; lia.
      * apply nodup_app; auto.
        -- constructor.
           ++ intro Hn. apply in_app_or in Hn as [Hn|[Hn|[]]]; [specialize (B2 _ Hn)|]; lia.
           ++ apply nodup_app; auto; [repeat constructor; auto|]. intros x Hx [<-|[]]. specialize (B2 _ Hx). lia.
        -- intros x Hx [<-|Hx']; [specialize (A2 _ Hx); lia|].
           apply in_app_or in Hx' as [Hx'|[<-|[]]]; specialize (A2 _ Hx); [specialize (B2 _ Hx')|]; lia.
  - (* SFor *)
    destruct m; simpl; [|lab_solve].
    destruct (flatten s1 ctx cc) as [ii c0] eqn:E0.
    pose proof (IHs1 ctx cc) as [I1 [I2 I3]]. rewrite E0 in *. simpl in *.
    set (fl := {| fl_lbl := lbl; fl_begin := c0; fl_end := S c0; fl_post := s2 |}).
    destruct (flatten s3 (fl :: ctx) (c0 + 2)) as [ib c1] eqn:E1.
    pose proof (IHs3 (fl :: ctx) (c0 + 2)) as [B1 [B2 B3]]. rewrite E1 in *. simpl in *.
    assert (Hp : exists ip c2, (if is_terminated s3 then ([], c1) else flat_simple s2 (fl :: ctx) c1) = (ip, c2) /\
                               c1 <= c2 /\ in_range c1 c2 (labels ip) /\ NoDup (labels ip)).
    { destruct (is_terminated s3).
      - exists [], c1. split; auto. lab_solve.
      - destruct (flat_simple s2 (fl :: ctx) c1) as [ip c2] eqn:Ep.
        pose proof (flat_simple_labels s2 (fl :: ctx) c1) as [P1 [P2 P3]]. rewrite Ep in *. exists ip, c2. auto. }
    destruct Hp as [ip [c2 [Ep [P1 [P2 P3]]]]]. rewrite Ep. simpl.
    assert (L : labels (ii ++ ILbl c0 :: IIfNotGoto c (S c0) :: ib ++ ip ++ (if is_terminated s3 then [] else [IGoto c0]) ++ [ILbl (S c0)])
                = labels ii ++ c0 :: labels ib ++ labels ip ++ [S c0]).
    { rewrite !labels_app. simpl. rewrite !labels_app. destruct (is_terminated s3); simpl; auto. }
    rewrite L. split; [|split]; [lia | |].
    + intros n Hn. apply in_app_or in Hn as [Hn|[<-|Hn]]; [specialize (I2 n Hn); lia | lia |].
      apply in_app_or in Hn as [Hn|Hn]; [specialize (B2 n Hn); lia|].
      apply in_app_or in Hn as [Hn|[<-|[]]]; [specialize (P2 n Hn)|]; lia.
    + apply nodup_app; auto.
      * constructor.
        -- intro Hn. apply in_app_or in Hn as [Hn|Hn]; [specialize (B2 _ Hn); lia|].
           apply in_app_or in Hn as [Hn|[Hn|[]]]; [specialize (P2 _ Hn)|]; lia.
        -- apply nodup_app; auto.
           ++ apply nodup_app; auto; [repeat constructor; auto|]. intros x Hx [<-|[]]. specialize (P2 _ Hx). lia.
           ++ intros x Hx Hx'. specialize (B2 _ Hx).
              apply in_app_or in Hx' as [Hx'|[<-|[]]]; [specialize (P2 _ Hx')|]; lia.
      * intros x Hx [<-|Hx']; [specialize (I2 _ Hx); lia|]. specialize (I2 _ Hx).
        apply in_app_or in Hx' as [Hx'|Hx']; [specialize (B2 _ Hx'); lia|].
        apply in_app_or in Hx' as [Hx'|[<-|[]]]; [specialize (P2 _ Hx')|]; lia.
  - (* SBreak *)
    destruct (find_flow l ctx); simpl; lab_solve.
  - (* SContinue *)
    destruct (find_flow l ctx); simpl; [|lab_solve].
    destruct (flat_simple (fl_post f) ctx cc) as [ip c1] eqn:Ep.
    pose proof (flat_simple_labels (fl_post f) ctx cc) as [P1 [P2 P3]]. rewrite Ep in *. simpl in *.
    rewrite labels_app. simpl. rewrite app_nil_r. auto.
Qed.

(* ------------------------------------------------------------------ the compiled program, function by function *)
Lemma zip_flatten_nth : forall p bl f fn, nth_error p f = Some fn ->
  nth_error (zip_flatten bl p) f = Some (flatten_fn (flag bl f) (sf_nparams fn) (sf_body fn)).
Proof.
  unfold flag. induction p; intros bl f fn H; destruct f; simpl in *; try discriminate.
  - inversion H; subst. destruct bl; auto.
  - destruct bl; simpl; [rewrite (IHp [] f fn H); destruct f; auto | apply IHp; auto].
Qed.

Lemma zip_flatten_length : forall p bl, length (zip_flatten bl p) = length p.
Proof. induction p; intros; simpl; auto. destruct bl; simpl; rewrite IHp; auto. Qed.

Lemma zip_flatten_In : forall p bl x, In x (zip_flatten bl p) ->
  exists f fn, nth_error p f = Some fn /\ x = flatten_fn (flag bl f) (sf_nparams fn) (sf_body fn).
Proof.
  intros p bl x H. apply In_nth_error in H as [f Hf].
  destruct (nth_error p f) as [fn|] eqn:E.
  - exists f, fn. split; auto. rewrite (zip_flatten_nth _ _ _ _ E) in Hf. inversion Hf; auto.
  - apply nth_error_None in E. assert (nth_error (zip_flatten bl p) f <> None) by congruence.
    apply nth_error_Some in H. rewrite zip_flatten_length in H. lia.
Qed.

Lemma calls_in_annot : forall Q bl s ctx, calls_in Q (fst (annot bl ctx s)) = calls_in Q s.
Proof.
  induction s; intros ctx; simpl; auto.
  - specialize (IHs1 ctx); specialize (IHs2 ctx).
    destruct (annot bl ctx s1), (annot bl ctx s2). simpl in *. congruence.
  - specialize (IHs ctx). destruct (annot bl ctx s). simpl in *. auto.
  - specialize (IHs1 ctx); specialize (IHs2 ctx).
    destruct (annot bl ctx s1), (annot bl ctx s2). simpl in *. congruence.
  - specialize (IHs1 ctx); specialize (IHs2 ctx).
    destruct (annot bl ctx s1) as [i' bi], (annot bl ctx s2) as [po' bp].
    specialize (IHs3 ((lbl, bp) :: ctx)). destruct (annot bl ((lbl, bp) :: ctx) s3). simpl in *. congruence.
Qed.

Lemma calls_in_callees : forall Q s, calls_in Q s = forallb Q (callees_of s).
Proof.
  induction s; simpl; auto.
  - rewrite andb_true_r; auto.
  - rewrite forallb_app. rewrite IHs1, IHs2. reflexivity.
  - rewrite forallb_app. rewrite IHs1, IHs2. reflexivity.
  - rewrite !forallb_app. rewrite IHs1, IHs2, IHs3. rewrite andb_assoc. reflexivity.
Qed.

Section Compile.
  Variable sp : sprog.
  Hypothesis SRC : src_ok sp = true.

  Let bl := blocking_flags sp.
  Let P := compile sp.

  Lemma bl_length : length bl = length sp.
  Proof. unfold bl, blocking_flags. rewrite propagate_length. unfold graph_of. apply map_length. Qed.

  Lemma compile_nth : forall f fn, nth_error sp f = Some fn ->
    nth_error P f = Some (flatten_fn (flag bl f) (sf_nparams fn) (fst (annot bl [] (sf_body fn)))).
  Proof.
    intros f fn H. unfold P, compile. fold bl.
    rewrite (zip_flatten_nth _ _ _ (annot_fn bl fn)); auto. rewrite nth_error_map, H. auto.
  Qed.

  Lemma directb_compile : forall g, g < length sp -> flag bl g = false -> is_directb P g = true.
  Proof.
    intros g Hg Hb. unfold is_directb.
    destruct (nth_error sp g) as [fn|] eqn:E; [|apply nth_error_None in E; lia].
    rewrite (compile_nth _ _ E), Hb. auto.
  Qed.

  (* a non-blocking function only has non-blocking callees: closedness of the propagated flags *)
  Lemma callees_nonblocking : forall f fn, nth_error sp f = Some fn -> flag bl f = false ->
    forallb (fun g => negb (flag bl g)) (callees_of (sf_body fn)) = true.
  Proof.
    intros f fn H Hb. apply forallb_forall. intros g Hg. apply negb_true_iff.
    destruct (flag bl g) eqn:Eg; auto.
    assert (flag bl f = true); [|congruence].
    apply (propagate_closed (graph_of sp) f {| direct := has_yield (sf_body fn); callees := callees_of (sf_body fn) |}).
    - unfold graph_of. rewrite nth_error_map, H. auto.
    - simpl. apply existsb_exists. exists g; auto.
  Qed.

  Definition ltb_sp (g : nat) : bool := Nat.ltb g (length sp).

  Lemma directb_of : forall g, ltb_sp g = true -> negb (flag bl g) = true -> is_directb P g = true.
  Proof. intros g H1 H2. apply directb_compile; [apply Nat.ltb_lt; auto | apply negb_true_iff; auto]. Qed.

  (* ---- closed marks *)
  Lemma dok_intro : forall s, calls_in (is_directb P) s = true -> has_yield s = false -> direct_okb P s = true.
  Proof. intros s H1 H2. unfold direct_okb. rewrite H1, H2. auto. Qed.

  Lemma dok_elim : forall s, direct_okb P s = true -> calls_in (is_directb P) s = true /\ has_yield s = false.
  Proof. intros s H. unfold direct_okb in H. apply andb_true_iff in H as [H1 H2]. apply negb_true_iff in H2. auto. Qed.

  Lemma dok_seq : forall a b, direct_okb P a = true -> direct_okb P b = true -> direct_okb P (SSeq a b) = true.
  Proof. intros a b Ha Hb. apply dok_elim in Ha as [A1 A2]. apply dok_elim in Hb as [B1 B2]. apply dok_intro; simpl; rewrite ?A1, ?B1, ?A2, ?B2; auto. Qed.

  Lemma dok_if : forall m c a, direct_okb P a = true -> direct_okb P (SIf m c a) = true.
  Proof. intros m c a Ha. apply dok_elim in Ha as [A1 A2]. apply dok_intro; simpl; auto. Qed.

  Lemma dok_ifelse : forall m c a b, direct_okb P a = true -> direct_okb P b = true -> direct_okb P (SIfElse m c a b) = true.
  Proof. intros m c a b Ha Hb. apply dok_elim in Ha as [A1 A2]. apply dok_elim in Hb as [B1 B2]. apply dok_intro; simpl; rewrite ?A1, ?B1, ?A2, ?B2; auto. Qed.

  Lemma dok_for : forall m l i c po bo, direct_okb P i = true -> direct_okb P po = true -> direct_okb P bo = true ->
    direct_okb P (SFor m l i c po bo) = true.
  Proof.
    intros m l i c po bo Hi Hp Hb. apply dok_elim in Hi as [A1 A2]. apply dok_elim in Hp as [B1 B2]. apply dok_elim in Hb as [C1 C2].
    apply dok_intro; simpl; rewrite ?A1, ?B1, ?C1, ?A2, ?B2, ?C2; auto.
  Qed.

  Definition post_shape_ok (po : stmt) : Prop :=
    match po with
    | SSkip | SYield | SCall true _ _ _ => True
    | other => direct_okb P other = true /\ esc_conts [] other = []
    end.

  Definition flow_rel (fl : flow) (a : option label * bool) : Prop :=
    fl_lbl fl = fst a /\ (snd a = false -> direct_okb P (fl_post fl) = true) /\ post_shape_ok (fl_post fl).

  Definition ctx_rel (ctx : list flow) (actx : actx) : Prop := Forall2 flow_rel ctx actx.

  Lemma find_rel : forall l ctx actx, ctx_rel ctx actx -> find_actx l actx = false -> post_okb P ctx l = true.
  Proof.
    intros l ctx actx H. unfold post_okb. induction H; simpl; intros Hf; auto.
    destruct y as [lbl b]. destruct H as [H1 [H2 _]]. simpl in *. rewrite H1.
    destruct (targets l lbl); auto.
  Qed.

  Lemma find_flow_shape : forall l ctx actx fl, ctx_rel ctx actx -> find_flow l ctx = Some fl -> post_shape_ok (fl_post fl).
  Proof.
    intros l ctx actx fl H. induction H; simpl; intros Hf; [discriminate|].
    destruct (targets l (fl_lbl x)); [inversion Hf; subst; apply H | auto].
  Qed.

  Lemma flat_simple_ok : forall po ctx cc, post_shape_ok po -> forallb (instr_okb P) (fst (flat_simple po ctx cc)) = true.
  Proof.
    intros po ctx cc H. destruct po; simpl in *; auto;
      try (destruct H as [H1 H2]; simpl in *; try discriminate; rewrite ?H1, ?H2; simpl; auto; fail).
    destruct b; simpl; auto. destruct H as [H1 H2]. simpl in *. rewrite H1. auto.
  Qed.

  Lemma esc_conts_not_inner : forall s inner l y, In l (esc_conts inner s) -> In y inner -> targets l y = false.
  Proof.
    induction s; intros inner l0 y H Hx; simpl in H; try contradiction.
    - apply in_app_or in H as [H|H]; eauto.
    - eauto.
    - apply in_app_or in H as [H|H]; eauto.
    - apply in_app_or in H as [H|H]; eauto. apply in_app_or in H as [H|H]; eauto.
      eapply IHs3; eauto. simpl; auto.
    - destruct (existsb (targets l) inner) eqn:E; [contradiction|]. destruct H as [<-|[]].
      destruct (targets l y) eqn:Et; auto.
      assert (existsb (targets l) inner = true) by (apply existsb_exists; exists y; auto). congruence.
  Qed.

  Lemma post_okb_skip : forall fl ctx l, targets l (fl_lbl fl) = false -> post_okb P (fl :: ctx) l = post_okb P ctx l.
  Proof. intros. unfold post_okb. simpl. rewrite H. auto. Qed.

  Definition simple_shape (po' : stmt) (bp : bool) : Prop :=
    (bp = false -> direct_okb P po' = true) /\ post_shape_ok po'.

  (* what [annot] guarantees about a statement and about its translation, given that the flow data of the
     enclosing flattened loops agrees with what the analysis assumed about them *)
  Definition stmt_ok (ctx : list flow) (s' : stmt) (b : bool) : Prop :=
    (forall cc, forallb (instr_okb P) (fst (flatten s' ctx cc)) = true) /\
    (b = false -> direct_okb P s' = true /\
                  forall inner, forallb (post_okb P ctx) (esc_conts inner s') = true).

  Lemma istruct_ok : forall ctx s, direct_okb P s = true -> (forall inner, forallb (post_okb P ctx) (esc_conts inner s) = true) ->
    forallb (instr_okb P) [IStruct ctx s] = true.
  Proof. intros ctx s H1 H2. simpl. rewrite H1, H2. auto. Qed.

  Lemma simple_annot_shape : forall po actx, simple_stmt po = true -> calls_in ltb_sp po = true ->
    simple_shape (fst (annot bl actx po)) (snd (annot bl actx po)).
  Proof.
    intros po actx Hs Hc. destruct po; simpl in *; try discriminate; unfold simple_shape; simpl;
      try (split; [intros; try discriminate; reflexivity | simpl; auto]; fail).
    - destruct (flag bl f) eqn:Ef; simpl; [split; [discriminate|auto]|].
      assert (is_directb P f = true) by (apply directb_of; auto; rewrite Ef; auto).
      assert (direct_okb P (SCall false dst f args) = true) by (apply dok_intro; auto).
      split; auto.
  Qed.

  Lemma annot_ok : forall s actx ctx, ctx_rel ctx actx ->
    calls_in ltb_sp s = true -> posts_simple s = true ->
    stmt_ok ctx (fst (annot bl actx s)) (snd (annot bl actx s)).
  Proof.
    induction s; intros actx ctx Hrel Hc Hp; unfold stmt_ok; simpl in *;
      repeat match goal with h : _ && _ = true |- _ => apply andb_true_iff in h; destruct h end.
    - (* SSkip *) split; auto.
    - split; auto.
    - split; auto.
    - split; auto.
    - (* SYield *) split; [auto | discriminate].
    - (* SCall *)
      destruct (flag bl f) eqn:Ef; simpl; [split; [auto | discriminate]|].
      assert (is_directb P f = true) by (apply directb_of; auto; rewrite Ef; auto).
      assert (Hd : direct_okb P (SCall false dst f args) = true) by (apply dok_intro; auto).
      split; [intros; rewrite Hd; auto | intros _; split; auto].
    - (* SSeq *)
      pose proof (IHs1 actx ctx Hrel H1 H) as [A1 A2]. pose proof (IHs2 actx ctx Hrel H2 H0) as [B1 B2].
      destruct (annot bl actx s1) as [a' ba], (annot bl actx s2) as [b' bb]. simpl in *. split.
      + intros cc. specialize (A1 cc). destruct (flatten a' ctx cc) as [ia c1] eqn:Ea.
        specialize (B1 c1). destruct (flatten b' ctx c1) as [ib c2] eqn:Eb. simpl in *.
        rewrite forallb_app, A1, B1. auto.
      + intros Hb. apply orb_false_iff in Hb as [-> ->].
        destruct (A2 eq_refl) as [A3 A4]. destruct (B2 eq_refl) as [B3 B4]. split; [apply dok_seq; auto|].
        intros inner. rewrite forallb_app, A4, B4. auto.
    - (* SIf *)
      pose proof (IHs actx ctx Hrel Hc Hp) as [A1 A2].
      destruct (annot bl actx s) as [a' ba]. simpl in *. split.
      + intros cc. destruct ba; simpl.
        * specialize (A1 (cc + 2)). destruct (flatten a' ctx (cc + 2)) as [ia c1]. simpl in *.
          rewrite forallb_app, A1. auto.
        * destruct (A2 eq_refl) as [A3 A4]. rewrite (dok_if false c a' A3). simpl. rewrite A4. auto.
      + intros ->. destruct (A2 eq_refl) as [A3 A4]. split; [apply dok_if; auto | auto].
    - (* SIfElse *)
      pose proof (IHs1 actx ctx Hrel H1 H) as [A1 A2]. pose proof (IHs2 actx ctx Hrel H2 H0) as [B1 B2].
      destruct (annot bl actx s1) as [a' ba], (annot bl actx s2) as [b' bb]. simpl in *. split.
      + intros cc. destruct (ba || bb) eqn:Eb; simpl.
        * specialize (A1 (cc + 3)). destruct (flatten a' ctx (cc + 3)) as [ia c1].
          specialize (B1 c1). destruct (flatten b' ctx c1) as [ib c2]. simpl in *.
          rewrite !forallb_app, A1. simpl. rewrite forallb_app, B1. destruct (ends_with_return a'); auto.
        * apply orb_false_iff in Eb as [-> ->].
          destruct (A2 eq_refl) as [A3 A4]. destruct (B2 eq_refl) as [B3 B4].
          rewrite (dok_ifelse false c a' b' A3 B3). simpl. rewrite forallb_app, A4, B4. auto.
      + intros Hb. apply orb_false_iff in Hb as [-> ->].
        destruct (A2 eq_refl) as [A3 A4]. destruct (B2 eq_refl) as [B3 B4]. split; [apply dok_ifelse; auto|].
        intros inner. rewrite forallb_app, A4, B4. auto.
    - (* SFor *)
      rename H2 into Hci, H4 into Hcp, H3 into Hcb, H0 into Hpb, H into Hpi, H1 into Hsimple.
      pose proof (IHs1 actx ctx Hrel Hci Hpi) as [I1 I2].
      pose proof (simple_annot_shape s2 actx Hsimple Hcp) as [S1 S2].
      assert (Hpp : posts_simple s2 = true) by (destruct s2; simpl in *; auto; discriminate).
      pose proof (IHs2 actx ctx Hrel Hcp Hpp) as [_ Po2].
      destruct (annot bl actx s1) as [i' bi], (annot bl actx s2) as [po' bp]. simpl in *.
      assert (Hrel' : forall b e, ctx_rel ({| fl_lbl := lbl; fl_begin := b; fl_end := e; fl_post := po' |} :: ctx) ((lbl, bp) :: actx)).
      { intros. constructor; auto. repeat split; auto. }
      split.
      + intros cc. destruct (bi || bp || (snd (annot bl ((lbl, bp) :: actx) s3))) eqn:Em.
        * (* flattened loop *)
          destruct (annot bl ((lbl, bp) :: actx) s3) as [bo' bb] eqn:Eb. simpl in *. rewrite Em. simpl.
          specialize (I1 cc). destruct (flatten i' ctx cc) as [ii c0]. simpl in *.
          pose proof (IHs3 _ _ (Hrel' c0 (S c0)) Hcb Hpb) as [B1 _]. rewrite Eb in B1. simpl in B1.
          specialize (B1 (c0 + 2)).
          destruct (flatten bo' _ (c0 + 2)) as [ib c1]. simpl in *.
          assert (Hip : forallb (instr_okb P) (fst (if is_terminated bo' then ([], c1)
                         else flat_simple po' ({| fl_lbl := lbl; fl_begin := c0; fl_end := S c0; fl_post := po' |} :: ctx) c1)) = true).
          { destruct (is_terminated bo'); auto. apply flat_simple_ok; auto. }
          destruct (if is_terminated bo' then ([], c1) else flat_simple po' _ c1) as [ip c2]. simpl in *.
          rewrite forallb_app, I1. simpl. rewrite !forallb_app, B1, Hip. destruct (is_terminated bo'); auto.
        * (* the whole loop stays in direct form *)
          destruct (annot bl ((lbl, bp) :: actx) s3) as [bo' bb] eqn:Eb. simpl in *. rewrite Em. simpl.
          apply orb_false_iff in Em as [Em ->]. apply orb_false_iff in Em as [-> ->].
          pose proof (IHs3 _ _ (Hrel' 0 0) Hcb Hpb) as [_ B2]. rewrite Eb in B2. simpl in B2.
          destruct (I2 eq_refl) as [I3 I4]. destruct (Po2 eq_refl) as [P3 P4]. destruct (B2 eq_refl) as [B3 B4].
          rewrite (dok_for false lbl i' c po' bo' I3 P3 B3). simpl. rewrite !forallb_app, I4, P4. simpl. rewrite andb_true_r.
          apply forallb_forall. intros l Hl.
          specialize (B4 [lbl]). rewrite forallb_forall in B4. specialize (B4 l Hl).
          rewrite post_okb_skip in B4; auto. simpl. eapply esc_conts_not_inner; eauto. simpl; auto.
      + destruct (annot bl ((lbl, bp) :: actx) s3) as [bo' bb] eqn:Eb. simpl in *.
        intros Em. apply orb_false_iff in Em as [Em ->]. apply orb_false_iff in Em as [-> ->].
        pose proof (IHs3 _ _ (Hrel' 0 0) Hcb Hpb) as [_ B2]. rewrite Eb in B2. simpl in B2.
        destruct (I2 eq_refl) as [I3 I4]. destruct (Po2 eq_refl) as [P3 P4]. destruct (B2 eq_refl) as [B3 B4].
        split; [apply dok_for; auto|].
        intros inner. rewrite !forallb_app, I4, P4. simpl.
        apply forallb_forall. intros l Hl.
        specialize (B4 (lbl :: inner)). rewrite forallb_forall in B4. specialize (B4 l Hl).
        rewrite post_okb_skip in B4; auto. simpl. eapply esc_conts_not_inner; eauto. simpl; auto.
    - (* SBreak *)
      split; [|auto]. intros cc. destruct (find_flow l ctx); simpl; auto.
    - (* SContinue *)
      split.
      + intros cc. destruct (find_flow l ctx) as [fl|] eqn:Ef; simpl.
        * pose proof (find_flow_shape _ _ _ _ Hrel Ef) as Hs.
          pose proof (flat_simple_ok (fl_post fl) ctx cc Hs) as Hi.
          destruct (flat_simple (fl_post fl) ctx cc) as [ip c1]. simpl in *. rewrite forallb_app, Hi. auto.
        * unfold post_okb. rewrite Ef. auto.
      + intros Hf. split; auto. intros inner. destruct (existsb (targets l) inner); simpl; auto.
        rewrite (find_rel _ _ _ Hrel Hf). auto.
    - (* SReturn *) split; auto.
  Qed.

  Lemma has_yield_annot : forall s ctx, has_yield (fst (annot bl ctx s)) = has_yield s.
  Proof.
    induction s; intros ctx; simpl; auto.
    - specialize (IHs1 ctx); specialize (IHs2 ctx).
      destruct (annot bl ctx s1), (annot bl ctx s2). simpl in *. congruence.
    - specialize (IHs ctx). destruct (annot bl ctx s). simpl in *. auto.
    - specialize (IHs1 ctx); specialize (IHs2 ctx).
      destruct (annot bl ctx s1), (annot bl ctx s2). simpl in *. congruence.
    - specialize (IHs1 ctx); specialize (IHs2 ctx).
      destruct (annot bl ctx s1) as [i' bi], (annot bl ctx s2) as [po' bp].
      specialize (IHs3 ((lbl, bp) :: ctx)). destruct (annot bl ((lbl, bp) :: ctx) s3). simpl in *. congruence.
  Qed.

  Lemma nonblocking_no_yield : forall f fn, nth_error sp f = Some fn -> flag bl f = false -> has_yield (sf_body fn) = false.
  Proof.
    intros f fn H Hb. destruct (has_yield (sf_body fn)) eqn:E; auto.
    assert (flag bl f = true); [|congruence].
    unfold bl, blocking_flags, propagate. eapply ble_flag; [apply iterate_ble|].
    apply init_flag_direct. eexists. split; [unfold graph_of; rewrite nth_error_map, H; reflexivity | simpl; auto].
  Qed.

  Theorem compile_wf : wf_prog (compile sp).
  Proof.
    unfold wf_prog, wf_progb. fold P. apply forallb_forall. intros x Hx.
    unfold P, compile in Hx. fold bl in Hx.
    apply zip_flatten_In in Hx as [f [fn' [Hn ->]]].
    rewrite nth_error_map in Hn. destruct (nth_error sp f) as [fn|] eqn:Ef; [|discriminate].
    inversion Hn; subst fn'. simpl.
    unfold src_ok in SRC. rewrite forallb_forall in SRC.
    specialize (SRC fn (nth_error_In _ _ Ef)). apply andb_true_iff in SRC as [Hc Hp].
    fold ltb_sp in Hc.
    destruct (flag bl f) eqn:Eb; unfold flatten_fn.
    - (* resumable form *)
      pose proof (annot_ok (sf_body fn) [] [] (Forall2_nil _) Hc Hp) as [A1 _].
      specialize (A1 1). pose proof (flatten_labels (fst (annot bl [] (sf_body fn))) [] 1) as [_ [_ L3]].
      destruct (flatten (fst (annot bl [] (sf_body fn))) [] 1) as [code c1]. simpl in *.
      rewrite forallb_app, A1. simpl.
      assert (L : labels (code ++ (if ends_with_return (fst (annot bl [] (sf_body fn))) then [] else [IRet (EConst 0)])) = labels code).
      { rewrite labels_app. destruct (ends_with_return _); simpl; rewrite app_nil_r; auto. }
      rewrite L. rewrite NoDup_nodupb; auto. destruct (ends_with_return _); auto.
    - (* direct form: every callee is non-blocking and exists, and there is no receive *)
      simpl. apply dok_intro; [|rewrite has_yield_annot; eapply nonblocking_no_yield; eauto].
      rewrite calls_in_annot. rewrite calls_in_callees. apply forallb_forall. intros g Hg.
      pose proof (callees_nonblocking f fn Ef Eb) as Hn'. rewrite forallb_forall in Hn'.
      rewrite calls_in_callees in Hc. rewrite forallb_forall in Hc.
      apply directb_of; auto. unfold ltb_sp. auto.
  Qed.
End Compile.

(* ------------------------------------------------------------------ headline *)
Theorem compile_schedule_independent : forall sp sched nglob fuel main args o,
  src_ok sp = true ->
  run_flat (compile sp) never nglob fuel main args = Some o ->
  exists fuel', run_flat (compile sp) sched nglob fuel' main args = Some o.
Proof.
  intros. eapply flat_schedule_independent; eauto. apply compile_wf; auto.
Qed.
