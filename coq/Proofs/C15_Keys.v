(* C15 — two key values get the same JS key exactly when Go's == holds (key_iff_eq), by induction
   on values/key types, for keys computed at ANY two moments of a run (the id counter and the $id
   slots are threaded).  Model of the repaired code (phase 2): no exclusion of NaN / blank fields. *)
From Coq Require Import List ZArith NArith Bool Lia String.
From Verif Require Import Model.C15_Keys Proofs.C15_Escape.
Import ListNotations.
Local Open Scope N_scope.

(* ---------------------------------------------------------------- induction on values *)
Section ValInd.
Variable P : val -> Prop.
Hypothesis HBool : forall b, P (VBool b).
Hypothesis HInt : forall z, P (VInt z).
Hypothesis HString : forall s, P (VString s).
Hypothesis HFloat : forall f, P (VFloat f).
Hypothesis H64 : forall h l, P (V64 h l).
Hypothesis HComplex : forall r i, P (VComplex r i).
Hypothesis HRef : forall r, P (VRef r).
Hypothesis HNil : P VNil.
Hypothesis HDyn : forall d v, P v -> P (VDyn d v).
Hypothesis HArr : forall l, Forall P l -> P (VArr l).
Hypothesis HStruct : forall l, Forall P l -> P (VStruct l).
Hypothesis HOpaque : P VOpaque.
Fixpoint val_ind' (v : val) : P v :=
  match v with
  | VBool b => HBool b | VInt z => HInt z | VString s => HString s | VFloat f => HFloat f
  | V64 h l => H64 h l | VComplex r i => HComplex r i | VRef r => HRef r | VNil => HNil
  | VDyn d x => HDyn d x (val_ind' x)
  | VArr l => HArr l ((fix go (l : list val) : Forall P l :=
                         match l with [] => Forall_nil _ | x :: r => Forall_cons _ (val_ind' x) (go r) end) l)
  | VStruct l => HStruct l ((fix go (l : list val) : Forall P l :=
                         match l with [] => Forall_nil _ | x :: r => Forall_cons _ (val_ind' x) (go r) end) l)
  | VOpaque => HOpaque
  end.
End ValInd.

(* ---------------------------------------------------------------- run-time state *)
Definition sle (s s' : st) : Prop :=
  ctr s <= ctr s' /\ forall r i, lookup_id r (ids s) = Some i -> lookup_id r (ids s') = Some i.

(* ids handed out so far are distinct and not above the counter *)
Definition wf (s : st) : Prop :=
  (forall r i, lookup_id r (ids s) = Some i -> i <= ctr s) /\
  (forall r r' i, lookup_id r (ids s) = Some i -> lookup_id r' (ids s) = Some i -> r = r').

Lemma sle_refl : forall s, sle s s.
Proof. intros s; split; [lia | auto]. Qed.
Lemma sle_trans : forall a b c, sle a b -> sle b c -> sle a c.
Proof. intros a b c [H1 H2] [H3 H4]; split; [lia | auto]. Qed.

Lemma wf_init : forall c, wf {| ctr := c; ids := [] |}.
Proof. intros c; split; cbn; intros; discriminate. Qed.

Lemma str_eqb_eq : forall a b, str_eqb a b = true <-> a = b.
Proof.
  induction a as [|x a IH]; intros [|y b]; cbn; split; intros H; try discriminate; try reflexivity.
  - apply andb_true_iff in H as [H1 H2]. apply N.eqb_eq in H1. apply IH in H2. congruence.
  - injection H as -> ->. apply andb_true_iff; split; [apply N.eqb_refl | now apply IH].
Qed.

Lemma plain_no_dollar : forall s, plain s -> ~ In DOLLAR s.
Proof. intros s H Hin. unfold plain in H. rewrite Forall_forall in H. destruct (H _ Hin) as [A _]. now apply A. Qed.

Section Keys.
Variable nts : Z -> str.
Variable by_id : bool.
(* the trusted number printer: injective on non-zero floats, never prints "0" or "NaN" for them, and
   its text contains neither "$" nor "\" *)
Hypothesis nts_inj : forall x y, is_zero_bits x = false -> is_zero_bits y = false -> nts x = nts y -> x = y.
Hypothesis nts_nonzero : forall x, is_zero_bits x = false -> nts x <> of_string "0".
Hypothesis nts_not_nan : forall x, nts x <> of_string "NaN".
Hypothesis nts_plain : forall x, plain (nts x).

Notation K := (key_for nts by_id).
Notation pre := (iface_prefix by_id).
Notation esc := (fun (_ : val) (k : jskey) => escape (key_str k)).

(* ---- equations of key_for, one per branch *)
Lemma K_arr : forall n e l s,
  K (TArray n e) (VArr l) s =
  if comparable e then
    match keys_arr (fun x s => K e x s) esc l s with
    | (Some ks, s') => (Some (KStr (join ks)), s')
    | (None, s') => (None, s')
    end
  else (None, s).
Proof. reflexivity. Qed.

Lemma K_struct : forall fs l s,
  K (TStruct fs) (VStruct l) s =
  match keys_struct (fun ft x s => K ft x s) (fun k => escape (key_str k)) fs l s with
  | (Some ks, s') => (Some (KStr (join ks)), s')
  | (None, s') => (None, s')
  end.
Proof. reflexivity. Qed.

Lemma K_dyn : forall d x s,
  K TIface (VDyn d x) s =
  if comparable (d_shape d) then
    match K (d_shape d) x s with
    | (Some k, s') => (Some (KStr (pre d ++ DOLLAR :: key_str k)), s')
    | (None, s') => (None, s')
    end
  else (None, s).
Proof. reflexivity. Qed.

Lemma K_float : forall f s, K TFloat (VFloat f) s = (let (k, s') := float_key nts f s in (Some (KStr k), s')).
Proof. reflexivity. Qed.
Lemma K_ref : forall r s, K TRef (VRef r) s = (let (k, s') := id_key r s in (Some (KStr k), s')).
Proof. reflexivity. Qed.
Lemma K_complex : forall re im s,
  K TComplex (VComplex re im) s =
  (let (kr, s1) := float_key nts re s in let (ki, s2) := float_key nts im s1 in (Some (KStr (kr ++ DOLLAR :: ki)), s2)).
Proof. reflexivity. Qed.

(* ---- monotonicity of the state *)
Lemma id_key_spec : forall r s k s', wf s -> id_key r s = (k, s') ->
  wf s' /\ sle s s' /\ exists i, lookup_id r (ids s') = Some i /\ k = dec (Z.of_N i).
Proof.
  intros r s k s' [W1 W2] H. unfold id_key in H.
  destruct (lookup_id r (ids s)) as [i|] eqn:E.
  - injection H as <- <-. repeat split; auto; try lia. eauto.
  - injection H as <- <-. split; [|split].
    + split; cbn [ids ctr lookup_id].
      * intros r0 i. destruct (N.eqb_spec r0 r); intros H.
        -- injection H as <-. lia.
        -- apply W1 in H. lia.
      * intros r0 r1 i. destruct (N.eqb_spec r0 r); destruct (N.eqb_spec r1 r); intros H1 H2; subst; auto.
        -- injection H1 as <-. apply W1 in H2. lia.
        -- injection H2 as <-. apply W1 in H1. lia.
        -- eauto.
    + split; cbn [ids ctr lookup_id]; [lia|].
      intros r0 i H. destruct (N.eqb_spec r0 r); [subst; congruence | exact H].
    + exists (N.succ (ctr s)). cbn [ids lookup_id]. now rewrite N.eqb_refl.
Qed.

Lemma float_key_spec : forall f s k s', wf s -> float_key nts f s = (k, s') -> wf s' /\ sle s s'.
Proof.
  intros f s k s' [W1 W2] H. destruct f; cbn in H; injection H as <- <-.
  - split; [split; cbn [ids ctr]|split; cbn [ids ctr]]; auto; try lia.
    intros r i Hl. apply W1 in Hl. lia.
  - split; [split; auto | apply sle_refl].
Qed.

Definition mono_at (t : kty) (x : val) : Prop :=
  forall s k s', wf s -> K t x s = (k, s') -> wf s' /\ sle s s'.

Lemma keys_arr_mono : forall e g l, Forall (fun x => forall t, mono_at t x) l ->
  forall s ks s', wf s -> keys_arr (fun x s => K e x s) g l s = (ks, s') -> wf s' /\ sle s s'.
Proof.
  intros e g l HF. induction HF as [|x l Hx _ IH]; intros s ks s' W H; cbn [keys_arr] in H.
  - injection H as <- <-. split; [auto | apply sle_refl].
  - destruct (K e x s) as [[k|] s1] eqn:E1.
    + destruct (Hx e _ _ _ W E1) as [W1 L1].
      destruct (keys_arr (fun x s => K e x s) g l s1) as [[ks1|] s2] eqn:E2;
        destruct (IH _ _ _ W1 E2) as [W2 L2]; injection H as <- <-; split; auto; eapply sle_trans; eauto.
    + destruct (Hx e _ _ _ W E1) as [W1 L1]. injection H as <- <-. now split.
Qed.

Lemma keys_struct_mono : forall g l, Forall (fun x => forall t, mono_at t x) l ->
  forall fs s ks s', wf s -> keys_struct (fun ft x s => K ft x s) g fs l s = (ks, s') -> wf s' /\ sle s s'.
Proof.
  intros g l HF. induction HF as [|x l Hx _ IH]; intros fs s ks s' W H; cbn [keys_struct] in H.
  - destruct fs as [|[[|] ?] ?]; injection H as <- <-; (split; [auto | apply sle_refl]).
  - destruct fs as [|[[|] ft] fs]; [injection H as <- <-; split; [auto | apply sle_refl]| |].
    + eapply IH; eauto.
    + destruct (K ft x s) as [[k|] s1] eqn:E1.
      * destruct (Hx ft _ _ _ W E1) as [W1 L1].
        destruct (keys_struct (fun ft x s => K ft x s) g fs l s1) as [[ks1|] s2] eqn:E2;
          destruct (IH _ _ _ _ W1 E2) as [W2 L2]; injection H as <- <-; split; auto; eapply sle_trans; eauto.
      * destruct (Hx ft _ _ _ W E1) as [W1 L1]. injection H as <- <-. now split.
Qed.

Lemma key_for_mono : forall x t, mono_at t x.
Proof.
  induction x using val_ind'; intros t u k u' W HK;
    try (destruct t; cbn in HK; injection HK as <- <-; (split; [auto | apply sle_refl])).
  - (* float *) destruct t; cbn [key_for] in HK; try (injection HK as <- <-; split; [auto | apply sle_refl]).
    destruct (float_key nts f u) as [k0 u0] eqn:E. injection HK as <- <-. eapply float_key_spec; eauto.
  - (* complex *) destruct t; cbn [key_for] in HK; try (injection HK as <- <-; split; [auto | apply sle_refl]).
    destruct (float_key nts r u) as [k0 u0] eqn:E0. destruct (float_key nts i u0) as [k1 u1] eqn:E1.
    injection HK as <- <-.
    destruct (float_key_spec _ _ _ _ W E0) as [W0 L0]. destruct (float_key_spec _ _ _ _ W0 E1) as [W1 L1].
    split; [auto | eapply sle_trans; eauto].
  - (* ref *) destruct t; cbn [key_for] in HK; try (injection HK as <- <-; split; [auto | apply sle_refl]).
    destruct (id_key r u) as [k0 u0] eqn:E. injection HK as <- <-.
    destruct (id_key_spec _ _ _ _ W E) as (A & B & _). now split.
  - (* dyn *) destruct t; try (cbn in HK; injection HK as <- <-; split; [auto | apply sle_refl]).
    rewrite K_dyn in HK. destruct (comparable (d_shape d)); [|injection HK as <- <-; split; [auto | apply sle_refl]].
    destruct (K (d_shape d) x u) as [[k0|] u0] eqn:E;
      injection HK as <- <-; eapply IHx; eauto.
  - (* arr *) destruct t; try (cbn in HK; injection HK as <- <-; split; [auto | apply sle_refl]).
    rewrite K_arr in HK. destruct (comparable t); [|injection HK as <- <-; split; [auto | apply sle_refl]].
    destruct (keys_arr (fun x s => K t x s) esc l u) as [[ks|] u0] eqn:E;
      injection HK as <- <-; eapply keys_arr_mono; eauto.
  - (* struct *) destruct t; try (cbn in HK; injection HK as <- <-; split; [auto | apply sle_refl]).
    rewrite K_struct in HK.
    destruct (keys_struct (fun ft x s => K ft x s) (fun k => escape (key_str k)) fs l u) as [[ks|] u0] eqn:E;
      injection HK as <- <-; eapply keys_struct_mono; eauto.
Qed.

Lemma K_mono : forall t x s k s', wf s -> K t x s = (k, s') -> wf s' /\ sle s s'.
Proof. intros. eapply key_for_mono; eauto. Qed.

Lemma all_mono : forall l, Forall (fun x => forall t, mono_at t x) l.
Proof. intros l. apply Forall_forall. intros; apply key_for_mono. Qed.

(* ---- floats *)
Definition not_nan (f : fl) : bool := match f with FNaN => false | _ => true end.

Lemma fl_str_plain : forall f, plain (fl_str nts f).
Proof.
  intros [|b]; cbn [fl_str]; [apply plain_of_string_nan|].
  destruct (is_zero_bits b); [apply plain_of_string_zero | apply nts_plain].
Qed.

Lemma fl_str_eq : forall a b, not_nan a = true -> not_nan b = true ->
  (fl_str nts a = fl_str nts b <-> fl_eq a b = true).
Proof.
  intros [|x] [|y] Ha Hb; try discriminate. cbn [fl_str fl_eq].
  destruct (is_zero_bits x) eqn:Zx; destruct (is_zero_bits y) eqn:Zy; cbn [andb]; rewrite ?orb_true_r, ?orb_false_r.
  - tauto.
  - split; intros H.
    + symmetry in H. now apply nts_nonzero in H.
    + apply Z.eqb_eq in H. subst. congruence.
  - split; intros H.
    + now apply nts_nonzero in H.
    + apply Z.eqb_eq in H. subst. congruence.
  - split; intros H.
    + apply Z.eqb_eq. now apply nts_inj.
    + apply Z.eqb_eq in H. now subst.
Qed.

Lemma fl_str_not_nan_text : forall b, fl_str nts (FNum b) <> of_string "NaN".
Proof. intros b. cbn [fl_str]. destruct (is_zero_bits b); [vm_compute; discriminate | apply nts_not_nan]. Qed.

Definition NANP : str := [78; 97; 78; 36]%N.     (* "NaN$" *)

Lemma float_key_nan : forall s,
  float_key nts FNaN s = (NANP ++ dec (Z.of_N (N.succ (ctr s))), {| ctr := N.succ (ctr s); ids := ids s |}).
Proof. reflexivity. Qed.
Lemma float_key_num : forall b s, float_key nts (FNum b) s = (fl_str nts (FNum b), s).
Proof. reflexivity. Qed.

(* the two shapes a $floatKey text has *)
Definition fshape (k : str) : Prop :=
  (plain k /\ k <> of_string "NaN") \/ (exists c, k = NANP ++ dec c).

Lemma float_key_shape : forall f s k s', float_key nts f s = (k, s') -> fshape k.
Proof.
  intros [|b] s k s' H.
  - rewrite float_key_nan in H. injection H as <- _. right. eexists. reflexivity.
  - rewrite float_key_num in H. injection H as <- _. left. split; [exact (fl_str_plain (FNum b)) | exact (fl_str_not_nan_text b)].
Qed.

Lemma dollar_not_plain : forall a b, ~ plain (a ++ DOLLAR :: b).
Proof. intros a b H. apply plain_no_dollar in H. apply H. apply in_or_app. right. now left. Qed.

Lemma nan_key_not_plain : forall x : str, ~ plain (78 :: 97 :: 78 :: 36 :: x)%N.
Proof. intros x H. apply plain_no_dollar in H. apply H. unfold DOLLAR. cbn. tauto. Qed.

Lemma nanp_split : forall x, NANP ++ x = of_string "NaN" ++ DOLLAR :: x.
Proof. reflexivity. Qed.

(* a $floatKey text followed by "$" and more text: the first part is determined *)
Lemma fkey_split : forall a b x y, fshape a -> fshape b ->
  a ++ DOLLAR :: x = b ++ DOLLAR :: y -> a = b /\ x = y.
Proof.
  intros a b x y [[Pa Na]|[c ->]] [[Pb Nb]|[c' ->]] H.
  - now apply split_dollar.
  - exfalso. rewrite nanp_split, <- app_assoc in H. cbn [app] in H.
    apply split_dollar in H; [|exact Pa|apply plain_of_string_nan]. destruct H as [H _]. contradiction.
  - exfalso. rewrite nanp_split, <- app_assoc in H. cbn [app] in H.
    apply split_dollar in H; [|apply plain_of_string_nan|exact Pb]. destruct H as [H _]. symmetry in H. contradiction.
  - rewrite <- !app_assoc in H. apply app_inv_head in H.
    apply split_dollar in H; try apply dec_plain. destruct H as [H1 H2]. split; [now rewrite H1 | exact H2].
Qed.

(* two $floatKey computations, the second one later: same text iff Go's == *)
Lemma float_key_iff : forall f1 f2 s0 k1 s1 s2 k2 s3,
  float_key nts f1 s0 = (k1, s1) -> (ctr s1 <= ctr s2)%N -> float_key nts f2 s2 = (k2, s3) ->
  (k1 = k2 <-> fl_eq f1 f2 = true).
Proof.
  intros [|x] [|z] s0 k1 s1 s2 k2 s3 H1 L H2.
  - rewrite float_key_nan in H1, H2. injection H1 as <- <-. injection H2 as <- <-. cbn [fl_eq ctr] in *.
    split; [|discriminate]. intros E. injection E as E. apply dec_inj in E. lia.
  - rewrite float_key_nan in H1. rewrite float_key_num in H2. injection H1 as <- <-. injection H2 as <- <-.
    cbn [fl_eq]. split; [|discriminate]. intros E. exfalso.
    pose proof (fl_str_plain (FNum z)) as P. cbn [fl_str] in P, E. rewrite <- E in P. exact (nan_key_not_plain _ P).
  - rewrite float_key_num in H1. rewrite float_key_nan in H2. injection H1 as <- <-. injection H2 as <- <-.
    cbn [fl_eq]. split; [|discriminate]. intros E. exfalso.
    pose proof (fl_str_plain (FNum x)) as P. cbn [fl_str] in P, E. rewrite E in P. exact (nan_key_not_plain _ P).
  - rewrite float_key_num in H1, H2. injection H1 as <- <-. injection H2 as <- <-.
    exact (fl_str_eq (FNum x) (FNum z) eq_refl eq_refl).
Qed.

Lemma float_key_ctr : forall f s k s', float_key nts f s = (k, s') -> (ctr s <= ctr s')%N.
Proof. intros [|b] s k s' H; cbn in H; injection H as <- <-; cbn; lia. Qed.

(* ---- which values the theorem speaks about *)
Fixpoint dyns (v : val) : list dyn :=
  match v with
  | VDyn d x => d :: dyns x
  | VArr l => flat_map dyns l
  | VStruct l => flat_map dyns l
  | _ => []
  end.

(* the dynamic types met: one record per type identity; the text $ifaceKeyFor prints for a type
   identifies it and contains no "$" / "\" (by construction when it prints the type id) *)
Definition univ_ok (D : list dyn) : Prop :=
  (forall d d', In d D -> In d' D -> d_id d = d_id d' -> d = d') /\
  (forall d d', In d D -> In d' D -> pre d = pre d' -> d_id d = d_id d') /\
  (forall d, In d D -> plain (pre d)).

Definition iff_at (x : val) : Prop :=
  forall t b D s0 ka s1 s2 kb s3,
    univ_ok D -> incl (dyns x) D -> incl (dyns b) D ->
    wt t x = true -> wt t b = true ->
    wf s0 -> K t x s0 = (Some ka, s1) -> sle s1 s2 -> wf s2 -> K t b s2 = (Some kb, s3) ->
    (key_str ka = key_str kb <-> go_eq t x b = true).

Lemma arr_iff : forall e l, Forall iff_at l ->
  forall l' D s0 ks s1 s2 ks' s3,
    univ_ok D -> incl (flat_map dyns l) D -> incl (flat_map dyns l') D ->
    List.length l = List.length l' ->
    all1 (fun x => wt e x) l = true -> all1 (fun x => wt e x) l' = true ->
    wf s0 -> keys_arr (fun x s => K e x s) esc l s0 = (Some ks, s1) -> sle s1 s2 -> wf s2 ->
    keys_arr (fun x s => K e x s) esc l' s2 = (Some ks', s3) ->
    exists rs rs', ks = map escape rs /\ ks' = map escape rs' /\ List.length rs = List.length rs' /\
                   (rs = rs' <-> all2 (fun x y => go_eq e x y) l l' = true).
Proof.
  intros e l HF. induction HF as [|x l Hx _ IH];
    intros [|y l'] D s0 ks s1 s2 ks' s3 U I1 I2 Hlen W1 W2 Wf H1 L Wf2 H2; try discriminate.
  - cbn in H1, H2. injection H1 as <- <-. injection H2 as <- <-. exists [], []. cbn. repeat split; auto.
  - cbn [keys_arr] in H1, H2. cbn [all1] in W1, W2.
    apply andb_true_iff in W1 as [Wx W1]. apply andb_true_iff in W2 as [Wy W2].
    cbn [flat_map] in I1, I2.
    destruct (K e x s0) as [[k|] sa] eqn:Ea; [|discriminate].
    destruct (keys_arr (fun x s => K e x s) esc l sa) as [[ksa|] sa'] eqn:Ea'; [|discriminate].
    injection H1 as <- <-.
    destruct (K e y s2) as [[k'|] sb] eqn:Eb; [|discriminate].
    destruct (keys_arr (fun x s => K e x s) esc l' sb) as [[ksb|] sb'] eqn:Eb'; [|discriminate].
    injection H2 as <- <-.
    destruct (K_mono _ _ _ _ _ Wf Ea) as [Wa La].
    destruct (keys_arr_mono e _ l (all_mono l) _ _ _ Wa Ea') as [Wa' La'].
    destruct (K_mono _ _ _ _ _ Wf2 Eb) as [Wb Lb].
    destruct (incl_app_inv _ _ I1) as [I1a I1b]. destruct (incl_app_inv _ _ I2) as [I2a I2b].
    assert (Lx : sle sa s2) by (eapply sle_trans; [exact La' | exact L]).
    pose proof (Hx e y D s0 k sa s2 k' sb U I1a I2a Wx Wy Wf Ea Lx Wf2 Eb) as Hhead.
    assert (Hlen' : List.length l = List.length l') by (cbn [List.length] in Hlen; lia).
    assert (Lrest : sle sa' sb) by (eapply sle_trans; [exact L | exact Lb]).
    destruct (IH l' D sa ksa sa' sb ksb sb' U I1b I2b Hlen' W1 W2 Wa Ea' Lrest Wb Eb')
      as (rs & rs' & -> & -> & Hl & Hiff).
    exists (key_str k :: rs), (key_str k' :: rs'). cbn [map List.length all2].
    split; [reflexivity|]. split; [reflexivity|]. split; [now rewrite Hl|]. split.
    + intros E. injection E as E1 E2. apply andb_true_iff; split; [now apply Hhead | now apply Hiff].
    + intros E. apply andb_true_iff in E as [E1 E2]. f_equal; [now apply Hhead | now apply Hiff].
Qed.

(* blank fields take no part: neither in the key nor in == *)
Lemma struct_iff : forall l, Forall iff_at l ->
  forall fs l' D s0 ks s1 s2 ks' s3,
    univ_ok D -> incl (flat_map dyns l) D -> incl (flat_map dyns l') D ->
    fields1 (fun ft x => wt ft x) fs l = true -> fields1 (fun ft x => wt ft x) fs l' = true ->
    wf s0 -> keys_struct (fun ft x s => K ft x s) (fun k => escape (key_str k)) fs l s0 = (Some ks, s1) ->
    sle s1 s2 -> wf s2 ->
    keys_struct (fun ft x s => K ft x s) (fun k => escape (key_str k)) fs l' s2 = (Some ks', s3) ->
    exists rs rs', ks = map escape rs /\ ks' = map escape rs' /\ List.length rs = List.length rs' /\
                   (rs = rs' <-> fields2 (fun blank ft x y => blank || go_eq ft x y) fs l l' = true).
Proof.
  intros l HF. induction HF as [|x l Hx _ IH];
    intros fs l' D s0 ks s1 s2 ks' s3 U I1 I2 W1 W2 Wf H1 L Wf2 H2.
  - destruct fs as [|[bl ft] fs]; [|discriminate W1]. destruct l' as [|y l']; [|discriminate W2].
    cbn in H1, H2. injection H1 as <- <-. injection H2 as <- <-. exists [], []. cbn. repeat split; auto.
  - destruct fs as [|[bl ft] fs]; [discriminate W1|]. destruct l' as [|y l']; [discriminate W2|].
    cbn [keys_struct] in H1, H2. cbn [fields1] in W1, W2.
    apply andb_true_iff in W1 as [Wx W1]. apply andb_true_iff in W2 as [Wy W2].
    cbn [flat_map] in I1, I2.
    destruct (incl_app_inv _ _ I1) as [I1a I1b]. destruct (incl_app_inv _ _ I2) as [I2a I2b].
    destruct bl.
    + (* blank: skipped on both sides *)
      destruct (IH fs l' D s0 ks s1 s2 ks' s3 U I1b I2b W1 W2 Wf H1 L Wf2 H2) as (rs & rs' & A & B & Hl & Hiff).
      exists rs, rs'. cbn [fields2 orb andb]. repeat split; auto; apply Hiff.
    + destruct (K ft x s0) as [[k|] sa] eqn:Ea; [|discriminate].
      destruct (keys_struct (fun ft x s => K ft x s) (fun k => escape (key_str k)) fs l sa) as [[ksa|] sa'] eqn:Ea'; [|discriminate].
      injection H1 as <- <-.
      destruct (K ft y s2) as [[k'|] sb] eqn:Eb; [|discriminate].
      destruct (keys_struct (fun ft x s => K ft x s) (fun k => escape (key_str k)) fs l' sb) as [[ksb|] sb'] eqn:Eb'; [|discriminate].
      injection H2 as <- <-.
      destruct (K_mono _ _ _ _ _ Wf Ea) as [Wa La].
      destruct (keys_struct_mono _ l (all_mono l) _ _ _ _ Wa Ea') as [Wa' La'].
      destruct (K_mono _ _ _ _ _ Wf2 Eb) as [Wb Lb].
      assert (Lx : sle sa s2) by (eapply sle_trans; [exact La' | exact L]).
      pose proof (Hx ft y D s0 k sa s2 k' sb U I1a I2a Wx Wy Wf Ea Lx Wf2 Eb) as Hhead.
      assert (Lrest : sle sa' sb) by (eapply sle_trans; [exact L | exact Lb]).
      destruct (IH fs l' D sa ksa sa' sb ksb sb' U I1b I2b W1 W2 Wa Ea' Lrest Wb Eb')
        as (rs & rs' & -> & -> & Hl & Hiff).
      exists (key_str k :: rs), (key_str k' :: rs'). cbn [map List.length fields2 orb].
      split; [reflexivity|]. split; [reflexivity|]. split; [now rewrite Hl|]. split.
      * intros E. injection E as E1 E2. apply andb_true_iff; split; [now apply Hhead | now apply Hiff].
      * intros E. apply andb_true_iff in E as [E1 E2]. f_equal; [now apply Hhead | now apply Hiff].
Qed.

Lemma plain_of_string_nil : plain (of_string "nil").
Proof. unfold plain, of_string, DOLLAR, BSL. cbn. repeat constructor; discriminate. Qed.

(* THE theorem, at the level of the key text *)
Theorem key_iff : forall x, iff_at x.
Proof.
  induction x using val_ind'; intros t y D u0 ka u1 u2 kb u3 U I1 I2 Wx Wy Wf Ha L Wf2 Hb.
  - (* bool *)
    destruct t; cbn in Wx; try discriminate Wx. destruct y; cbn in Wy; try discriminate Wy.
    cbn in Ha, Hb. injection Ha as <- <-. injection Hb as <- <-. cbn [key_str go_eq].
    destruct b, b0; cbn [Bool.eqb]; split; intros E; try reflexivity; try discriminate E; vm_compute in E; discriminate E.
  - (* int *)
    destruct t; cbn in Wx; try discriminate Wx. destruct y; cbn in Wy; try discriminate Wy.
    cbn in Ha, Hb. injection Ha as <- <-. injection Hb as <- <-. cbn [key_str go_eq].
    rewrite Z.eqb_eq. split; [apply dec_inj | congruence].
  - (* string *)
    destruct t; cbn in Wx; try discriminate Wx. destruct y; cbn in Wy; try discriminate Wy.
    cbn in Ha, Hb. injection Ha as <- <-. injection Hb as <- <-. cbn [key_str go_eq].
    rewrite str_eqb_eq. split; congruence.
  - (* float *)
    destruct t; cbn in Wx; try discriminate Wx. destruct y; cbn in Wy; try discriminate Wy.
    rewrite K_float in Ha, Hb. cbn [go_eq].
    destruct (float_key nts f u0) as [k1 v1] eqn:E1. destruct (float_key nts f0 u2) as [k2 v2] eqn:E2.
    injection Ha as <- <-. injection Hb as <- <-. cbn [key_str].
    destruct L as [L _]. exact (float_key_iff _ _ _ _ _ _ _ _ E1 L E2).
  - (* 64 *)
    destruct t; cbn in Wx; try discriminate Wx. destruct y; cbn in Wy; try discriminate Wy.
    cbn in Ha, Hb. injection Ha as <- <-. injection Hb as <- <-. cbn [key_str go_eq]. split; intros E.
    + apply split_dollar in E; try apply dec_plain. destruct E as [E1 E2].
      apply dec_inj in E1. apply dec_inj in E2. subst. now rewrite !Z.eqb_refl.
    + apply andb_true_iff in E as [E1 E2]. apply Z.eqb_eq in E1, E2. now subst.
  - (* complex: $floatKey on both parts *)
    destruct t; cbn in Wx; try discriminate Wx. destruct y; cbn in Wy; try discriminate Wy.
    rewrite K_complex in Ha, Hb.
    destruct (float_key nts r u0) as [kr a1] eqn:Er. destruct (float_key nts i a1) as [ki a2] eqn:Ei.
    destruct (float_key nts re u2) as [kr' b1] eqn:Er'. destruct (float_key nts im b1) as [ki' b2] eqn:Ei'.
    injection Ha as <- <-. injection Hb as <- <-. cbn [key_str go_eq].
    destruct L as [L _].
    pose proof (float_key_ctr _ _ _ _ Ei) as C1. pose proof (float_key_ctr _ _ _ _ Er') as C2.
    assert (A1 : ctr a1 <= ctr u2) by lia. assert (A2 : ctr a2 <= ctr b1) by lia.
    pose proof (float_key_iff r re u0 kr a1 u2 kr' b1 Er A1 Er') as Hr.
    pose proof (float_key_iff i im a1 ki a2 b1 ki' b2 Ei A2 Ei') as Hi.
    split; intros E.
    + apply fkey_split in E; [|eapply float_key_shape; eauto|eapply float_key_shape; eauto].
      destruct E as [E1 E2]. apply andb_true_iff; split; [now apply Hr | now apply Hi].
    + apply andb_true_iff in E as [E1 E2]. apply Hr in E1. apply Hi in E2. now subst.
  - (* ref *)
    destruct t; cbn in Wx; try discriminate Wx. destruct y; cbn in Wy; try discriminate Wy.
    rewrite K_ref in Ha, Hb.
    destruct (id_key r u0) as [k1 v1] eqn:E1. destruct (id_key r0 u2) as [k2 v2] eqn:E2.
    injection Ha as <- <-. injection Hb as <- <-.
    destruct (id_key_spec _ _ _ _ Wf E1) as (Wa & La & i & Li & ->).
    destruct (id_key_spec _ _ _ _ Wf2 E2) as (Wb & Lb & j & Lj & ->).
    cbn [key_str go_eq]. rewrite N.eqb_eq.
    assert (Li3 : lookup_id r (ids v2) = Some i) by (apply Lb, L, Li).
    split; intros E.
    + apply dec_inj in E. apply N2Z.inj in E. subst j. destruct Wb as [_ Winj]. eapply Winj; eauto.
    + subst r0. congruence.
  - (* nil *)
    destruct t; cbn in Wx; try discriminate Wx. destruct y; cbn in Wy; try discriminate Wy.
    + cbn in Ha, Hb. injection Ha as <- <-. injection Hb as <- <-. cbn. tauto.
    + rewrite K_dyn in Hb. destruct (comparable (d_shape d)); [|discriminate].
      destruct (K (d_shape d) y u2) as [[k|] ?]; [|discriminate]. injection Hb as <- <-.
      cbn [key_for] in Ha. injection Ha as <- <-. cbn [key_str go_eq]. split; [|discriminate].
      intros E. exfalso. eapply dollar_not_plain. rewrite <- E. apply plain_of_string_nil.
  - (* dyn *)
    destruct t; cbn [wt] in Wx; try discriminate Wx. destruct y; cbn [wt] in Wy; try discriminate Wy.
    + rewrite K_dyn in Ha. destruct (comparable (d_shape d)); [|discriminate].
      destruct (K (d_shape d) x u0) as [[k|] ?]; [|discriminate]. injection Ha as <- <-.
      cbn [key_for] in Hb. injection Hb as <- <-. cbn [key_str go_eq]. split; [|discriminate].
      intros E. exfalso. eapply dollar_not_plain. rewrite E. apply plain_of_string_nil.
    + rewrite K_dyn in Ha, Hb.
      destruct (comparable (d_shape d)); [|discriminate]. destruct (comparable (d_shape d0)); [|discriminate].
      destruct (K (d_shape d) x u0) as [[k|] w1] eqn:E1; [|discriminate].
      destruct (K (d_shape d0) y u2) as [[k'|] w2] eqn:E2; [|discriminate].
      injection Ha as <- <-. injection Hb as <- <-.
      cbn [dyns] in I1, I2. cbn [key_str go_eq].
      assert (Id : In d D) by (apply I1; now left). assert (Id0 : In d0 D) by (apply I2; now left).
      assert (I1' : incl (dyns x) D) by (intros z Hz; apply I1; now right).
      assert (I2' : incl (dyns y) D) by (intros z Hz; apply I2; now right).
      destruct U as (U1 & U2 & U3).
      destruct (N.eqb_spec (d_id d) (d_id d0)) as [Eid|Nid]; cbn [andb].
      * assert (d = d0) by (apply U1; auto). subst d0.
        pose proof (IHx (d_shape d) y D u0 k w1 u2 k' w2 (conj U1 (conj U2 U3)) I1' I2' Wx Wy Wf E1 L Wf2 E2) as IH.
        split; intros E.
        -- apply app_inv_head in E. injection E as E. now apply IH.
        -- apply IH in E. now rewrite E.
      * split; [|discriminate]. intros E. exfalso. apply Nid.
        apply split_dollar in E; auto. destruct E as [E _]. now apply U2.
  - (* array *)
    destruct t; cbn [wt] in Wx; try discriminate Wx. destruct y; cbn [wt] in Wy; try discriminate Wy.
    apply andb_true_iff in Wx as [Nx Wx]. apply andb_true_iff in Wy as [Ny Wy].
    apply Nat.eqb_eq in Nx, Ny.
    rewrite K_arr in Ha, Hb. destruct (comparable t); [|discriminate].
    destruct (keys_arr (fun x s => K t x s) esc l u0) as [[ks|] w1] eqn:E1; [|discriminate].
    destruct (keys_arr (fun x s => K t x s) esc l0 u2) as [[ks'|] w2] eqn:E2; [|discriminate].
    injection Ha as <- <-. injection Hb as <- <-.
    cbn [dyns] in I1, I2. cbn [key_str go_eq].
    assert (Hlen : List.length l = List.length l0) by congruence.
    destruct (arr_iff t l H l0 D u0 ks w1 u2 ks' w2 U I1 I2 Hlen Wx Wy Wf E1 L Wf2 E2)
      as (rs & rs' & -> & -> & Hl & Hiff).
    split; intros E.
    + apply Hiff. now apply join_escape_inj.
    + apply Hiff in E. now subst.
  - (* struct *)
    destruct t; cbn [wt] in Wx; try discriminate Wx. destruct y; cbn [wt] in Wy; try discriminate Wy.
    rewrite K_struct in Ha, Hb.
    destruct (keys_struct (fun ft x s => K ft x s) (fun k => escape (key_str k)) fs l u0) as [[ks|] w1] eqn:E1; [|discriminate].
    destruct (keys_struct (fun ft x s => K ft x s) (fun k => escape (key_str k)) fs l0 u2) as [[ks'|] w2] eqn:E2; [|discriminate].
    injection Ha as <- <-. injection Hb as <- <-.
    cbn [dyns] in I1, I2. cbn [key_str go_eq].
    destruct (struct_iff l H fs l0 D u0 ks w1 u2 ks' w2 U I1 I2 Wx Wy Wf E1 L Wf2 E2)
      as (rs & rs' & -> & -> & Hl & Hiff).
    split; intros E.
    + apply Hiff. now apply join_escape_inj.
    + apply Hiff in E. now subst.
  - (* opaque *)
    destruct t; cbn in Wx; try discriminate Wx. cbn in Ha. discriminate Ha.
Qed.

(* which JS type a key of static type t has: the same for both keys of one map *)
Lemma key_kind : forall t x s k s', K t x s = (Some k, s') ->
  match t with
  | TBool => exists b, k = KBool b
  | TInt => exists z, k = KNum z
  | _ => exists w, k = KStr w
  end.
Proof.
  intros t x s k s' H. destruct t; destruct x; cbn [key_for] in H; try discriminate H;
    try (injection H as <- _; eauto; fail).
  - destruct (float_key nts f s). injection H as <- _. eauto.
  - destruct (float_key nts re s) as [? s1]. destruct (float_key nts im s1). injection H as <- _. eauto.
  - destruct (id_key r s). injection H as <- _. eauto.
  - destruct (comparable (d_shape d)); [|discriminate].
    destruct (key_for nts by_id (d_shape d) x s) as [[?|] ?]; [|discriminate]. injection H as <- _. eauto.
  - destruct (comparable t); [|discriminate]. destruct (keys_arr _ _ l s) as [[?|] ?]; [|discriminate]. injection H as <- _. eauto.
  - destruct (keys_struct _ _ fs l s) as [[?|] ?]; [|discriminate]. injection H as <- _. eauto.
Qed.

Lemma jskey_eqb_str : forall t x y s1 k1 s1' s2 k2 s2',
  K t x s1 = (Some k1, s1') -> K t y s2 = (Some k2, s2') ->
  (jskey_eqb k1 k2 = true <-> key_str k1 = key_str k2).
Proof.
  intros t x y s1 k1 s1' s2 k2 s2' H1 H2.
  apply key_kind in H1. apply key_kind in H2.
  destruct t; destruct H1 as [a ->]; destruct H2 as [b ->]; cbn [jskey_eqb key_str];
    try (rewrite str_eqb_eq; tauto).
  - destruct a, b; cbn; split; intros E; try reflexivity; try discriminate E; vm_compute in E; discriminate E.
  - rewrite Z.eqb_eq. split; [congruence | apply dec_inj].
Qed.

(* key_iff_eq: the JS Map (SameValueZero on the keys) identifies two keys exactly when Go's == holds.
   The two keys may be computed at any two moments (s1 is the state after the first computation,
   s2 any later state). *)
Theorem key_iff_eq : forall t a b D s0 ka s1 s2 kb s3,
  univ_ok D -> incl (dyns a) D -> incl (dyns b) D ->
  wt t a = true -> wt t b = true ->
  wf s0 -> K t a s0 = (Some ka, s1) -> sle s1 s2 -> wf s2 -> K t b s2 = (Some kb, s3) ->
  (jskey_eqb ka kb = true <-> go_eq t a b = true).
Proof.
  intros t a b D s0 ka s1 s2 kb s3 U I1 I2 W1 W2 Wf H1 L Wf2 H2.
  rewrite (jskey_eqb_str t a b s0 ka s1 s2 kb s3 H1 H2).
  exact (key_iff a t b D s0 ka s1 s2 kb s3 U I1 I2 W1 W2 Wf H1 L Wf2 H2).
Qed.

End Keys.
