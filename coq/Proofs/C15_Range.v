(* C15 — the emitted range-over-map loop, for EVERY loop body (any function from the loop's own
   state and the entry handed to it to a list of Map mutations):
     - every entry handed to the body is in the map at that moment, with its current value
       (so an entry deleted before the iterator reaches it is never visited);
     - the map after the loop is the initial map with exactly the body's mutations applied;
     - the loop makes at most [size at loop start] visits.
   Not proved here (checked on compiled programs against native Go on every run): an entry present
   from loop start to loop end is visited exactly once. *)
From Coq Require Import List Bool Lia.
From Verif Require Import Model.C15_Keys Model.C15_JsMap.
Import ListNotations.

Section Range.
Variables K E S : Type.
Variable keq : K -> K -> bool.
Variable body : S -> K -> E -> S * list (mop K E).

(* the trace makes sense from map m: every visit finds its entry, mutations are applied in order *)
Fixpoint trace_ok (m : jsmap K E) (ev : list (event K E)) : Prop :=
  match ev with
  | [] => True
  | EVisit k e :: r => m_get keq m k = Some e /\ trace_ok m r
  | EMut o :: r => trace_ok (apply_mop keq m o) r
  end.

Fixpoint replay (m : jsmap K E) (ev : list (event K E)) : jsmap K E :=
  match ev with
  | [] => m
  | EVisit _ _ :: r => replay m r
  | EMut o :: r => replay (apply_mop keq m o) r
  end.

Definition visits (ev : list (event K E)) : nat :=
  List.length (filter (fun e => match e with EVisit _ _ => true | _ => false end) ev).

Lemma trace_ok_muts : forall ops m ev,
  trace_ok m (map EMut ops ++ ev) <-> trace_ok (fold_left (apply_mop keq) ops m) ev.
Proof. induction ops as [|o ops IH]; intros m ev; cbn; [tauto | apply IH]. Qed.

Lemma replay_muts : forall ops m ev,
  replay m (map EMut ops ++ ev) = replay (fold_left (apply_mop keq) ops m) ev.
Proof. induction ops as [|o ops IH]; intros m ev; cbn; [reflexivity | apply IH]. Qed.

Lemma visits_muts : forall ops ev, visits (map (@EMut K E) ops ++ ev) = visits ev.
Proof. induction ops as [|o ops IH]; intros ev; cbn; [reflexivity | apply IH]. Qed.

Theorem range_loop_law : forall fuel m pos s ev m' s',
  range_loop keq body fuel m pos s = (ev, m', s') ->
  trace_ok m ev /\ m' = replay m ev /\ visits ev <= fuel.
Proof.
  induction fuel as [|f IH]; intros m pos s ev m' s' H; cbn [range_loop] in H.
  - injection H as <- <- <-. cbn. repeat split; lia.
  - destruct (it_next m pos) as [[k pos']|].
    + destruct (m_get keq m k) as [e|] eqn:G.
      * destruct (body s k e) as [s1 ops].
        destruct (range_loop keq body f (fold_left (apply_mop keq) ops m) pos' s1) as [[ev1 m1] s2] eqn:R.
        injection H as <- <- <-.
        destruct (IH _ _ _ _ _ _ R) as (A & B & C).
        cbn [trace_ok replay]. split; [|split].
        -- split; [exact G|]. now apply trace_ok_muts.
        -- now rewrite replay_muts.
        -- unfold visits in *. cbn [filter List.length]. fold (visits (map EMut ops ++ ev1)).
           rewrite visits_muts. unfold visits. lia.
      * destruct (IH _ _ _ _ _ _ H) as (A & B & C). repeat split; auto.
    + destruct (IH _ _ _ _ _ _ H) as (A & B & C). repeat split; auto.
Qed.

Theorem range_law_partial : forall m s ev m' s',
  range_over keq body m s = (ev, m', s') ->
  trace_ok m ev /\ m' = replay m ev /\ visits ev <= m_size m.
Proof. intros m s ev m' s' H. exact (range_loop_law _ _ _ _ _ _ _ H). Qed.

(* a key that is not in the map is not handed to the body: deleted-before-reached, never visited *)
Corollary not_in_map_not_visited : forall m k e r,
  trace_ok m (EVisit k e :: r) -> m_get keq m k <> None.
Proof. intros m k e r [H _]. congruence. Qed.
End Range.
