(* C07 — lemmas about the slice half of the heap model: $subslice bounds, $growSlice / $internalAppend (sharing versus
   reallocation, contents and independence of the reallocated array for ANY element type) and [N]T(slice). *)
From Coq Require Import List ZArith Bool Arith Lia.
From Verif Require Import Model.C07_Heap Model.C07_Ops Proofs.C07_Clone.
Import ListNotations.
Local Open Scope Z_scope.

Definition odef (o : option Z) (d : Z) : Z := match o with Some x => x | None => d end.

(* $subslice succeeds exactly on Go's bounds 0 <= lo <= hi <= max <= cap, and yields the window it should *)
Theorem subslice_ok_iff s lo hi mx :
  (exists s', subslice s lo hi mx = Some s') <->
  (0 <= lo /\ lo <= odef hi (slen s) /\ odef hi (slen s) <= odef mx (scap s) /\ odef mx (scap s) <= scap s).
Proof.
  unfold subslice, odef.
  destruct (Z.ltb_spec lo 0), (Z.ltb_spec (match hi with Some x => x | None => slen s end) lo),
    (Z.ltb_spec (match mx with Some x => x | None => scap s end) (match hi with Some x => x | None => slen s end)),
    (Z.ltb_spec (scap s) (match hi with Some x => x | None => slen s end)),
    (Z.ltb_spec (scap s) (match mx with Some x => x | None => scap s end)); simpl;
  (split; [intros [s' E]; try discriminate; lia | intros; try lia; destruct s; eauto]).
Qed.

Theorem subslice_window a o l c lo hi mx s' :
  subslice (SHdr a o l c) lo hi mx = Some s' ->
  s' = SHdr a (o + lo) (odef hi l - lo) (odef mx c - lo).
Proof.
  unfold subslice, odef. simpl. destruct (_ || _); [discriminate|]. intro E; inversion E; reflexivity.
Qed.

Theorem subslice_nil lo hi mx s' : subslice SNil lo hi mx = Some s' -> s' = SNil.
Proof. unfold subslice. destruct (_ || _); [discriminate|]. intro E; inversion E; reflexivity. Qed.

Lemma calc_new_cap_ge minCap old : minCap <= calc_new_cap minCap old.
Proof. unfold calc_new_cap. apply Z.le_max_l. Qed.

(* ------------------------------------------------------------------ list facts *)

Lemma skipn_app_len {A} (l1 l2 : list A) : skipn (length l1) (l1 ++ l2) = l2.
Proof. induction l1; simpl; auto. Qed.

Lemma firstn_app_len {A} (l1 l2 : list A) : firstn (length l1) (l1 ++ l2) = l1.
Proof. induction l1; simpl; [reflexivity | f_equal; auto]. Qed.

Lemma skipn_app_len2 {A} (l1 l2 l3 : list A) : skipn (length l1 + length l2) (l1 ++ l2 ++ l3) = l3.
Proof. induction l1; simpl; [apply skipn_app_len | auto]. Qed.

Lemma sublist_mid {A} (l1 l2 l3 : list A) : sublist (l1 ++ l2 ++ l3) (length l1) (length l2) = l2.
Proof. unfold sublist. rewrite skipn_app_len. apply firstn_app_len. Qed.

Lemma splice_mid {A} (l1 l2 l3 x : list A) : length x = length l2 -> splice (l1 ++ l2 ++ l3) (length l1) x = l1 ++ x ++ l3.
Proof. intro H. unfold splice. rewrite firstn_app_len, H, skipn_app_len2. reflexivity. Qed.

(* ------------------------------------------------------------------ RL over concatenations *)

Lemma RL_app h t1 v1 d1 n1 t2 v2 d2 n2 :
  RL h t1 v1 d1 n1 -> RL h t2 v2 d2 n2 -> RL h (t1 ++ t2) (v1 ++ v2) (d1 ++ d2) (n1 ++ n2).
Proof.
  induction 1; intro H2; simpl; [assumption|]. rewrite <- app_assoc. constructor; auto.
Qed.

Lemma RL_split h t1 : forall t2 vs ds ns,
  RL h (t1 ++ t2) vs ds ns ->
  exists v1 v2 d1 d2 n1 n2, vs = v1 ++ v2 /\ ds = d1 ++ d2 /\ ns = n1 ++ n2 /\ RL h t1 v1 d1 n1 /\ RL h t2 v2 d2 n2.
Proof.
  induction t1 as [|t t1 IH]; intros t2 vs ds ns H; simpl in H.
  - exists [], vs, [], ds, [], ns. repeat split; auto. constructor.
  - inversion H as [|? ? v vs' d ds' na nb Hv Hr]; subst.
    destruct (IH _ _ _ _ Hr) as (v1 & v2 & d1 & d2 & n1 & n2 & -> & -> & -> & R1 & R2).
    exists (v :: v1), v2, (d :: d1), d2, (na ++ n1), n2. repeat split; auto.
    + apply app_assoc.
    + constructor; assumption.
Qed.

Lemma RL_nodes_lt h ts vs ds ns : wf h -> RL h ts vs ds ns -> forall l, In l ns -> (l < hnext h)%nat.
Proof.
  intros W H l Hl. pose proof (proj2 (R_nodes_allocated h) _ _ _ _ H l Hl) as A.
  destruct (lookup h l) eqn:E; [eapply W; eauto | congruence].
Qed.

(* ------------------------------------------------------------------ cloning / zeroing a run of elements *)

Lemma clone_list_ok e : is_node e = true -> forall vs k h ds ns,
  wf h -> RL h (repeat e k) vs ds ns ->
  exists cs h0 nsc, clone_list e h vs = Some (cs, h0) /\ wf h0 /\ (hnext h <= hnext h0)%nat /\
    (forall x, (x < hnext h)%nat -> lookup h0 x = lookup h x) /\
    RL h0 (repeat e k) cs ds nsc /\ NoDup nsc /\ (forall x, In x nsc -> (hnext h <= x < hnext h0)%nat).
Proof.
  intro Hn. induction vs as [|v vs IH]; intros k h ds ns W H.
  - inversion H; subst. exists [], h, []. simpl.
    split; [reflexivity|]. split; [assumption|]. split; [lia|]. split; [auto|].
    split; [destruct k; [constructor | discriminate]|]. split; [constructor|]. intros x [].
  - destruct k as [|k]; [inversion H|]. simpl in H.
    inversion H as [|? ? ? ? d ds' n1 n2 Hv Hr]; subst. simpl.
    destruct (clone_ok e h v d n1 Hn W Hv) as (c & h1 & nsc & C & W1 & N1 & X1 & RC & DC & BC).
    rewrite C.
    assert (Hr1 : RL h1 (repeat e k) vs ds' n2).
    { eapply RL_frame; [exact Hr|]. intros l Hl. apply X1. eapply RL_nodes_lt; eauto. }
    destruct (IH k h1 ds' n2 W1 Hr1) as (cs & h2 & nsc2 & C2 & W2 & N2 & X2 & RC2 & DC2 & BC2).
    rewrite C2. exists (c :: cs), h2, (nsc ++ nsc2). split; [reflexivity|]. split; [assumption|]. split; [lia|]. split.
    { intros x Hx. rewrite X2 by lia. apply X1. assumption. }
    split; [|split].
    + simpl. constructor; [|assumption]. eapply R_frame; [exact RC|]. intros l Hl. apply X2. apply BC in Hl. lia.
    + apply NoDup_app_intro; auto. intros x Hx Hx'. apply BC in Hx. apply BC2 in Hx'. lia.
    + intros x Hx. apply in_app_or in Hx. destruct Hx as [Hx|Hx]; [apply BC in Hx | apply BC2 in Hx]; lia.
Qed.

(* what $growSlice builds when it has to reallocate: a fresh array = own copies of the window ++ fresh zero values *)
Lemma grow_realloc_full e h a o l c minCap w1 w2 w3 dsw nsw :
  wf h -> c < minCap -> 0 <= o -> 0 <= l ->
  lookup h a = Some (OArr (is_num e) (w1 ++ w2 ++ w3)) -> length w1 = Z.to_nat o -> length w2 = Z.to_nat l ->
  RL h (repeat e (Z.to_nat l)) w2 dsw nsw ->
  exists a' h1 old' zs dz nso nsz,
    grow_slice e h (SHdr a o l c) minCap = Some (SHdr a' 0 l (calc_new_cap minCap c), h1) /\
    wf h1 /\ (hnext h <= a' < hnext h1)%nat /\ (forall x, (x < hnext h)%nat -> lookup h1 x = lookup h x) /\
    lookup h1 a' = Some (OArr (is_num e) (old' ++ zs)) /\
    RL h1 (repeat e (Z.to_nat l)) old' dsw nso /\
    RL h1 (repeat e (Z.to_nat (calc_new_cap minCap c - l))) zs dz nsz /\
    NoDup (nso ++ nsz) /\ (forall x, In x (nso ++ nsz) -> (hnext h <= x < a')%nat).
Proof.
  intros W Hc Ho Hl La L1 L2 RW. unfold grow_slice, slice_array. rewrite La.
  simpl scap; simpl slen; simpl soff. destruct (Z.ltb_spec c minCap); [|lia].
  rewrite <- L1, <- L2, sublist_mid. rewrite Nat.ltb_irrefl. rewrite L2.
  set (K := Z.to_nat (calc_new_cap minCap c - l)).
  destruct (is_num e) eqn:En.
  - (* typed array *)
    destruct e; try discriminate.
    destruct (alloc h (OArr true (w2 ++ repeat (VNum 0) K))) as [v h1] eqn:A.
    destruct (alloc_spec _ _ _ _ A) as (-> & Hn & Hs & Hx).
    assert (Fl : forall k, Forall (fun t => is_node t = false) (repeat TNum k)) by (intro; apply Forall_repeat; reflexivity).
    destruct (RL_leaves h h1 _ _ _ _ (Fl _) RW) as [-> RW1].
    exists (hnext h), h1, w2, (repeat (VNum 0) K), (repeat (DLeaf 0) K), [], [].
    split; [reflexivity|]. split; [eapply wf_alloc; eauto|]. split; [lia|]. split; [intros; apply Hx; lia|].
    split; [assumption|]. split; [assumption|]. split; [apply RL_num_zeros|]. split; [constructor|]. intros x [].
  - (* ordinary Array *)
    assert (Hold : exists old' h0 nso, (if is_node e then clone_list e h w2 else Some (w2, h)) = Some (old', h0) /\
              wf h0 /\ (hnext h <= hnext h0)%nat /\ (forall x, (x < hnext h)%nat -> lookup h0 x = lookup h x) /\
              RL h0 (repeat e (Z.to_nat l)) old' dsw nso /\ NoDup nso /\ (forall x, In x nso -> (hnext h <= x < hnext h0)%nat)).
    { destruct (is_node e) eqn:Ee.
      - destruct (clone_list_ok e Ee w2 _ h dsw nsw W RW) as (cs & h0 & nsc & C & W0 & N0 & X0 & R0 & D0 & B0).
        exists cs, h0, nsc. repeat split; auto; apply B0; assumption.
      - assert (Fl : Forall (fun t => is_node t = false) (repeat e (Z.to_nat l))) by (apply Forall_repeat; assumption).
        destruct (RL_leaves h h _ _ _ _ Fl RW) as [-> RW1].
        exists w2, h, []. repeat split; auto; try constructor; contradiction. }
    destruct Hold as (old' & h0 & nso & -> & W0 & N0 & X0 & R0 & D0 & B0).
    destruct (zero_n (zero e) K h0) as [zs h1] eqn:Z.
    destruct (zero_n_ok e (zero e) K (zero_ok_all e) h0 zs h1 W0 Z) as (W1 & N1 & X1 & dz & nsz & RZ & DZ & BZ).
    destruct (alloc h1 (OArr false (old' ++ zs))) as [v h2] eqn:A.
    destruct (alloc_spec _ _ _ _ A) as (-> & Hn & Hs & Hx).
    exists (hnext h1), h2, old', zs, dz, nso, nsz.
    split; [reflexivity|]. split; [eapply wf_alloc; eauto|]. split; [lia|]. split.
    { intros x Hlt. rewrite Hx by lia. rewrite X1 by lia. apply X0. assumption. }
    split; [assumption|]. split.
    { eapply RL_frame; [exact R0|]. intros x Hin. apply B0 in Hin. rewrite Hx by lia. apply X1. lia. }
    split.
    { eapply RL_frame; [exact RZ|]. intros x Hin. apply BZ in Hin. apply Hx. lia. }
    split.
    { apply NoDup_app_intro; auto. intros x Hx1 Hx2. apply B0 in Hx1. apply BZ in Hx2. lia. }
    intros x Hin. apply in_app_or in Hin. destruct Hin as [Hin|Hin]; [apply B0 in Hin | apply BZ in Hin]; lia.
Qed.

Lemma grow_in_place e h a o l c minCap r :
  minCap <= c -> grow_slice e h (SHdr a o l c) minCap = Some r -> r = (SHdr a o l c, h).
Proof.
  intros Hc. unfold grow_slice. destruct (slice_array e h (SHdr a o l c)) as [[ty cells]|]; [|discriminate].
  simpl scap. destruct (Z.ltb_spec c minCap); [lia|]. intro E; inversion E; reflexivity.
Qed.

(* ------------------------------------------------------------------ $copyArray between two different array objects *)

Lemma copy_array_fwd_ok e d s n od os dc1 dc2 dc3 sc1 sc2 sc3 ds2 d02 nss2 nsd2 h :
  wf h -> d <> s -> (0 < n)%nat ->
  lookup h d = Some od -> (exists dt dcs, od = OArr dt dcs) -> cells_of od = dc1 ++ dc2 ++ dc3 ->
  lookup h s = Some os -> (exists st scs, os = OArr st scs /\ (st = true -> is_node e = false)) ->
  cells_of os = sc1 ++ sc2 ++ sc3 ->
  RL h (repeat e n) sc2 ds2 nss2 -> RL h (repeat e n) dc2 d02 nsd2 -> NoDup nsd2 ->
  ~ In d nsd2 -> ~ In s nsd2 -> ~ In d nss2 -> (forall l, In l nsd2 -> ~ In l nss2) ->
  exists h' dc2', copy_array (copy e) (is_node e) h d s (length dc1) (length sc1) n = Some h' /\
                  hnext h' = hnext h /\ wf h' /\
                  (forall l, l <> d -> ~ In l nsd2 -> lookup h' l = lookup h l) /\
                  lookup h' d = Some (with_cells od (dc1 ++ dc2' ++ dc3)) /\ RL h' (repeat e n) dc2' ds2 nsd2.
Proof.
  intros W Hds Hn Ld (dt & dcs & ->) Cd Ls (st & scs & -> & Hst) Cs RS RD ND Hd Hs Hdn Disj.
  simpl in Cd, Cs. subst dcs scs.
  destruct (RL_length _ _ _ _ _ RS) as [Lsc _]. destruct (RL_length _ _ _ _ _ RD) as [Ldc _].
  rewrite repeat_length in Lsc, Ldc.
  unfold copy_array.
  replace (Nat.eqb n 0) with false by (symmetry; apply Nat.eqb_neq; lia).
  replace (Nat.eqb d s) with false by (symmetry; apply Nat.eqb_neq; assumption).
  simpl orb. simpl andb. cbv iota. rewrite Ls, Ld.
  destruct st.
  - (* typed source: dst.set(src.subarray(..)) *)
    specialize (Hst eq_refl).
    assert (Fl : Forall (fun t => is_node t = false) (repeat e n)) by (apply Forall_repeat; assumption).
    assert (Hb : (Nat.leb (length sc1 + n) (length (sc1 ++ sc2 ++ sc3)) && Nat.leb (length dc1 + n) (length (dc1 ++ dc2 ++ dc3)))%bool = true).
    { apply andb_true_iff; split; apply Nat.leb_le; rewrite !app_length; lia. }
    rewrite Hb.
    replace (sublist (sc1 ++ sc2 ++ sc3) (length sc1) n) with sc2 by (rewrite <- Lsc; symmetry; apply sublist_mid).
    rewrite splice_mid by lia.
    set (h' := store h d (OArr dt (dc1 ++ sc2 ++ dc3))).
    destruct (RL_leaves h h' _ _ _ _ Fl RS) as [-> RS'].
    destruct (RL_leaves h h _ _ _ _ Fl RD) as [-> _].
    exists h', sc2. split; [reflexivity|]. split; [reflexivity|]. split.
    { apply wf_store; [assumption | eapply W; eauto]. }
    split; [intros; apply lookup_store_other; assumption|]. split; [apply lookup_store_same | assumption].
  - (* ordinary source array: element loop, forwards because the objects differ *)
    assert (HL : (if is_node e
                  then copy_loop (fun h i => match get_cell h d (length dc1 + i), get_cell h s (length sc1 + i) with
                                             | Some dv, Some sv => copy e h dv sv | _, _ => None end) (seq 0 n) h
                  else copy_loop (fun h i => match get_cell h s (length sc1 + i) with
                                             | Some sv => set_cell h d (length dc1 + i) sv | None => None end) (seq 0 n) h)
                 = cells_loop d s (repeat e n) (length dc1) (length sc1) h).
    { destruct (is_node e) eqn:Ee.
      - rewrite (copy_array_loop_node e d s (length dc1) (length sc1) n Ee 0 h). rewrite !Nat.add_0_r. reflexivity.
      - rewrite (copy_array_loop_leaf e d s (length dc1) (length sc1) n Ee 0 h). rewrite !Nat.add_0_r. reflexivity. }
    rewrite HL.
    apply (cells_loop_ok d s (repeat e n) (Forall_repeat _ _ _ (copy_ok_all e)) (OArr dt (dc1 ++ dc2 ++ dc3)) dc2 sc2 ds2 d02 nss2 nsd2
                         dc1 sc1 dc3 sc3 (OArr false (sc1 ++ sc2 ++ sc3)) h); auto.
Qed.

(* ------------------------------------------------------------------ append *)

(* append within capacity: the result is a longer window onto the SAME backing array *)
Theorem append_in_place e h a o l c src off n s' h' :
  0 < n -> l + n <= c -> internal_append e h (SHdr a o l c) src off n = Some (s', h') -> s' = SHdr a o (l + n) c.
Proof.
  intros Hpos Hfit. unfold internal_append. destruct (Z.eqb_spec n 0); [lia|]. cbv zeta. simpl slen.
  destruct (grow_slice e h (SHdr a o l c) (l + n)) as [[s1 h1]|] eqn:G; [|intro E; discriminate E].
  apply grow_in_place in G; [|assumption]. inversion G; subst.
  destruct (copy_array _ _ _ _ _ _ _ _); [|intro E; discriminate E]. intro E; inversion E; reflexivity.
Qed.

(* append beyond capacity, ANY element type: it succeeds; the result lives in a FRESH array of the coded capacity
   (>= needed) whose cells are [own copies of the old window] ++ [the appended values] ++ [zero values], every
   array/struct node of which is freshly allocated; nothing that existed before is modified. *)
Theorem append_realloc e h a o l c src off n w1 w2 w3 dsw nsw st sc1 sc2 sc3 dss nss :
  wf h -> 0 <= o -> 0 <= l -> 0 <= off -> 0 < n -> c < l + n ->
  lookup h a = Some (OArr (is_num e) (w1 ++ w2 ++ w3)) -> length w1 = Z.to_nat o -> length w2 = Z.to_nat l ->
  RL h (repeat e (Z.to_nat l)) w2 dsw nsw ->
  lookup h src = Some (OArr st (sc1 ++ sc2 ++ sc3)) -> (st = true -> is_node e = false) -> length sc1 = Z.to_nat off ->
  RL h (repeat e (Z.to_nat n)) sc2 dss nss ->
  let cap' := calc_new_cap (l + n) c in
  exists a' h' cells' dz nsn,
    internal_append e h (SHdr a o l c) src off n = Some (SHdr a' 0 (l + n) cap', h') /\
    l + n <= cap' /\ lookup h a' = None /\ wf h' /\
    (forall x, (x < hnext h)%nat -> lookup h' x = lookup h x) /\
    lookup h' a' = Some (OArr (is_num e) cells') /\
    RL h' (repeat e (Z.to_nat l) ++ repeat e (Z.to_nat n) ++ repeat e (Z.to_nat (cap' - l) - Z.to_nat n)) cells' (dsw ++ dss ++ dz) nsn /\
    NoDup nsn /\ (forall x, In x nsn -> (hnext h <= x)%nat).
Proof.
  intros W Ho Hl Hoff Hpos Hbig La L1 L2 RW Ls Hst Ls1 RS cap'.
  pose proof (calc_new_cap_ge (l + n) c) as Hcap. fold cap' in Hcap.
  destruct (grow_realloc_full e h a o l c (l + n) w1 w2 w3 dsw nsw W Hbig Ho Hl La L1 L2 RW)
    as (a' & h1 & old' & zs & dz & nso & nsz & G & W1 & Ha' & X1 & La' & RO & RZ & ND & BN).
  fold cap' in G, RZ.
  set (N := Z.to_nat n). set (K := Z.to_nat (cap' - l)) in *.
  assert (HNK : (N <= K)%nat) by (unfold N, K; lia).
  (* split the zero tail into the cells that receive the appended values and the rest *)
  replace K with (N + (K - N))%nat in RZ by lia. rewrite repeat_app in RZ.
  destruct (RL_split _ _ _ _ _ _ RZ) as (z1 & z2 & dz1 & dz2 & n1 & n2 & -> & -> & -> & RZ1 & RZ2).
  destruct (RL_length _ _ _ _ _ RO) as [LO _]. rewrite repeat_length in LO.
  assert (Hsrc : (src < hnext h)%nat) by (eapply W; eauto).
  assert (Hnss : forall x, In x nss -> (x < hnext h)%nat) by (eapply RL_nodes_lt; eauto).
  destruct (copy_array_fwd_ok e a' src N (OArr (is_num e) (old' ++ z1 ++ z2)) (OArr st (sc1 ++ sc2 ++ sc3))
              old' z1 z2 sc1 sc2 sc3 dss dz1 nss n1 h1) as (h2 & dc2' & CA & N2 & W2 & F2 & La2 & R2).
  - assumption.
  - lia.
  - unfold N. lia.
  - assumption.
  - eauto.
  - reflexivity.
  - rewrite X1 by assumption. assumption.
  - exists st, (sc1 ++ sc2 ++ sc3). split; [reflexivity | assumption].
  - reflexivity.
  - eapply RL_frame; [exact RS|]. intros x Hx. apply X1. apply Hnss. assumption.
  - assumption.
  - apply NoDup_app_r in ND. eapply NoDup_app_l; eauto.
  - intro Hin. assert (In a' (nso ++ n1 ++ n2)) by (apply in_or_app; right; apply in_or_app; left; assumption).
    apply BN in H. lia.
  - intro Hin. assert (In src (nso ++ n1 ++ n2)) by (apply in_or_app; right; apply in_or_app; left; assumption).
    apply BN in H. lia.
  - intro Hin. apply Hnss in Hin. lia.
  - intros x Hx Hx'. apply Hnss in Hx'.
    assert (In x (nso ++ n1 ++ n2)) by (apply in_or_app; right; apply in_or_app; left; assumption).
    apply BN in H. lia.
  - exists a', h2, (old' ++ dc2' ++ z2), dz2, (nso ++ n1 ++ n2).
    split.
    { unfold internal_append. destruct (Z.eqb_spec n 0); [lia|]. cbv zeta. simpl slen. rewrite G.
      rewrite Z.add_0_l. rewrite LO in CA. rewrite Ls1 in CA. fold N. rewrite CA. reflexivity. }
    split; [assumption|]. split; [apply wf_fresh; [assumption | lia]|]. split; [assumption|]. split.
    { intros x Hx. rewrite F2.
      - apply X1. assumption.
      - lia.
      - intro Hin. assert (In x (nso ++ n1 ++ n2)) by (apply in_or_app; right; apply in_or_app; left; assumption).
        apply BN in H. lia. }
    split; [exact La2|]. split.
    { replace (Z.to_nat (cap' - l) - Z.to_nat n)%nat with (K - N)%nat by reflexivity.
      apply RL_app; [|apply RL_app].
      - eapply RL_frame; [exact RO|]. intros x Hx. apply F2.
        + intro; subst. assert (In a' (nso ++ n1 ++ n2)) by (apply in_or_app; left; assumption). apply BN in H. lia.
        + intro Hin. eapply (NoDup_app_disj nso (n1 ++ n2)); eauto. apply in_or_app; left; assumption.
      - exact R2.
      - eapply RL_frame; [exact RZ2|]. intros x Hx. apply F2.
        + intro; subst. assert (In a' (nso ++ n1 ++ n2)) by (apply in_or_app; right; apply in_or_app; right; assumption).
          apply BN in H. lia.
        + intro Hin. apply NoDup_app_r in ND. eapply (NoDup_app_disj n1 n2); eauto. }
    split; [assumption|]. intros x Hx. apply BN in Hx. lia.
Qed.

(* ------------------------------------------------------------------ [N]T(slice) *)

(* the conversion copies exactly the first N elements of the slice WINDOW into the array (fix 978c5d8) *)
Theorem arr_from_slice_ok e h dst a o l c dc d0 nsd w1 w2 w3 dsw nsw :
  wf h -> dst <> a -> 0 <= o ->
  lookup h dst = Some (OArr (is_num e) dc) -> RL h (repeat e (length dc)) dc d0 nsd -> NoDup nsd ->
  lookup h a = Some (OArr (is_num e) (w1 ++ w2 ++ w3)) -> length w1 = Z.to_nat o -> length w2 = length dc ->
  RL h (repeat e (length dc)) w2 dsw nsw -> Z.of_nat (length dc) <= l ->
  ~ In dst nsd -> ~ In a nsd -> ~ In dst nsw -> (forall x, In x nsd -> ~ In x nsw) ->
  exists h', copy_arr_from_slice e h dst (SHdr a o l c) = Done h' /\
             R h' (TArr (length dc) e) (VLoc dst) (DNode dsw) (dst :: nsd) /\
             (forall x, x <> dst -> ~ In x nsd -> lookup h' x = lookup h x).
Proof.
  intros W Hne Ho Ld RD ND La L1 L2 RW Hlen Hd Ha Hdw Disj.
  unfold copy_arr_from_slice. rewrite Ld. simpl slen.
  destruct (Z.ltb_spec l (Z.of_nat (length dc))); [lia|].
  destruct (length dc) as [|n] eqn:En.
  - (* zero-length array: nothing is copied *)
    destruct dc; [|discriminate]. destruct w2; [|discriminate].
    inversion RD; subst. inversion RW; subst.
    exists h. split; [reflexivity|]. split; [|auto]. eapply R_arr; eauto; simpl; try constructor.
  - destruct (copy_array_fwd_ok e dst a (S n) (OArr (is_num e) dc) (OArr (is_num e) (w1 ++ w2 ++ w3))
                [] dc [] w1 w2 w3 dsw d0 nsw nsd h) as (h' & dc' & CA & N' & W' & F' & Ld' & R').
    + assumption.
    + assumption.
    + lia.
    + assumption.
    + eauto.
    + simpl. rewrite app_nil_r. reflexivity.
    + assumption.
    + exists (is_num e), (w1 ++ w2 ++ w3). split; [reflexivity|]. intro E. destruct e; simpl in *; try discriminate; reflexivity.
    + reflexivity.
    + assumption.
    + assumption.
    + assumption.
    + assumption.
    + assumption.
    + assumption.
    + assumption.
    + simpl in CA. rewrite L1 in CA. rewrite CA. exists h'. split; [reflexivity|].
      simpl in Ld'. rewrite app_nil_r in Ld'. split; [eapply R_arr; eauto | assumption].
Qed.

Theorem arr_from_slice_too_short e h dst s dt dc :
  lookup h dst = Some (OArr dt dc) -> slen s < Z.of_nat (length dc) -> copy_arr_from_slice e h dst s = Err.
Proof.
  intros Ld Hl. unfold copy_arr_from_slice. rewrite Ld. destruct (Z.ltb_spec (slen s) (Z.of_nat (length dc))); [reflexivity | lia].
Qed.
