(* C09 - lemmas.  (1) the memo tables of $assertType: for EVERY history of earlier assertions the answer equals
   the memo-free answer when the tables are keyed by the type id (induction over histories), and a witness history
   that refutes it for the key used today (type string);  (2) witnesses refuting identity / method-set correctness,
   one per defect class;  (3) exhaustive finite domains (vm_compute + forallb) for canonicalisation vs [identical]
   and $methodSet / $assertType vs Go's method sets, for the repaired variant. *)
From Coq Require Import List NArith Bool String Ascii DecimalString DecimalN Lia.
From Verif Require Import Gen.C09_Kinds Model.C09_Types Corr.C09_Eval.
Import ListNotations.
Local Open Scope N_scope.

(* ------------------------------------------------------------------ decimal rendering is injective *)
Lemma L_inj : forall a b, L a = L b -> a = b.
Proof.
  intros a b H. rewrite <- (string_of_list_ascii_of_string a), <- (string_of_list_ascii_of_string b).
  unfold L in H. now rewrite H.
Qed.

Lemma dec_inj : forall n m, dec n = dec m -> n = m.
Proof.
  intros n m H. apply L_inj in H.
  assert (E : NilEmpty.uint_of_string (NilEmpty.string_of_uint (N.to_uint n)) =
              NilEmpty.uint_of_string (NilEmpty.string_of_uint (N.to_uint m))) by now rewrite H.
  rewrite !NilEmpty.usu in E. injection E as E. now apply Unsigned.to_uint_inj.
Qed.

Lemma str_eqb_refl : forall a, str_eqb a a = true.
Proof. induction a; cbn; [reflexivity|]. now rewrite Ascii.eqb_refl. Qed.

Lemma str_eqb_eq : forall a b, str_eqb a b = true -> a = b.
Proof.
  induction a; destruct b; cbn; try discriminate; auto.
  intro H. apply andb_true_iff in H as [H1 H2]. apply Ascii.eqb_eq in H1. f_equal; auto.
Qed.

(* ------------------------------------------------------------------ $assertType's memo tables *)
(* the memo-free answer: what $assertType computes when both tables are empty *)
Definition pure_assert (fl : flags) (s : st) (c t : N) : bool * string := fst (assert_impl fl s c t memo0).

Definition run_hist (fl : flags) (s : st) (hist : list (N * N)) (m : memo) : memo :=
  fold_left (fun m0 ct => snd (assert_impl fl s (fst ct) (snd ct) m0)) hist m.

Definition memo_inv (fl : flags) (s : st) (m : memo) : Prop :=
  forall c t, fst (assert_impl fl s c t m) = pure_assert fl s c t.

Lemma memo_inv0 : forall fl s, memo_inv fl s memo0.
Proof. intros fl s c t. reflexivity. Qed.

Lemma lookup_memo_cons : forall A t k t0 k0 (v : A) r,
  lookup_memo t k ((t0, k0, v) :: r) = if (t =? t0) && str_eqb k k0 then Some v else lookup_memo t k r.
Proof. reflexivity. Qed.

Definition fresh (fl : flags) (s : st) (c t : N) : bool * string :=
  match find (fun tm => negb (existsb (fun vm => meth_match vm tm) (mset_impl fl s c))) (iface_methods s t) with
  | Some tm => (false, rm_name tm)
  | None => (true, ""%string)
  end.

Definition is_if (s : st) (t : N) : bool := r_kind (get s t) =? kindInterface.

Lemma assert_fst : forall fl s c t m,
  fst (assert_impl fl s c t m) =
  if negb (is_if s t) then (c =? t, ""%string) else
  match lookup_memo t (tkey fl s c) (m_impl m) with
  | Some ok => (ok, if ok then ""%string else match lookup_memo t (tkey fl s c) (m_miss m) with Some x => x | None => ""%string end)
  | None => fresh fl s c t
  end.
Proof.
  intros. unfold assert_impl, fresh, is_if.
  destruct (negb (r_kind (get s t) =? kindInterface)); [reflexivity|].
  destruct (lookup_memo t (tkey fl s c) (m_impl m)); [reflexivity|].
  destruct (find _ (iface_methods s t)); reflexivity.
Qed.

Lemma assert_snd : forall fl s c t m,
  snd (assert_impl fl s c t m) =
  if negb (is_if s t) then m else
  match lookup_memo t (tkey fl s c) (m_impl m) with
  | Some _ => m
  | None => if fst (fresh fl s c t)
            then Build_memo ((t, tkey fl s c, true) :: m_impl m) (m_miss m)
            else Build_memo ((t, tkey fl s c, false) :: m_impl m) ((t, tkey fl s c, snd (fresh fl s c t)) :: m_miss m)
  end.
Proof.
  intros. unfold assert_impl, fresh, is_if.
  destruct (negb (r_kind (get s t) =? kindInterface)); [reflexivity|].
  destruct (lookup_memo t (tkey fl s c) (m_impl m)); [reflexivity|].
  destruct (find _ (iface_methods s t)); reflexivity.
Qed.

Lemma pure_fresh : forall fl s c t, is_if s t = true -> pure_assert fl s c t = fresh fl s c t.
Proof. intros. unfold pure_assert. rewrite assert_fst, H. reflexivity. Qed.

Lemma fresh_emp : forall fl s c t, fst (fresh fl s c t) = true -> snd (fresh fl s c t) = ""%string.
Proof. intros fl s c t. unfold fresh. destruct (find _ _); cbn; auto; discriminate. Qed.

Lemma memo_step : forall fl s,
  (forall c c', tkey fl s c = tkey fl s c' -> c = c') ->
  forall m c0 t0, memo_inv fl s m -> memo_inv fl s (snd (assert_impl fl s c0 t0 m)).
Proof.
  intros fl s Hinj m c0 t0 HP.
  rewrite assert_snd.
  destruct (negb (is_if s t0)) eqn:Ek0; [exact HP|].
  destruct (lookup_memo t0 (tkey fl s c0) (m_impl m)) eqn:El0; [exact HP|].
  apply negb_false_iff in Ek0.
  intros c t. specialize (HP c t). rewrite assert_fst in *.
  destruct (negb (is_if s t)) eqn:Ek; [exact HP|].
  pose proof (surjective_pairing (fresh fl s c0 t0)) as Hsh. pose proof (fresh_emp fl s c0 t0) as Hemp.
  destruct (fst (fresh fl s c0 t0)) eqn:Ef; cbn [m_impl m_miss]; rewrite !lookup_memo_cons;
    destruct ((t =? t0) && str_eqb (tkey fl s c) (tkey fl s c0)) eqn:Ec; try exact HP;
    apply andb_true_iff in Ec as [E1 E2]; apply N.eqb_eq in E1; apply str_eqb_eq in E2; apply Hinj in E2; subst;
    rewrite (pure_fresh fl s c0 t0 Ek0), Hsh.
  - rewrite Hemp by reflexivity. reflexivity.
  - reflexivity.
Qed.

(* For every history of earlier assertions the answer is the memo-free answer - provided the memo key
   identifies the dynamic type.  That proviso is exactly what fails today (key = type string). *)
Theorem assert_history : forall fl s,
  (forall c c', tkey fl s c = tkey fl s c' -> c = c') ->
  forall hist c t, fst (assert_impl fl s c t (run_hist fl s hist memo0)) = pure_assert fl s c t.
Proof.
  intros fl s Hinj hist.
  assert (H : forall m, memo_inv fl s m -> memo_inv fl s (run_hist fl s hist m)).
  { induction hist as [|[c0 t0] r IH]; intros m Hm; cbn; [exact Hm|]. apply IH. now apply memo_step. }
  exact (H memo0 (memo_inv0 fl s)).
Qed.

Lemma tkey_inj_repaired : forall fl s, fx_memo fl = true -> forall c c', tkey fl s c = tkey fl s c' -> c = c'.
Proof. intros fl s H c c' E. unfold tkey in E. rewrite H in E. now apply dec_inj. Qed.

Corollary assert_history_repaired : forall fl s, fx_memo fl = true ->
  forall hist c t, fst (assert_impl fl s c t (run_hist fl s hist memo0)) = pure_assert fl s c t.
Proof. intros fl s H. apply assert_history. now apply tkey_inj_repaired. Qed.
Definition wit_emb : family :=
  {| f_decls := [Build_decl "main.T"%string "main"%string (T (LStruct ""%string []) []) []];
  f_univ := [T (LStruct ""%string [Build_fhdr "T"%string true true ""%string]) [T (LNamed 0) []];
    T (LStruct ""%string [Build_fhdr "T"%string false true ""%string]) [T (LNamed 0) []]];
  f_probes := [PIdent 0 1] |}.

Definition wit_pkg : family :=
  {| f_decls := [];
  f_univ := [T (LStruct "main"%string [Build_fhdr "a"%string false false ""%string]) [T (LBasic 1) []];
    T (LStruct "verifprog/q"%string [Build_fhdr "a"%string false false ""%string]) [T (LBasic 1) []]];
  f_probes := [PIdent 0 1] |}.

Definition wit_tag : family :=
  {| f_decls := [];
  f_univ := [T (LStruct ""%string [Build_fhdr "A"%string false true "t"%string; Build_fhdr "B"%string false true ""%string]) [T (LBasic 1) []; T (LBasic 1) []];
    T (LStruct ""%string [Build_fhdr "A"%string false true "t$B,1,"%string]) [T (LBasic 1) []];
    T (LStruct ""%string [Build_fhdr "A"%string false true "t,0$B,1,"%string]) [T (LBasic 1) []]];
  f_probes := [PIdent 0 1; PIdent 0 2] |}.

Definition wit_memo : family :=
  {| f_decls := [Build_decl "main.L1"%string "main"%string (T (LStruct ""%string []) []) [Build_meth "M"%string ""%string (T (LFunc 0 false) []) false];
    Build_decl "main.L"%string "main"%string (T (LStruct ""%string [Build_fhdr "L1"%string true true ""%string]) [T (LNamed 0) []]) [];
    Build_decl "main.L"%string "main"%string (T (LStruct "main"%string [Build_fhdr "x"%string false false ""%string]) [T (LBasic 1) []]) []];
  f_univ := [T (LNamed 1) [];
    T (LNamed 2) [];
    T (LIface [Build_mhdr "M"%string ""%string]) [T (LFunc 0 false) []]];
  f_probes := [PAssert 0 2; PAssert 1 2] |}.

Definition wit_ambig : family :=
  {| f_decls := [Build_decl "main.A"%string "main"%string (T (LStruct ""%string []) []) [Build_meth "M"%string ""%string (T (LFunc 0 false) []) false];
    Build_decl "main.B"%string "main"%string (T (LStruct ""%string []) []) [Build_meth "M"%string ""%string (T (LFunc 0 false) []) false];
    Build_decl "main.S"%string "main"%string (T (LStruct ""%string [Build_fhdr "A"%string true true ""%string; Build_fhdr "B"%string true true ""%string]) [T (LNamed 0) []; T (LNamed 1) []]) []];
  f_univ := [T (LNamed 2) [];
    T (LIface [Build_mhdr "M"%string ""%string]) [T (LFunc 0 false) []]];
  f_probes := [PAssert 0 1] |}.

Definition wit_field : family :=
  {| f_decls := [Build_decl "main.A"%string "main"%string (T (LStruct ""%string []) []) [Build_meth "M"%string ""%string (T (LFunc 0 false) []) false];
    Build_decl "main.FS"%string "main"%string (T (LStruct ""%string [Build_fhdr "A"%string true true ""%string; Build_fhdr "M"%string false true ""%string]) [T (LNamed 0) []; T (LBasic 1) []]) []];
  f_univ := [T (LNamed 1) [];
    T (LIface [Build_mhdr "M"%string ""%string]) [T (LFunc 0 false) []]];
  f_probes := [PAssert 0 1] |}.

Definition wit_mpkg : family :=
  {| f_decls := [Build_decl "q.Q"%string "verifprog/q"%string (T (LStruct ""%string []) []) [Build_meth "m"%string "verifprog/q"%string (T (LFunc 0 false) []) false];
    Build_decl "main.A"%string "main"%string (T (LStruct ""%string []) []) [Build_meth "m"%string "main"%string (T (LFunc 0 false) []) false];
    Build_decl "main.B"%string "main"%string (T (LStruct ""%string [Build_fhdr "A"%string true true ""%string]) [T (LNamed 1) []]) [];
    Build_decl "main.S"%string "main"%string (T (LStruct ""%string [Build_fhdr "Q"%string true true ""%string; Build_fhdr "B"%string true true ""%string]) [T (LNamed 0) []; T (LNamed 2) []]) []];
  f_univ := [T (LNamed 3) [];
    T (LIface [Build_mhdr "m"%string "main"%string]) [T (LFunc 0 false) []]];
  f_probes := [PAssert 0 1] |}.

Definition wit_pshadow : family :=
  {| f_decls := [Build_decl "main.A"%string "main"%string (T (LStruct ""%string []) []) [Build_meth "M"%string ""%string (T (LFunc 0 false) []) true];
    Build_decl "main.B"%string "main"%string (T (LStruct ""%string []) []) [Build_meth "M"%string ""%string (T (LFunc 0 false) []) false];
    Build_decl "main.C"%string "main"%string (T (LStruct ""%string [Build_fhdr "B"%string true true ""%string]) [T (LNamed 1) []]) [];
    Build_decl "main.S"%string "main"%string (T (LStruct ""%string [Build_fhdr "A"%string true true ""%string; Build_fhdr "C"%string true true ""%string]) [T (LNamed 0) []; T (LNamed 2) []]) []];
  f_univ := [T (LNamed 3) [];
    T (LIface [Build_mhdr "M"%string ""%string]) [T (LFunc 0 false) []]];
  f_probes := [PAssert 0 1] |}.

Definition wit_diamond : family :=
  {| f_decls := [Build_decl "main.A"%string "main"%string (T (LStruct ""%string []) []) [Build_meth "M"%string ""%string (T (LFunc 0 false) []) false];
    Build_decl "main.C"%string "main"%string (T (LStruct ""%string [Build_fhdr "A"%string true true ""%string]) [T (LNamed 0) []]) [];
    Build_decl "main.D"%string "main"%string (T (LStruct ""%string [Build_fhdr "A"%string true true ""%string]) [T (LNamed 0) []]) [];
    Build_decl "main.CD"%string "main"%string (T (LStruct ""%string [Build_fhdr "C"%string true true ""%string; Build_fhdr "D"%string true true ""%string]) [T (LNamed 1) []; T (LNamed 2) []]) []];
  f_univ := [T (LNamed 3) [];
    T (LIface [Build_mhdr "M"%string ""%string]) [T (LFunc 0 false) []]];
  f_probes := [PAssert 0 1] |}.

Definition wit_ifdup : family :=
  {| f_decls := [Build_decl "main.I"%string "main"%string (T (LIface [Build_mhdr "M"%string ""%string]) [T (LFunc 0 false) []]) [];
    Build_decl "main.S"%string "main"%string (T (LStruct ""%string [Build_fhdr "I"%string true true ""%string]) [T (LNamed 0) []]) []];
  f_univ := [T (LNamed 1) [];
    T (LNamed 0) []];
  f_probes := [PAssert 0 1] |}.

(* ------------------------------------------------------------------ refutations: one witness per defect class *)
Definition differs (fl : flags) (f : family) : bool :=
  match diff_from 0 (run_impl fl f) (run_spec f) with [] => false | _ => true end.
(* everything repaired except one class *)
Definition only_emb := Build_flags false true true true true true true true true true.
Definition only_pkg := Build_flags true false true true true true true true true true.
Definition only_tag := Build_flags true true false true true true true true true true.
Definition only_memo := Build_flags true true true false true true true true true true.
Definition only_ambig := Build_flags true true true true false true true true true true.
Definition only_field := Build_flags true true true true true false true true true true.
Definition only_mpkg := Build_flags true true true true true true false true true true.
Definition only_pshadow := Build_flags true true true true true true true false true true.
Definition only_diamond := Build_flags true true true true true true true true false true.
Definition only_ifdup := Build_flags true true true true true true true true true false.
(* the variant after the prepared patches: struct key (embedded, package, tag), memo keys, same-depth ambiguity *)
Definition flags_patched := flags_current.

Lemma witnesses_refute_asis :
  map (differs flags_asis) [wit_emb; wit_pkg; wit_tag; wit_memo; wit_ambig; wit_field; wit_mpkg; wit_pshadow; wit_diamond]
  = [true; true; true; true; true; true; true; true; true].
Proof. vm_compute. reflexivity. Qed.

Lemma witnesses_refute_single_class :
  [differs only_emb wit_emb; differs only_pkg wit_pkg; differs only_tag wit_tag; differs only_memo wit_memo;
   differs only_ambig wit_ambig; differs only_field wit_field; differs only_mpkg wit_mpkg;
   differs only_pshadow wit_pshadow; differs only_diamond wit_diamond; differs only_ifdup wit_ifdup]
  = [true; true; true; true; true; true; true; true; true; true].
Proof. vm_compute. reflexivity. Qed.

Lemma witnesses_hold_repaired :
  map (differs flags_fixed) [wit_emb; wit_pkg; wit_tag; wit_memo; wit_ambig; wit_field; wit_mpkg; wit_pshadow; wit_diamond; wit_ifdup]
  = [false; false; false; false; false; false; false; false; false; false].
Proof. vm_compute. reflexivity. Qed.

Lemma witnesses_after_patches :
  map (differs flags_patched) [wit_emb; wit_pkg; wit_tag; wit_memo; wit_ambig; wit_ifdup; wit_field; wit_mpkg; wit_pshadow; wit_diamond]
  = [false; false; false; false; false; false; true; true; true; true].
Proof. vm_compute. reflexivity. Qed.

(* ------------------------------------------------------------------ exhaustive finite domains *)
Fixpoint sublists {A} (l : list A) : list (list A) :=
  match l with [] => [[]] | x :: r => let s := sublists r in s ++ map (cons x) s end.
Definition tuples_le2 {A} (l : list A) : list (list A) :=
  [[]] ++ map (fun x => [x]) l ++ flat_map (fun x => map (fun y => [x; y]) l) l.

(* --- canonicalisation: two declarations that PRINT ALIKE (main.L twice), leaves int/string/L/L', every type of
   constructor depth 1 over them (pointers, slices, arrays of 2 lengths, 3 channel directions, maps, functions with
   <= 2 parameters and <= 1 result, structs with <= 2 fields over names A/a x embedded x tags ""/"$"/colliding x
   package main/q, interfaces with <= 2 of the methods M, m@main, m@q) plus a layer of depth 2. *)
Definition dom_env : list decl :=
  [Build_decl "main.L" "main" (T (LStruct "" []) []) []; Build_decl "main.L" "main" (T (LStruct "" []) []) []].
Definition leaves : list ty := [T (LBasic 1) []; T (LBasic 16) []; T (LNamed 0) []; T (LNamed 1) []].
Definition fhdrs : list fhdr :=
  flat_map (fun n => flat_map (fun e => map (fun tg => Build_fhdr (fst n) e (snd n) tg) [""%string; "$"%string; "t,0$a,1,,0"%string]) [false; true])
           [("A"%string, true); ("a"%string, false)].
Definition struct_of (fs : list (fhdr * ty)) : list ty :=
  if forallb (fun x => fh_exp (fst x)) fs then [T (LStruct "" (map fst fs)) (map snd fs)]
  else [T (LStruct "main" (map fst fs)) (map snd fs); T (LStruct "verifprog/q" (map fst fs)) (map snd fs)].
Definition sig0 : ty := T (LFunc 0 false) [].
Definition sig1 : ty := T (LFunc 0 false) [T (LBasic 1) []].
Definition imeths : list (mhdr * ty) :=
  [(Build_mhdr "M" "", sig0); (Build_mhdr "M" "", sig1); (Build_mhdr "m" "main", sig0); (Build_mhdr "m" "verifprog/q", sig0)].
Definition depth1 (lv : list ty) : list ty :=
  map (fun x => T LPtr [x]) lv ++ map (fun x => T LSlice [x]) lv ++
  map (fun x => T (LArray 1) [x]) lv ++ map (fun x => T (LArray 2) [x]) lv ++
  flat_map (fun x => [T (LChan false false) [x]; T (LChan true false) [x]; T (LChan false true) [x]]) lv ++
  flat_map (fun k => map (fun e => T LMap [k; e]) lv) lv ++
  flat_map (fun ps => map (fun rs => T (LFunc (N.of_nat (List.length ps)) false) (ps ++ rs)) ([[]] ++ map (fun x => [x]) lv)) (tuples_le2 lv) ++
  flat_map struct_of (tuples_le2 (flat_map (fun h => map (fun t => (h, t)) (firstn 1 (skipn 2 lv))) fhdrs)) ++
  map (fun ms => T (LIface (map fst ms)) (map snd ms)) (tuples_le2 imeths).
Definition dom1 : list ty := depth1 leaves.
(* depth 2: wrappers around a sample of depth-1 types (every 7th), incl. variadic functions over slices *)
Fixpoint every (k n : nat) {A} (l : list A) : list A :=
  match l with [] => [] | x :: r => match n with O => x :: every k k r | S n' => every k n' r end end.
Definition dom2 : list ty :=
  let smp := every 6 0 dom1 in
  map (fun x => T LPtr [x]) smp ++ map (fun x => T LSlice [x]) smp ++
  map (fun x => T (LStruct "" [Build_fhdr "F" false true ""]) [x]) smp ++
  map (fun x => T (LFunc 1 true) [T LSlice [x]]) smp ++ map (fun x => T (LFunc 1 false) [T LSlice [x]]) smp.
Definition dom : list ty := leaves ++ dom1 ++ dom2.

Definition canon_agree (fl : flags) (env : list decl) (d : list ty) : bool :=
  let ids := fst (canon_list fl d (load_env fl env)) in
  let z := zip ids d in
  forallb (fun x => forallb (fun y => Bool.eqb (fst x =? fst y) (identical (snd x) (snd y))) z) z.

Lemma canon_agree_dom : canon_agree flags_fixed dom_env dom = true /\ canon_agree flags_fixed dom_env (rev dom) = true /\
                        canon_agree flags_patched dom_env dom = true.
Proof. vm_compute. repeat split; reflexivity. Qed.

Lemma dom_size : (500 <=? N.of_nat (List.length dom)) = true.
Proof. vm_compute. reflexivity. Qed.

Lemma forallb_zip_lift : forall (fl : flags) env d, canon_agree fl env d = true ->
  forall x y, In x (zip (fst (canon_list fl d (load_env fl env))) d) -> In y (zip (fst (canon_list fl d (load_env fl env))) d) ->
  (fst x = fst y <-> identical (snd x) (snd y) = true).
Proof.
  intros fl env d H x y Hx Hy. unfold canon_agree in H.
  rewrite forallb_forall in H. specialize (H x Hx). rewrite forallb_forall in H. specialize (H y Hy).
  apply Bool.eqb_prop in H. rewrite <- H. symmetry. apply N.eqb_eq.
Qed.

(* --- method sets and assertions: four struct types T0..T3; T1 embeds a subset of {T0, *T0}, T2 of {T0,*T0,T1,*T1},
   T3 of {T0,*T0,T1,*T1,T2,*T2} (never both T and *T); T0 and T1 have no method / M with value receiver / M with pointer
   receiver, T2 no method / M value; T2 optionally has a FIELD named M.  For each family the method sets of T2, *T2, T3,
   *T3 (with owners) and their assertion to interface{M()} are compared. *)
Definition mM (p : bool) : meth := Build_meth "M" "" sig0 p.
Definition emb_opts (k : nat) : list (list (fhdr * ty)) :=
  let names := ["T0"%string; "T1"%string; "T2"%string] in
  let one := fun i => [[]; [(Build_fhdr (nth i names ""%string) true true "", T (LNamed (N.of_nat i)) [])];
                        [(Build_fhdr (nth i names ""%string) true true "", T LPtr [T (LNamed (N.of_nat i)) []])]] in
  fold_left (fun acc i => flat_map (fun a => map (fun o => a ++ o) (one i)) acc) (seq 0 k) [[]].
Definition mk_struct (fs : list (fhdr * ty)) : ty := T (LStruct "" (map fst fs)) (map snd fs).
Definition meth_opts3 : list (list meth) := [[]; [mM false]; [mM true]].
Definition fam_of (e1 e2 e3 : list (fhdr * ty)) (m0 m1 m2 : list meth) (fld : bool) : family :=
  Build_family
    [Build_decl "main.T0" "main" (mk_struct []) m0;
     Build_decl "main.T1" "main" (mk_struct e1) m1;
     Build_decl "main.T2" "main" (mk_struct (e2 ++ if fld then [(Build_fhdr "M" false true "", T (LBasic 1) [])] else [])) m2;
     Build_decl "main.T3" "main" (mk_struct e3) []]
    [T (LNamed 2) []; T LPtr [T (LNamed 2) []]; T (LNamed 3) []; T LPtr [T (LNamed 3) []];
     T (LIface [Build_mhdr "M" ""]) [sig0]]
    [PMset 0; PMset 1; PMset 2; PMset 3; PAssert 0 4; PAssert 1 4; PAssert 2 4; PAssert 3 4; PAssert 2 4].
Definition mset_fams : list family :=
  flat_map (fun e1 => flat_map (fun e2 => flat_map (fun e3 =>
  flat_map (fun m0 => flat_map (fun m1 => flat_map (fun m2 =>
    (if match m2 with [] => true | _ => false end then [fam_of e1 e2 e3 m0 m1 m2 true] else []) ++ [fam_of e1 e2 e3 m0 m1 m2 false])
    [[]; [mM false]]) meth_opts3) meth_opts3) (emb_opts 3)) (emb_opts 2)) (emb_opts 1).

Definition fam_agrees (fl : flags) (f : family) : bool :=
  match diff_from 0 (run_impl fl f) (run_spec f) with [] => true | _ => false end.

Lemma mset_fams_agree : forallb (fam_agrees flags_fixed) mset_fams = true.
Proof. vm_compute. reflexivity. Qed.

Lemma mset_fams_size : (N.of_nat (List.length mset_fams) = 19683)%N.
Proof. vm_compute. reflexivity. Qed.

Lemma mset_fams_lift : forall f, In f mset_fams -> diff_from 0 (run_impl flags_fixed f) (run_spec f) = [].
Proof.
  intros f H. pose proof mset_fams_agree as A. rewrite forallb_forall in A. specialize (A f H).
  unfold fam_agrees in A. destruct (diff_from 0 (run_impl flags_fixed f) (run_spec f)); [reflexivity|discriminate].
Qed.

(* the memo defect as a statement about histories *)
Lemma memo_history_refuted :
  let s := snd (canon_list flags_asis (f_univ wit_memo) (load_env flags_asis (f_decls wit_memo))) in
  let ids := fst (canon_list flags_asis (f_univ wit_memo) (load_env flags_asis (f_decls wit_memo))) in
  let c1 := nthN 0 ids 0 in let c2 := nthN 1 ids 0 in let t := nthN 2 ids 0 in
  c1 <> c2 /\
  fst (assert_impl flags_asis s c2 t (run_hist flags_asis s [(c1, t)] memo0)) <> pure_assert flags_asis s c2 t.
Proof. vm_compute. split; discriminate. Qed.

(* identity refutations, stated on canon directly *)
Definition canon2 (fl : flags) (env : list decl) (a b : ty) : N * N :=
  let '(i, s1) := canon fl a (load_env fl env) in let '(j, _) := canon fl b s1 in (i, j).

Lemma canon_refuted_emb : let a := nthN 0 (f_univ wit_emb) (T (LBasic 0) []) in let b := nthN 1 (f_univ wit_emb) (T (LBasic 0) []) in
  fst (canon2 flags_asis (f_decls wit_emb) a b) = snd (canon2 flags_asis (f_decls wit_emb) a b) /\ identical a b = false.
Proof. vm_compute. split; reflexivity. Qed.
Lemma canon_refuted_pkg : let a := nthN 0 (f_univ wit_pkg) (T (LBasic 0) []) in let b := nthN 1 (f_univ wit_pkg) (T (LBasic 0) []) in
  fst (canon2 flags_asis [] a b) = snd (canon2 flags_asis [] a b) /\ identical a b = false.
Proof. vm_compute. split; reflexivity. Qed.
Lemma canon_refuted_tag : let a := nthN 0 (f_univ wit_tag) (T (LBasic 0) []) in let b := nthN 1 (f_univ wit_tag) (T (LBasic 0) []) in
  fst (canon2 flags_asis [] a b) = snd (canon2 flags_asis [] a b) /\ identical a b = false.
Proof. vm_compute. split; reflexivity. Qed.

(* interface equality looks at the dynamic type first *)
Lemma iface_eq_types_differ : forall s c c' a b, c <> c' -> iface_eq_impl s (VIface c a) (VIface c' b) = Some false.
Proof. intros. cbn. apply N.eqb_neq in H. now rewrite H. Qed.
Lemma iface_eq_uncomparable : forall s c a b, r_comparable (get s c) = false -> iface_eq_impl s (VIface c a) (VIface c b) = None.
Proof. intros. cbn. rewrite N.eqb_refl, H. reflexivity. Qed.
Lemma iface_eq_nil : forall s, iface_eq_impl s VNil VNil = Some true /\ forall c a, iface_eq_impl s VNil (VIface c a) = Some false.
Proof. intros. split; reflexivity. Qed.

(* ------------------------------------------------------------------ the CURRENT code (flags_current) *)
(* Families outside the four recorded $methodSet classes, as computable predicates on the Go side:
   no same-depth diamond and no pointer-receiver method reached without indirection along the embedding levels of
   any type of the universe; no field named like a method; no method name used with two different packages. *)
Definition blockers_free (env : list decl) (cur : list sent) : bool :=
  forallb (fun e => match se_ty e with
                    | T (LNamed d) _ => forallb (fun m => negb (me_ptr m && negb (se_ind e))) (d_meths (nthN d env decl0))
                    | _ => true end) cur.
Fixpoint nodup_ty (l : list ty) : bool :=
  match l with [] => true | x :: r => negb (existsb (identical x) r) && nodup_ty r end.
Fixpoint levels_clean (env : list decl) (fuel : nat) (cur : list sent) (seen : list ty) : bool :=
  match fuel with
  | O => true
  | S f =>
      let cur' := filter (fun e => negb (existsb (identical (se_ty e)) seen)) cur in
      match cur' with
      | [] => true
      | _ => nodup_ty (map se_ty cur') && blockers_free env cur' &&
             levels_clean env f (flat_map fst (map (spec_entry env) cur')) (map se_ty cur' ++ seen)
      end
  end.
Definition type_clean (env : list decl) (t : ty) : bool :=
  match t with
  | T LPtr [x] => levels_clean env (S (S (List.length env))) [Build_sent x true] []
  | _ => levels_clean env (S (S (List.length env))) [Build_sent t false] []
  end.
Definition meth_names (env : list decl) : list (string * string) :=
  flat_map (fun d => map (fun m => (me_name m, me_pkg m)) (d_meths d) ++
                     match d_under d with T (LIface ms) _ => map (fun m => (mh_name m, mh_pkg m)) ms | _ => [] end) env.
Definition fields_clean (env : list decl) : bool :=
  forallb (fun d => match d_under d with
                    | T (LStruct _ fs) _ => forallb (fun f => negb (existsb (fun n => String.eqb (fst n) (fh_name f)) (meth_names env))) fs
                    | _ => true end) env.
Definition mpkg_clean (env : list decl) : bool :=
  forallb (fun a => forallb (fun b => negb (String.eqb (fst a) (fst b)) || String.eqb (snd a) (snd b)) (meth_names env)) (meth_names env).
Definition fam_clean (f : family) : bool :=
  fields_clean (f_decls f) && mpkg_clean (f_decls f) && forallb (type_clean (f_decls f)) (f_univ f).

Lemma mset_fams_current_agree : forallb (fun f => implb (fam_clean f) (fam_agrees flags_current f)) mset_fams = true.
Proof. vm_compute. reflexivity. Qed.

Lemma mset_fams_current_lift : forall f, In f mset_fams -> fam_clean f = true ->
  diff_from 0 (run_impl flags_current f) (run_spec f) = [].
Proof.
  intros f H Hc. pose proof mset_fams_current_agree as A. rewrite forallb_forall in A. specialize (A f H).
  rewrite Hc in A. cbn in A. unfold fam_agrees in A.
  destruct (diff_from 0 (run_impl flags_current f) (run_spec f)); [reflexivity|discriminate].
Qed.

Lemma clean_count : (N.of_nat (List.length (filter fam_clean mset_fams)) = 8725)%N.
Proof. vm_compute. reflexivity. Qed.

Lemma assert_history_current : forall s hist c t,
  fst (assert_impl flags_current s c t (run_hist flags_current s hist memo0)) = pure_assert flags_current s c t.
Proof. intros. apply assert_history_repaired. reflexivity. Qed.

Lemma remaining_classes_refuted :
  map (differs flags_current) [wit_field; wit_mpkg; wit_pshadow; wit_diamond] = [true; true; true; true] /\
  map fam_clean [wit_field; wit_mpkg; wit_pshadow; wit_diamond] = [false; false; false; false] /\
  map (differs flags_current) [wit_emb; wit_pkg; wit_tag; wit_memo; wit_ambig; wit_ifdup] = [false; false; false; false; false; false].
Proof. vm_compute. repeat split; reflexivity. Qed.

Lemma canon_agree_current : canon_agree flags_current dom_env dom = true /\ canon_agree flags_current dom_env (rev dom) = true.
Proof. vm_compute. split; reflexivity. Qed.
