(* C06 phase 4 — $div64, part a: the building blocks of the two loops (pairs of 32-bit words as numbers,
   the one-bit shifts of the divisor, the lexicographic comparisons, one step of the quotient loop). *)
From Coq Require Import ZArith Znumtheory Bool List Lia ZifyBool.
From Verif Require Import Base.C06_JsNum Model.C06_Prelude64 Model.C06_Spec Gen.C06_Tables Model.C06_Templates
  Proofs.C06_Arith Proofs.C06_Fix Proofs.C06_Ops64 Proofs.C06_Mul64 Proofs.C06_Bits64.
Import ListNotations.
Local Open Scope Z_scope.
Ltac Zify.zify_post_hook ::= Z.div_mod_to_equations.

Definition val2 (h l : Z) : Z := h * two32 + l.
Definition two64 : Z := 18446744073709551616.

(* ---- 32-bit primitives, modulo 2^32 ---------------------------------------------------------- *)
Lemma shl32_mod : forall a n, 0 <= n < 32 -> shl32 a n mod two32 = (a * 2 ^ n) mod two32.
Proof.
  intros a n Hn. unfold shl32. rewrite cnt_small by assumption. rewrite to_int32_mod.
  rewrite Z.mul_mod by (unfold two32; lia). rewrite to_int32_mod. rewrite <- Z.mul_mod by (unfold two32; lia). reflexivity.
Qed.
Lemma ushr32_div : forall a n, 0 <= n < 32 -> ushr32 a n = (a mod two32) / 2 ^ n.
Proof. intros a n Hn. unfold ushr32, to_uint32. rewrite cnt_small by assumption. apply Z.shiftr_div_pow2; lia. Qed.
Lemma to_uint32_or32 : forall a b, to_uint32 (or32 a b) = Z.lor (a mod two32) (b mod two32).
Proof. intros a b. unfold to_uint32. rewrite or32_mod. rewrite two32_eq. apply lor_mod; lia. Qed.
Lemma or32_range : forall a b, - two31 <= or32 a b < two31.
Proof.
  intros a b. unfold or32. pose proof (to_int32_range a). pose proof (to_int32_range b).
  pose proof (lor_srange 32 (to_int32 a) (to_int32 b) ltac:(lia)) as S. change (2 ^ (32 - 1)) with two31 in S. apply S; assumption.
Qed.
Lemma lor_even_bit : forall a b, 0 <= b < 2 -> Z.lor (2 * a) b = 2 * a + b.
Proof. intros a b Hb. replace (2 * a) with (a * 2 ^ 1) by lia. apply lor_shift_add; lia. Qed.
Lemma lor_top_bit : forall a b, 0 <= b < 2147483648 -> Z.lor (a * 2147483648) b = a * 2147483648 + b.
Proof. intros a b Hb. change 2147483648 with (2 ^ 31). apply lor_shift_add; lia. Qed.

(* ---- y <<= 1 (first loop) ------------------------------------------------------------------- *)
Lemma shl1_pair : forall yh yl, 0 <= yh < two31 -> 0 <= yl < two32 ->
  let yh' := to_uint32 (or32 (shl32 yh 1) (ushr32 yl 31)) in
  let yl' := to_uint32 (shl32 yl 1) in
  val2 yh' yl' = 2 * val2 yh yl /\ 0 <= yh' < two32 /\ 0 <= yl' < two32.
Proof.
  intros yh yl Hh Hl yh' yl'.
  assert (E1 : yl' = (2 * yl) mod two32).
  { unfold yl', to_uint32. rewrite shl32_mod by lia. f_equal. lia. }
  assert (E2 : yh' = 2 * yh + yl / 2147483648).
  { unfold yh'. rewrite to_uint32_or32. rewrite shl32_mod by lia. rewrite ushr32_div by lia.
    change (2 ^ 31) with 2147483648. change (2 ^ 1) with 2.
    rewrite (Z.mod_small yl) by assumption.
    rewrite (Z.mod_small (yh * 2)) by (unfold two31, two32 in *; lia).
    rewrite (Z.mod_small (yl / 2147483648)) by (unfold two31, two32 in *; lia).
    replace (yh * 2) with (2 * yh) by lia. apply lor_even_bit. unfold two32 in *; lia. }
  rewrite E1, E2. unfold val2, two31, two32 in *. lia.
Qed.

(* ---- y >>>= 1 (second loop) ----------------------------------------------------------------- *)
Lemma shr1_pair : forall yh yl, 0 <= yh < two32 -> 0 <= yl < two32 ->
  let yh' := ushr32 yh 1 in
  let yl' := to_uint32 (or32 (ushr32 yl 1) (shl32 yh 31)) in
  val2 yh' yl' = val2 yh yl / 2 /\ 0 <= yh' < two32 /\ 0 <= yl' < two32.
Proof.
  intros yh yl Hh Hl yh' yl'.
  assert (E1 : yh' = yh / 2).
  { unfold yh'. rewrite ushr32_div by lia. rewrite Z.mod_small by assumption. reflexivity. }
  assert (E2 : yl' = (yh mod 2) * 2147483648 + yl / 2).
  { unfold yl'. rewrite to_uint32_or32. rewrite shl32_mod by lia. rewrite ushr32_div by lia.
    change (2 ^ 31) with 2147483648. change (2 ^ 1) with 2.
    rewrite (Z.mod_small yl) by assumption.
    rewrite (Z.mod_small (yl / 2)) by (unfold two32 in *; lia).
    replace ((yh * 2147483648) mod two32) with ((yh mod 2) * 2147483648) by (unfold two32; lia).
    rewrite Z.lor_comm. apply lor_top_bit. unfold two32 in *; lia. }
  rewrite E1, E2. unfold val2, two32 in *. lia.
Qed.

(* ---- comparisons of pairs --------------------------------------------------------------------- *)
Lemma gt2_spec : forall ah al bh bl, 0 <= al < two32 -> 0 <= bl < two32 ->
  gt2 ah al bh bl = (val2 bh bl <? val2 ah al).
Proof.
  intros ah al bh bl Ha Hb. unfold gt2, val2, two32 in *.
  destruct (Z.ltb_spec bh ah); destruct (Z.eqb_spec ah bh); destruct (Z.ltb_spec bl al);
    destruct (Z.ltb_spec (bh * 4294967296 + bl) (ah * 4294967296 + al)); cbn; try reflexivity; exfalso; lia.
Qed.
Lemma ge2_spec : forall ah al bh bl, 0 <= al < two32 -> 0 <= bl < two32 ->
  ge2 ah al bh bl = (val2 bh bl <=? val2 ah al).
Proof.
  intros ah al bh bl Ha Hb. unfold ge2, val2, two32 in *.
  destruct (Z.ltb_spec bh ah); destruct (Z.eqb_spec ah bh); destruct (Z.leb_spec bl al);
    destruct (Z.leb_spec (bh * 4294967296 + bl) (ah * 4294967296 + al)); cbn; try reflexivity; exfalso; lia.
Qed.

(* ---- negation of a pair (absolute value of a negative operand) --------------------------------- *)
Lemma negpair_spec : forall h l, 0 <= l < two32 ->
  val2 (fst (negpair h l)) (snd (negpair h l)) = - val2 h l /\ 0 <= snd (negpair h l) < two32.
Proof.
  intros h l Hl. unfold negpair. destruct (Z.eqb_spec l 0); cbn [fst snd]; unfold val2, two32 in *; lia.
Qed.

(* ---- the quotient register: (high, low) represents Q modulo 2^64; high is a signed 32-bit word ---- *)
Definition qrep (h l Q : Z) : Prop :=
  (val2 h l) mod two64 = Q mod two64 /\ 0 <= l < two32 /\ - two31 <= h < two31.

Lemma qshift : forall h l, 0 <= l < two32 ->
  let h' := or32 (shl32 h 1) (ushr32 l 31) in
  let l' := to_uint32 (shl32 l 1) in
  (val2 h' l') mod two64 = (2 * val2 h l) mod two64 /\ 0 <= l' < two32 /\ l' mod 2 = 0 /\ - two31 <= h' < two31.
Proof.
  intros h l Hl h' l'.
  assert (E1 : l' = (2 * l) mod two32).
  { unfold l', to_uint32. rewrite shl32_mod by lia. f_equal. lia. }
  assert (E2 : h' mod two32 = (2 * h + l / 2147483648) mod two32).
  { unfold h'. rewrite or32_mod. rewrite two32_eq, lor_mod by lia. rewrite <- two32_eq.
    rewrite shl32_mod by lia. rewrite ushr32_div by lia.
    change (2 ^ 31) with 2147483648. change (2 ^ 1) with 2.
    rewrite (Z.mod_small l) by assumption.
    rewrite (Z.mod_small (l / 2147483648)) by (unfold two32 in *; lia).
    replace ((h * 2) mod two32) with (2 * (h mod 2147483648)) by (unfold two32; lia).
    rewrite lor_even_bit by (unfold two32 in *; lia).
    unfold two32 in *; lia. }
  pose proof (or32_range (shl32 h 1) (ushr32 l 31)) as R. fold h' in R.
  split; [| split; [| split]]; try assumption.
  - rewrite E1. clearbody h' l'. unfold val2, two64, two32 in *. lia.
  - rewrite E1. unfold two32. lia.
  - rewrite E1. unfold two32. lia.
Qed.

(* ---- one iteration of the second loop ----------------------------------------------------------- *)
Lemma div_step_spec : forall s Q,
  0 <= d_xl s < two32 -> 0 <= d_yh s < two32 -> 0 <= d_yl s < two32 -> qrep (d_high s) (d_low s) Q ->
  let X := val2 (d_xh s) (d_xl s) in
  let Y := val2 (d_yh s) (d_yl s) in
  let b := if Y <=? X then 1 else 0 in
  let s' := div_step s in
  val2 (d_xh s') (d_xl s') = X - b * Y /\ 0 <= d_xl s' < two32 /\
  val2 (d_yh s') (d_yl s') = Y / 2 /\ 0 <= d_yh s' < two32 /\ 0 <= d_yl s' < two32 /\
  qrep (d_high s') (d_low s') (2 * Q + b).
Proof.
  intros s Q Hxl Hyh Hyl [Hq [Hlow Hhigh]] X Y b s'.
  destruct (qshift (d_high s) (d_low s) Hlow) as [Sq [Sl [Sev Sh]]].
  destruct (shr1_pair (d_yh s) (d_yl s) Hyh Hyl) as [Yv [Yh Yl]].
  unfold s', div_step. rewrite ge2_spec by assumption. fold X Y.
  set (h' := or32 (shl32 (d_high s) 1) (ushr32 (d_low s) 31)) in *.
  set (l' := to_uint32 (shl32 (d_low s) 1)) in *.
  unfold b. destruct (Z.leb_spec Y X) as [LE | GT].
  - (* subtract *)
    assert (NE : (l' + 1 =? two32) = false) by (apply Z.eqb_neq; unfold two32 in *; lia).
    rewrite NE.
    destruct (Z.ltb_spec (d_xl s - d_yl s) 0) as [B | B]; cbn [d_xh d_xl d_yh d_yl d_high d_low];
      (split; [unfold X, Y, val2, two32 in *; lia |]); (split; [unfold two32 in *; lia |]);
      (split; [exact Yv |]); (split; [exact Yh |]); (split; [exact Yl |]);
      (split; [| split; [unfold two32 in *; lia | exact Sh]]);
      clearbody h' l'; unfold val2, two64, two32 in *; lia.
  - cbn [d_xh d_xl d_yh d_yl d_high d_low].
    split; [unfold X, Y, val2; lia |]. split; [assumption |]. split; [exact Yv |]. split; [exact Yh |]. split; [exact Yl |].
    split; [| split; [assumption | exact Sh]].
    clearbody h' l'; unfold val2, two64, two32 in *; lia.
Qed.
