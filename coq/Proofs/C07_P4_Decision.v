(* C07 (phase 4) — the translator's copy decisions are sound (complete case analysis over the finite site domain,
   plus an induction-free lifting to values that flow through arbitrarily many `return`s), and what an emitted
   `$clone` achieves in the heap model. *)
From Coq Require Import List Bool Arith Lia.
From Verif Require Import Model.C07_Heap Model.C07_Decision Proofs.C07_Clone.
Import ListNotations.

(* Every storing context outside the recorded findings makes the value independent whenever the source may stay
   reachable. *)
Theorem clone_decision_sound : forall c sh e,
  underlying_value sh = true -> stores c = true -> finding c = false -> may_alias e = true ->
  copies_value c sh e = true.
Proof. intros c sh e; destruct c, sh, e; vm_compute; intros; congruence. Qed.

(* ... and the only place where a storing non-finding context omits the copy is `x := T{...}` / `var x = T{...}`
   (and the define forms that cannot have a literal on the right), i.e. exactly when the source is a fresh literal *)
Theorem clone_skip_exact : forall c sh e,
  underlying_value sh = true -> stores c = true -> finding c = false ->
  (copies_value c sh e = false <->
   e = ECompLit /\ In c [CDefine; CVarDecl; CVarDeclInfer; CTupleDefine; CCommaOk; CTypeSwitchBind;
                          CRangeValSlice; CRangeValArray; CRangeValPtrArray; CRangeValMap]).
Proof.
  intros c sh e Hv Hs Hf; split.
  - destruct c, sh, e; vm_compute in *; intros; try congruence; split; auto; tauto.
  - intros [-> Hin]. simpl in Hin.
    repeat (destruct Hin as [<-|Hin]; [destruct sh; vm_compute in *; congruence|]). contradiction.
Qed.

(* the unrestricted statement (no exclusion of the findings) *)
Definition clone_decision_full_statement : Prop := forall c sh e,
  valid c sh e = true -> underlying_value sh = true -> stores c = true -> may_alias e = true -> copies_value c sh e = true.

Lemma refuted_by c sh e :
  valid c sh e = true -> underlying_value sh = true -> stores c = true -> may_alias e = true -> copies_value c sh e = false ->
  ~ clone_decision_full_statement.
Proof. intros V U S M C F. specialize (F c sh e V U S M). congruence. Qed.

Theorem clone_decision_refuted_box : ~ clone_decision_full_statement.
Proof. apply (refuted_by CBoxAssign ShNamedStruct EVar); reflexivity. Qed.
Theorem clone_decision_refuted_range : ~ clone_decision_full_statement.
Proof. apply (refuted_by CRangeExprArray ShNamedArray EVar); reflexivity. Qed.
Theorem clone_decision_refuted_receiver : ~ clone_decision_full_statement.
Proof. apply (refuted_by CIfacePtrCall ShNamedStruct EDeref); reflexivity. Qed.

(* the findings are exactly the storing contexts that never copy a value type *)
Theorem finding_iff_never_copies : forall c,
  stores c = true ->
  (finding c = true <-> forall sh e, copies_value c sh e = false).
Proof.
  intros c Hs; split.
  - intros Hf sh e. destruct c; try discriminate; destruct sh, e; reflexivity.
  - intros H. destruct c; try reflexivity; try discriminate;
      (specialize (H ShNamedStruct EVar); vm_compute in H; discriminate).
Qed.

(* reference shapes: the translator never inserts a clone or a copy, in any context, for any expression — the value
   that flows is the reference itself, so every alias keeps observing the same storage *)
Theorem reference_shapes_never_copied : forall c sh e,
  underlying_value sh = false -> site_counts c sh e = (0, 0) /\ copies_value c sh e = false.
Proof. intros c sh e; destruct c, sh, e; vm_compute; intros; try congruence; auto. Qed.

(* the decision does not depend on the expression class except for the literal skip in definitions, and a
   struct/array literal on the right of a definition is the only skipped case *)
Theorem decision_depends_on_literal_only : forall c sh e e',
  is_composite_lit_node e = is_composite_lit_node e' -> decide c sh e = decide c sh e'.
Proof. intros c sh e e'; destruct c, sh, e, e'; vm_compute; intros; congruence. Qed.

(* values that reach the context through any number of `return`s *)
Theorem clone_decision_flow_sound : forall f c sh,
  underlying_value sh = true -> stores c = true -> finding c = false -> flow_aliases f = true ->
  flow_copied sh f || copies_value c sh (flow_head f) = true.
Proof.
  intros f c sh Hv Hs Hf Ha. apply orb_true_iff. right.
  destruct f as [e|f'].
  - apply clone_decision_sound; assumption.
  - apply clone_decision_sound; try assumption. reflexivity.
Qed.

(* `return` itself never copies, for any depth *)
Theorem return_never_copies : forall f sh, flow_copied sh f = false.
Proof.
  induction f as [e|f IH]; intro sh; [reflexivity|].
  change (copies_value CReturn sh (flow_head f) || flow_copied sh f = false). rewrite IH.
  destruct sh, (flow_head f); reflexivity.
Qed.

(* what the decision buys: where the model says a `$clone` is emitted for a struct/array type, the run-time clone of
   the heap model yields a value with the source's deep value whose nodes are disjoint from everything readable before *)
Theorem decided_clone_independent : forall c sh e t h src d nss,
  underlying_value sh = true -> stores c = true -> finding c = false -> may_alias e = true ->
  em_copies (decide c sh e) = 0 -> em_runtime (decide c sh e) = false ->
  is_node t = true -> wf h -> R h t src d nss ->
  0 < em_clones (decide c sh e) /\
  exists cl h' nsc, clone t h src = Some (cl, h') /\ R h' t cl d nsc /\ R h' t src d nss /\
    forall t' v' d' ns', R h t' v' d' ns' -> R h' t' v' d' ns' /\ (forall l, In l nsc -> ~ In l ns').
Proof.
  intros c sh e t h src d nss Hv Hs Hf Ha Hc Hr Hn Hw HR. split.
  - pose proof (clone_decision_sound c sh e Hv Hs Hf Ha) as S. unfold copies_value in S.
    rewrite Hr, Hc in S. simpl in S. rewrite !orb_false_r in S. apply Nat.ltb_lt in S. exact S.
  - destruct (clone_value_eq t h src d nss Hn Hw HR) as (cl & h' & nsc & E & Rc & Rs).
    destruct (clone_disjoint t h src d nss cl h' Hn Hw HR E) as (nsc' & Rc' & Fr).
    exists cl, h', nsc'. repeat split; try assumption; apply (Fr t' v' d' ns'); assumption.
Qed.

(* the refutations with their witnesses spelled out *)
Lemma box_refuted_witness :
  valid CBoxAssign ShNamedStruct EVar = true /\ stores CBoxAssign = true /\ may_alias EVar = true /\
  copies_value CBoxAssign ShNamedStruct EVar = false /\ ~ clone_decision_full_statement.
Proof. repeat split; try reflexivity. exact clone_decision_refuted_box. Qed.
Lemma range_refuted_witness :
  valid CRangeExprArray ShNamedArray EVar = true /\ stores CRangeExprArray = true /\
  copies_value CRangeExprArray ShNamedArray EVar = false /\ ~ clone_decision_full_statement.
Proof. repeat split; try reflexivity. exact clone_decision_refuted_range. Qed.
Lemma receiver_refuted_witness :
  valid CIfacePtrCall ShNamedStruct EDeref = true /\ stores CIfacePtrCall = true /\
  copies_value CIfacePtrCall ShNamedStruct EDeref = false /\ ~ clone_decision_full_statement.
Proof. repeat split; try reflexivity. exact clone_decision_refuted_receiver. Qed.

Lemma decision_examples :
  site_counts CDefine ShNamedStruct EVar = (1, 0) /\ site_counts CDefine ShNamedStruct ECompLit = (0, 0) /\
  site_counts CAssignField ShArray ECall = (0, 1) /\ site_counts CSend ShStruct EConvOther = (3, 0) /\
  site_counts CBoxArg ShNamedStruct EVar = (0, 0) /\ site_counts CArg ShSlice EVar = (0, 0).
Proof. vm_compute. repeat split. Qed.
