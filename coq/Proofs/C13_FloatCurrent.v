(* C13 — the float-logic overrides as /repo has them NOW (shapes read from math.go into Gen/C13_Variants.v)
   against upstream, on all bit patterns. *)
From Coq Require Import ZArith Lia List Bool.
From Verif Require Import Model.C13_Float Proofs.C13_Float Gen.C13_Variants.
Local Open Scope Z_scope.

(* the regenerated flags say: Trunc = Math.trunc, Modf = (Trunc f, Copysign(f - Trunc f, f)).
   If math.go changes shape these two lemmas stop checking. *)
Lemma trunc_shape_current : trunc_impl = TruncViaMathTrunc.
Proof. reflexivity. Qed.
Lemma modf_shape_current : modf_impl = ModfViaTrunc.
Proof. reflexivity. Qed.

Theorem float_current_correct : forall b, 0 <= b ->
  js_trunc trunc_impl (decode b) = go_trunc (decode b) /\
  obs2 (js_modf_impl modf_impl trunc_impl (decode b)) = obs2 (go_modf (decode b)) /\
  (js_isnan (decode b) = false -> js_signbit (decode b) = go_signbit (decode b)) /\
  (forall a, 0 <= a -> js_isnan (decode b) = false ->
     obs (js_copysign (decode a) (decode b)) = obs (go_copysign (decode a) (decode b))) /\
  js_isnan (decode b) = (match decode b with FNaN _ => true | _ => false end) /\
  (forall s, js_isinf (decode b) s = match decode b with FInf false => 0 <=? s | FInf true => s <=? 0 | _ => false end).
Proof.
  intros b Hb. pose proof (decode_wf b Hb) as Hwf.
  rewrite trunc_shape_current, modf_shape_current.
  split; [apply trunc_math_trunc_correct|].
  split; [apply modf_via_trunc_correct; exact Hwf|].
  split; [apply signbit_agrees; exact Hwf|].
  split; [intros a Ha Hn; apply copysign_agrees; try assumption; apply decode_wf; exact Ha|].
  split; [reflexivity|]. intros s. destruct (decode b) as [n|n|n m e]; reflexivity.
Qed.
