(* C07 — $copyArray on ONE untyped backing array with overlapping windows and ARRAY/STRUCT elements (enode = true):
   memmove semantics on DEEP VALUES.  Every destination element ends with the ORIGINAL deep value of its source
   element, the element nodes (and hence the cell list of the backing array, i.e. pointers to elements) stay the
   same, nothing outside the element nodes changes.  Unbounded over element type, nesting, length and offsets. *)
From Coq Require Import List ZArith Bool Arith Lia.
From Verif Require Import Model.C07_Heap Proofs.C07_Clone Proofs.C07_Memmove Proofs.C07_Slices.
Import ListNotations.

(* ------------------------------------------------------------------ list facts *)

Lemma In_concat_nth {A} (nss : list (list A)) p np l :
  nth_error nss p = Some np -> In l np -> In l (concat nss).
Proof.
  revert p. induction nss as [|x nss IH]; intros [|p] H Hl; simpl in *; try discriminate.
  - inversion H; subst. apply in_or_app; left; assumption.
  - apply in_or_app; right. eapply IH; eauto.
Qed.

Lemma NoDup_concat_nth {A} (nss : list (list A)) p np :
  NoDup (concat nss) -> nth_error nss p = Some np -> NoDup np.
Proof.
  revert p. induction nss as [|x nss IH]; intros [|p] ND H; simpl in *; try discriminate.
  - inversion H; subst. eapply NoDup_app_l; eauto.
  - eapply IH; eauto. eapply NoDup_app_r; eauto.
Qed.

Lemma NoDup_concat_disj {A} (nss : list (list A)) : forall p q x y l,
  NoDup (concat nss) -> p <> q -> nth_error nss p = Some x -> nth_error nss q = Some y -> In l x -> ~ In l y.
Proof.
  induction nss as [|z nss IH]; intros [|p] [|q] x y l ND Hpq Hp Hq Hl; simpl in *; try discriminate; try congruence.
  - inversion Hp; subst. intro Hy. eapply (NoDup_app_disj x (concat nss)); eauto. eapply In_concat_nth; eauto.
  - inversion Hq; subst. intro Hy. eapply (NoDup_app_disj y (concat nss)); eauto. eapply In_concat_nth; eauto.
  - eapply (IH p q); eauto. eapply NoDup_app_r; eauto.
Qed.

Lemma nth_error_splice2 {A} (l m : list A) dO sO n p :
  sO + n <= length m -> dO + n <= length l ->
  nth_error (splice l dO (sublist m sO n)) p =
  if (Nat.leb dO p && Nat.ltb p (dO + n))%bool then nth_error m (sO + (p - dO)) else nth_error l p.
Proof.
  intros Hs Hd. unfold splice, sublist.
  assert (Ls : length (firstn n (skipn sO m)) = n) by (rewrite firstn_length, skipn_length; lia).
  rewrite Ls.
  destruct (Nat.leb_spec dO p); simpl.
  - rewrite nth_error_app2 by (rewrite firstn_length; lia). rewrite firstn_length, Nat.min_l by lia.
    destruct (Nat.ltb_spec p (dO + n)).
    + rewrite nth_error_app1 by lia. rewrite nth_error_firstn_lt by lia. apply nth_error_skipn_add.
    + rewrite nth_error_app2 by lia. rewrite Ls, nth_error_skipn_add. f_equal. lia.
  - rewrite nth_error_app1 by (rewrite firstn_length; lia). apply nth_error_firstn_lt. assumption.
Qed.

Lemma nth_error_splice_gen {A} (l : list A) dO sO n p :
  sO + n <= length l -> dO + n <= length l ->
  nth_error (splice l dO (sublist l sO n)) p =
  if (Nat.leb dO p && Nat.ltb p (dO + n))%bool then nth_error l (sO + (p - dO)) else nth_error l p.
Proof. apply nth_error_splice2. Qed.

Lemma splice_sublist_length {A} (l : list A) dO sO n :
  sO + n <= length l -> dO + n <= length l -> length (splice l dO (sublist l sO n)) = length l.
Proof.
  intros Hs Hd. unfold splice, sublist. rewrite !app_length, firstn_length, firstn_length, !skipn_length. lia.
Qed.

(* ------------------------------------------------------------------ RL over a homogeneous list, element by element *)

(* pointwise reading: element p of [vs] has deep value [f p] and owns the nodes [nss[p]] *)
Definition PW (h : heap) (e : ty) (vs : list val) (nss : list (list nat)) (f : nat -> option dval) : Prop :=
  forall p v np, nth_error vs p = Some v -> nth_error nss p = Some np -> exists d, f p = Some d /\ R h e v d np.

Lemma RL_to_PW h e : forall k vs ds ns,
  RL h (repeat e k) vs ds ns ->
  exists nss, ns = concat nss /\ length nss = length vs /\ PW h e vs nss (nth_error ds).
Proof.
  induction k as [|k IH]; intros vs ds ns H; simpl in H.
  - inversion H; subst. exists []. split; [reflexivity|]. split; [reflexivity|].
    intros [|p] v np Hv; discriminate.
  - inversion H as [|? ? v vs' d ds' n1 n2 Hv Hr]; subst.
    destruct (IH _ _ _ Hr) as (nss & -> & Ln & P).
    exists (n1 :: nss). split; [reflexivity|]. split; [simpl; congruence|].
    intros [|p] v0 np H1 H2; simpl in *.
    + inversion H1; inversion H2; subst. eauto.
    + eapply P; eauto.
Qed.

Lemma PW_to_RL h e : forall vs ds nss,
  length ds = length vs -> length nss = length vs -> PW h e vs nss (nth_error ds) ->
  RL h (repeat e (length vs)) vs ds (concat nss).
Proof.
  induction vs as [|v vs IH]; intros [|d ds] [|n1 nss] L1 L2 P; simpl in *; try discriminate.
  - constructor.
  - destruct (P 0 v n1 eq_refl eq_refl) as (d' & E & Rv). simpl in E. inversion E; subst.
    constructor; [assumption|]. apply IH; [lia | lia |].
    intros p v0 np H1 H2. apply (P (S p)); assumption.
Qed.

(* ------------------------------------------------------------------ the element loop on one array *)

Definition tgt (ds : list dval) (dO sO lo hi p : nat) : option dval :=
  if (Nat.leb lo p && Nat.ltb p hi)%bool then nth_error ds (sO + (p - dO)) else nth_error ds p.

Section SameArray.
  Variables (e : ty) (a : nat) (cells : list val) (nss : list (list nat)) (h0 : heap) (dO sO : nat).
  Hypothesis En : is_node e = true.
  Hypothesis ND : NoDup (concat nss).
  Hypothesis Ha : ~ In a (concat nss).
  Hypothesis Lnss : length nss = length cells.
  Hypothesis Hne : dO <> sO.

  Definition ostep (hk : heap) (i : nat) : option heap :=
    match get_cell hk a (dO + i), get_cell hk a (sO + i) with
    | Some dv, Some sv => copy e hk dv sv
    | _, _ => None
    end.

  Definition Inv (f : nat -> option dval) (hk : heap) : Prop :=
    wf hk /\ lookup hk a = Some (OArr false cells) /\
    (forall l, ~ In l (concat nss) -> lookup hk l = lookup h0 l) /\
    PW hk e cells nss f.

  Lemma Inv_ext f g hk : (forall p, f p = g p) -> Inv f hk -> Inv g hk.
  Proof.
    intros E (W & L & F & P). repeat split; auto.
    intros p v np H1 H2. destruct (P p v np H1 H2) as (d & Ed & Rd). exists d. rewrite <- E. auto.
  Qed.

  Lemma nth_some {A} (l : list A) p : p < length l -> exists x, nth_error l p = Some x.
  Proof.
    intro H. destruct (nth_error l p) eqn:E; [eauto|]. apply nth_error_None in E. lia.
  Qed.

  (* one iteration: element dO+i receives the current deep value of element sO+i, in its own nodes *)
  Lemma step_ok f hk i :
    Inv f hk -> dO + i < length cells -> sO + i < length cells ->
    exists h1, ostep hk i = Some h1 /\
               Inv (fun p => if Nat.eqb p (dO + i) then f (sO + i) else f p) h1.
  Proof.
    intros (W & L & F & P) Hd Hs.
    destruct (nth_some cells (dO + i) Hd) as [dv Edv].
    destruct (nth_some cells (sO + i) Hs) as [sv Esv].
    destruct (nth_some nss (dO + i)) as [nd End]; [lia|].
    destruct (nth_some nss (sO + i)) as [nsr Ensr]; [lia|].
    destruct (P _ _ _ Edv End) as (dd & Fd & Rd).
    destruct (P _ _ _ Esv Ensr) as (sd & Fs & Rs).
    assert (NDd : NoDup nd) by (eapply NoDup_concat_nth; eauto).
    assert (Dj : forall l, In l nd -> ~ In l nsr).
    { intros l Hl. apply (NoDup_concat_disj nss (dO + i) (sO + i) nd nsr l ND); auto. lia. }
    destruct (copy_ok_all e En hk dv sv sd dd nsr nd W Rs Rd NDd Dj) as (h1 & C & N1 & W1 & F1 & R1).
    exists h1. split.
    { unfold ostep, get_cell. rewrite L. simpl cells_of. rewrite Edv, Esv. exact C. }
    split; [assumption|]. split.
    { rewrite F1; [assumption|]. intro Hin. apply Ha. eapply In_concat_nth; [exact End | exact Hin]. }
    split.
    { intros l Hl. rewrite F1; [apply F; assumption|]. intro Hin. apply Hl. eapply In_concat_nth; [exact End | exact Hin]. }
    intros p v np H1 H2. destruct (Nat.eqb_spec p (dO + i)) as [->|Hp].
    - rewrite Edv in H1. rewrite End in H2. inversion H1; inversion H2; subst. eauto.
    - destruct (P _ _ _ H1 H2) as (d & Fp & Rp). exists d. split; [assumption|].
      eapply R_frame; [exact Rp|]. intros l Hl. apply F1. intro Hin.
      exact (NoDup_concat_disj nss p (dO + i) np nd l ND Hp H2 End Hl Hin).
  Qed.

  Variable ds : list dval.

  (* forwards loop, destination below source *)
  Lemma forward_nodes_ok : dO < sO -> forall m k hk,
    sO + (k + m) <= length cells -> Inv (tgt ds dO sO dO (dO + k)) hk ->
    exists h', copy_loop ostep (seq k m) hk = Some h' /\ Inv (tgt ds dO sO dO (dO + (k + m))) h'.
  Proof.
    intros Hlt. induction m as [|m IH]; intros k hk Hlen I.
    - exists hk. split; [reflexivity|]. rewrite Nat.add_0_r. assumption.
    - destruct (step_ok _ hk k I) as (h1 & S1 & I1); [lia | lia |].
      destruct (IH (S k) h1) as (h' & L' & I'); [lia | |].
      + eapply Inv_ext; [|exact I1]. intro p. cbv beta. unfold tgt.
        destruct (Nat.eqb_spec p (dO + k)) as [->|Hp].
        * replace (Nat.ltb (sO + k) (dO + k)) with false by (symmetry; apply Nat.ltb_ge; lia).
          rewrite andb_false_r.
          replace (Nat.leb dO (dO + k) && Nat.ltb (dO + k) (dO + S k))%bool with true
            by (symmetry; apply andb_true_iff; split; [apply Nat.leb_le | apply Nat.ltb_lt]; lia).
          f_equal. lia.
        * destruct (Nat.leb_spec dO p); simpl; [|reflexivity].
          destruct (Nat.ltb_spec p (dO + k)), (Nat.ltb_spec p (dO + S k)); try reflexivity; lia.
      + exists h'. split.
        * simpl. rewrite S1. exact L'.
        * replace (k + S m) with (S k + m) by lia. assumption.
  Qed.

  (* backwards loop, destination above source: indices m-1, ..., 0 *)
  Lemma backward_nodes_ok n : sO < dO -> dO + n <= length cells -> forall m hk,
    m <= n -> Inv (tgt ds dO sO (dO + m) (dO + n)) hk ->
    exists h', copy_loop ostep (rev (seq 0 m)) hk = Some h' /\ Inv (tgt ds dO sO dO (dO + n)) h'.
  Proof.
    intros Hlt Hlen. induction m as [|m IH]; intros hk Hm I.
    - exists hk. split; [reflexivity|]. rewrite Nat.add_0_r in I. assumption.
    - destruct (step_ok _ hk m I) as (h1 & S1 & I1); [lia | lia |].
      destruct (IH h1) as (h' & L' & I'); [lia | |].
      + eapply Inv_ext; [|exact I1]. intro p. cbv beta. unfold tgt.
        destruct (Nat.eqb_spec p (dO + m)) as [->|Hp].
        * replace (Nat.leb (dO + S m) (sO + m)) with false by (symmetry; apply Nat.leb_gt; lia).
          simpl andb. cbv iota.
          replace (Nat.leb (dO + m) (dO + m) && Nat.ltb (dO + m) (dO + n))%bool with true
            by (symmetry; apply andb_true_iff; split; [apply Nat.leb_le | apply Nat.ltb_lt]; lia).
          f_equal. lia.
        * destruct (Nat.leb_spec (dO + S m) p), (Nat.leb_spec (dO + m) p); simpl; try reflexivity; lia.
      + exists h'. split; [|assumption].
        rewrite seq_S, rev_app_distr. simpl. rewrite S1. exact L'.
  Qed.

  Lemma copy_array_same_unfold h n : n <> 0 -> lookup h a = Some (OArr false cells) ->
    copy_array (copy e) true h a a dO sO n
    = copy_loop ostep (if Nat.ltb sO dO then rev (seq 0 n) else seq 0 n) h.
  Proof.
    intros Hn L. unfold copy_array. rewrite Nat.eqb_refl.
    replace (Nat.eqb n 0) with false by (symmetry; apply Nat.eqb_neq; assumption).
    replace (Nat.eqb dO sO) with false by (symmetry; apply Nat.eqb_neq; assumption).
    simpl orb. cbv iota. rewrite L. simpl andb. reflexivity.
  Qed.
End SameArray.

(* ------------------------------------------------------------------ the theorem *)

Theorem copy_array_overlap_nodes : forall e h a cells ds ns dO sO n,
  is_node e = true -> wf h ->
  lookup h a = Some (OArr false cells) ->
  RL h (repeat e (length cells)) cells ds ns -> NoDup ns -> ~ In a ns ->
  sO + n <= length cells -> dO + n <= length cells ->
  exists h' ds',
    copy_array (copy e) true h a a dO sO n = Some h' /\
    wf h' /\
    lookup h' a = Some (OArr false cells) /\
    RL h' (repeat e (length cells)) cells ds' ns /\
    length ds' = length ds /\
    (forall p, nth_error ds' p =
               if (Nat.leb dO p && Nat.ltb p (dO + n))%bool then nth_error ds (sO + (p - dO)) else nth_error ds p) /\
    (forall l, ~ In l ns -> lookup h' l = lookup h l).
Proof.
  intros e h a cells ds ns dO sO n En W L RLh ND Ha Hs Hd.
  destruct (Nat.eq_dec n 0) as [->|Hn0].
  { exists h, ds. unfold copy_array. simpl. repeat split; auto. intro p.
    rewrite Nat.add_0_r. destruct (Nat.leb_spec dO p), (Nat.ltb_spec p dO); simpl; try reflexivity; lia. }
  destruct (Nat.eq_dec dO sO) as [->|Hne].
  { exists h, ds. unfold copy_array. rewrite !Nat.eqb_refl. simpl andb. rewrite orb_true_r.
    repeat split; auto. intro p.
    destruct (Nat.leb_spec sO p); simpl; [|reflexivity]. destruct (Nat.ltb_spec p (sO + n)); [|reflexivity]. f_equal. lia. }
  destruct (RL_length _ _ _ _ _ RLh) as [_ Lds]. rewrite repeat_length in Lds.
  destruct (RL_to_PW h e _ _ _ _ RLh) as (nss & -> & Lnss & P).
  rewrite (copy_array_same_unfold e a cells dO sO Hne h n Hn0 L).
  assert (I0 : forall lo, Inv e a cells nss h (tgt ds dO sO lo lo) h).
  { intro lo. split; [assumption|]. split; [assumption|]. split; [auto|].
    intros p v np H1 H2. destruct (P p v np H1 H2) as (d & E & Rd). exists d. split; [|assumption].
    unfold tgt. destruct (Nat.leb_spec lo p), (Nat.ltb_spec p lo); simpl; try assumption; lia. }
  assert (Fin : exists h', copy_loop (ostep e a dO sO) (if Nat.ltb sO dO then rev (seq 0 n) else seq 0 n) h = Some h' /\
                           Inv e a cells nss h (tgt ds dO sO dO (dO + n)) h').
  { destruct (Nat.ltb_spec sO dO) as [Hlt|Hge].
    - apply (backward_nodes_ok e a cells nss h dO sO En ND Ha Lnss Hne ds n Hlt Hd n h (le_n _)). apply I0.
    - assert (Hlt : dO < sO) by lia.
      apply (forward_nodes_ok e a cells nss h dO sO En ND Ha Lnss Hne ds Hlt n 0 h); [simpl; assumption|].
      rewrite Nat.add_0_r. apply I0. }
  destruct Fin as (h' & CL & W' & L' & F' & P').
  exists h', (splice ds dO (sublist ds sO n)).
  split; [exact CL|]. split; [assumption|]. split; [assumption|].
  assert (Len : length (splice ds dO (sublist ds sO n)) = length ds) by (apply splice_sublist_length; lia).
  split.
  { apply PW_to_RL; [lia | assumption |].
    intros p v np H1 H2. destruct (P' p v np H1 H2) as (d & E & Rd). exists d. split; [|assumption].
    rewrite nth_error_splice_gen by lia. exact E. }
  split; [assumption|]. split; [|assumption].
  intro p. apply nth_error_splice_gen; lia.
Qed.

Print Assumptions copy_array_overlap_nodes.

(* ------------------------------------------------------------------ append within capacity: contents *)

Lemma RL_window h e vs ds ns off n :
  RL h (repeat e (length vs)) vs ds ns -> off + n <= length vs ->
  exists v1 v2 v3 d1 d2 d3 n1 n2 n3,
    vs = v1 ++ v2 ++ v3 /\ ds = d1 ++ d2 ++ d3 /\ ns = n1 ++ n2 ++ n3 /\ length v1 = off /\ length v2 = n /\ length d1 = off /\ length d2 = n /\ RL h (repeat e off) v1 d1 n1 /\ RL h (repeat e n) v2 d2 n2 /\ RL h (repeat e (length vs - off - n)) v3 d3 n3.
Proof.
  intros H Hl. remember (length vs) as k eqn:Ek.
  replace k with (off + (n + (k - off - n))) in H by lia. rewrite !repeat_app in H.
  destruct (RL_split _ _ _ _ _ _ H) as (v1 & v23 & d1 & d23 & n1 & n23 & -> & -> & -> & R1 & R23).
  destruct (RL_split _ _ _ _ _ _ R23) as (v2 & v3 & d2 & d3 & n2 & n3 & -> & -> & -> & R2 & R3).
  destruct (RL_length _ _ _ _ _ R1) as [A1 B1]. destruct (RL_length _ _ _ _ _ R2) as [A2 B2].
  rewrite repeat_length in A1, B1, A2, B2.
  exists v1, v2, v3, d1, d2, d3, n1, n2, n3. repeat split; auto.
Qed.

Lemma RL_window_join h e k1 k2 k3 v1 v2 v3 d1 d2 d3 n1 n2 n3 :
  RL h (repeat e k1) v1 d1 n1 -> RL h (repeat e k2) v2 d2 n2 -> RL h (repeat e k3) v3 d3 n3 ->
  RL h (repeat e (length (v1 ++ v2 ++ v3))) (v1 ++ v2 ++ v3) (d1 ++ d2 ++ d3) (n1 ++ n2 ++ n3).
Proof.
  intros R1 R2 R3.
  destruct (RL_length _ _ _ _ _ R1) as [A1 _]. destruct (RL_length _ _ _ _ _ R2) as [A2 _].
  destruct (RL_length _ _ _ _ _ R3) as [A3 _]. rewrite repeat_length in A1, A2, A3.
  rewrite !app_length, !repeat_app, A1, A2, A3. apply RL_app; [assumption|]. apply RL_app; assumption.
Qed.

(* append(s, t...) when the result fits the capacity of s: the header only grows in length, the backing array [a]
   keeps its identity, and the elements at positions o+l .. o+l+n-1 of [a] receive the ORIGINAL deep values of
   src[off .. off+n-1] into the nodes they already own; every other element keeps its deep value and nothing
   outside [a] and its element nodes changes.
   src <> a: any element type (typed or untyped arrays).  src = a (append(s[:k], s[j:]...), possibly overlapping
   windows): array/struct elements, by copy_array_overlap_nodes. *)
Theorem append_in_place_content e h a o l c src off n dt cells ds ns st scells dss nsrc :
  wf h -> (0 < n)%Z -> (l + n <= c)%Z ->
  lookup h a = Some (OArr dt cells) ->
  RL h (repeat e (length cells)) cells ds ns -> NoDup ns -> ~ In a ns ->
  lookup h src = Some (OArr st scells) -> (st = true -> is_node e = false) ->
  RL h (repeat e (length scells)) scells dss nsrc ->
  Z.to_nat (o + l) + Z.to_nat n <= length cells -> Z.to_nat off + Z.to_nat n <= length scells ->
  (src = a -> is_node e = true) ->
  (src <> a -> ~ In src ns /\ ~ In a nsrc /\ (forall x, In x ns -> ~ In x nsrc)) ->
  exists h' cells' ds',
    internal_append e h (SHdr a o l c) src off n = Some (SHdr a o (l + n) c, h') /\
    wf h' /\
    lookup h' a = Some (OArr dt cells') /\ length cells' = length cells /\
    RL h' (repeat e (length cells')) cells' ds' ns /\ length ds' = length ds /\
    (forall p, nth_error ds' p =
               if (Nat.leb (Z.to_nat (o + l)) p && Nat.ltb p (Z.to_nat (o + l) + Z.to_nat n))%bool
               then nth_error dss (Z.to_nat off + (p - Z.to_nat (o + l))) else nth_error ds p) /\
    (forall x, x <> a -> ~ In x ns -> lookup h' x = lookup h x).
Proof.
  intros W Hpos Hfit La RLa ND Ha Ls Hst RLs Hd Hs Hself Hother.
  set (dO := Z.to_nat (o + l)) in *. set (sO := Z.to_nat off) in *. set (N := Z.to_nat n) in *.
  assert (HN : 0 < N) by (unfold N; lia).
  assert (IA : forall h', copy_array (copy e) (is_node e) h a src dO sO N = Some h' ->
                          internal_append e h (SHdr a o l c) src off n = Some (SHdr a o (l + n) c, h')).
  { intros h' CA. unfold internal_append. destruct (Z.eqb_spec n 0); [lia|]. cbv zeta. simpl slen.
    unfold grow_slice, slice_array. rewrite La. simpl scap. destruct (Z.ltb_spec c (l + n)); [lia|].
    fold dO. fold sO. fold N. rewrite CA. reflexivity. }
  destruct (Nat.eq_dec src a) as [->|Hne].
  - (* one array: the element loop overwrites element contents in place *)
    specialize (Hself eq_refl). rewrite La in Ls. inversion Ls; subst st scells. clear Ls.
    assert (dt = false) as ->.
    { destruct dt; [|reflexivity]. specialize (Hst eq_refl). congruence. }
    destruct (proj2 (R_RL_det h) _ _ _ _ RLa _ _ RLs) as [<- <-].
    destruct (copy_array_overlap_nodes e h a cells ds ns dO sO N Hself W La RLa ND Ha Hs Hd)
      as (h' & ds' & CA & W' & La' & RL' & Len' & PW' & F').
    exists h', cells, ds'. rewrite Hself in IA.
    split; [apply IA; exact CA|]. split; [assumption|]. split; [assumption|]. split; [reflexivity|].
    split; [assumption|]. split; [assumption|]. split; [exact PW'|]. intros x _ Hx. apply F'. assumption.
  - destruct (Hother Hne) as (Hsn & Han & Dj).
    destruct (RL_window h e cells ds ns dO N RLa Hd)
      as (v1 & v2 & v3 & d1 & d2 & d3 & n1 & n2 & n3 & -> & -> & -> & Lv1 & Lv2 & Ld1 & Ld2 & R1 & R2 & R3).
    destruct (RL_window h e scells dss nsrc sO N RLs Hs)
      as (s1 & s2 & s3 & e1 & e2 & e3 & m1 & m2 & m3 & -> & -> & -> & Ls1 & Ls2 & Le1 & Le2 & Q1 & Q2 & Q3).
    destruct (copy_array_fwd_ok e a src N (OArr dt (v1 ++ v2 ++ v3)) (OArr st (s1 ++ s2 ++ s3))
                v1 v2 v3 s1 s2 s3 e2 d2 m2 n2 h) as (h' & dc2' & CA & N2 & W2 & F2 & La2 & R2').
    + assumption.
    + intro Heq; apply Hne; symmetry; exact Heq.
    + assumption.
    + assumption.
    + eauto.
    + reflexivity.
    + assumption.
    + exists st, (s1 ++ s2 ++ s3). split; [reflexivity | assumption].
    + reflexivity.
    + assumption.
    + assumption.
    + apply NoDup_app_r in ND. eapply NoDup_app_l; eauto.
    + intro Hin. apply Ha. apply in_or_app; right. apply in_or_app; left. assumption.
    + intro Hin. apply Hsn. apply in_or_app; right. apply in_or_app; left. assumption.
    + intro Hin. apply Han. apply in_or_app; right. apply in_or_app; left. assumption.
    + intros x Hx Hx'. apply (Dj x).
      * apply in_or_app; right. apply in_or_app; left. assumption.
      * apply in_or_app; right. apply in_or_app; left. assumption.
    + rewrite Lv1, Ls1 in CA.
      destruct (RL_length _ _ _ _ _ R2') as [Lc2 _]. rewrite repeat_length in Lc2.
      exists h', (v1 ++ dc2' ++ v3), (d1 ++ e2 ++ d3).
      split; [apply IA; exact CA|]. split; [assumption|]. split; [exact La2|].
      split; [rewrite !app_length; lia|]. split.
      { eapply RL_window_join; [| exact R2' |].
        - eapply RL_frame; [exact R1|]. intros x Hx. apply F2.
          + intro; subst. apply Ha. apply in_or_app; left; assumption.
          + intro Hin. eapply (NoDup_app_disj n1 (n2 ++ n3)); eauto. apply in_or_app; left; assumption.
        - eapply RL_frame; [exact R3|]. intros x Hx. apply F2.
          + intro; subst. apply Ha. apply in_or_app; right. apply in_or_app; right; assumption.
          + intro Hin. apply NoDup_app_r in ND. eapply (NoDup_app_disj n2 n3); eauto. }
      split; [rewrite !app_length; lia|]. split.
      { intro p.
        assert (E : d1 ++ e2 ++ d3 = splice (d1 ++ d2 ++ d3) dO (sublist (e1 ++ e2 ++ e3) sO N)).
        { rewrite <- Ld1, <- Le1, <- Le2, sublist_mid. symmetry. apply splice_mid. lia. }
        rewrite E. apply nth_error_splice2; rewrite !app_length; lia. }
      intros x Hxa Hx. apply F2; [assumption|]. intro Hin. apply Hx.
      apply in_or_app; right. apply in_or_app; left. assumption.
Qed.

Print Assumptions append_in_place_content.

(* ------------------------------------------------------------------ the same for elements that are not arrays/structs *)

(* the plain element loop on one array always succeeds within bounds and only touches that array *)
Lemma leaf_loop_total a ty dO sO N idx :
  Forall (fun i => sO + i < N /\ dO + i < N) idx -> forall h cells,
  lookup h a = Some (OArr ty cells) -> length cells = N ->
  exists h', copy_loop (fun h i => match get_cell h a (sO + i) with
                                   | Some sv => set_cell h a (dO + i) sv | None => None end) idx h = Some h' /\
             (forall x, x <> a -> lookup h' x = lookup h x).
Proof.
  induction 1 as [|i idx [Hs Hd] _ IH]; intros h cells L Len.
  - exists h. split; [reflexivity | auto].
  - cbn [copy_loop]. unfold get_cell, set_cell. rewrite L. cbn [cells_of with_cells].
    destruct (nth_error cells (sO + i)) as [sv|] eqn:E1; [|apply nth_error_None in E1; lia].
    destruct (set_nth_some cells (dO + i) sv) as [c1 E2]; [lia|]. rewrite E2.
    destruct (set_nth_spec _ _ _ _ E2) as [L1 _].
    destruct (IH (store h a (OArr ty c1)) c1 (lookup_store_same _ _ _)) as (h' & C & F); [lia|].
    exists h'. split; [exact C|]. intros x Hx. rewrite F by assumption. apply lookup_store_other. assumption.
Qed.

Lemma copy_array_leaf_total cp h a ty cells dO sO n :
  lookup h a = Some (OArr ty cells) -> sO + n <= length cells -> dO + n <= length cells ->
  exists h', copy_array cp false h a a dO sO n = Some h' /\ (forall x, x <> a -> lookup h' x = lookup h x).
Proof.
  intros L Hs Hd. unfold copy_array. rewrite Nat.eqb_refl. simpl andb.
  destruct (Nat.eqb n 0 || Nat.eqb dO sO)%bool; [exists h; auto|].
  rewrite L. destruct ty.
  - replace (Nat.leb (sO + n) (length cells) && Nat.leb (dO + n) (length cells))%bool with true
      by (symmetry; apply andb_true_iff; split; apply Nat.leb_le; assumption).
    eexists. split; [reflexivity|]. intros x Hx. apply lookup_store_other. assumption.
  - apply (leaf_loop_total a false dO sO (length cells)) with (cells := cells); auto.
    apply Forall_forall. intros i Hi.
    assert (Hin : In i (seq 0 n)) by (destruct (Nat.ltb sO dO); [apply in_rev|]; assumption).
    apply in_seq in Hin. lia.
Qed.

(* append(s[:k], s[j:]...) within capacity for elements that are NOT arrays/structs (typed or untyped backing array):
   memmove on the cells of the one backing array, nothing else changes *)
Theorem append_in_place_content_self_leaf e h a o l c off n dt cells :
  is_node e = false -> (0 < n)%Z -> (l + n <= c)%Z ->
  lookup h a = Some (OArr dt cells) ->
  Z.to_nat (o + l) + Z.to_nat n <= length cells -> Z.to_nat off + Z.to_nat n <= length cells ->
  exists h' cells',
    internal_append e h (SHdr a o l c) a off n = Some (SHdr a o (l + n) c, h') /\
    lookup h' a = Some (OArr dt cells') /\ length cells' = length cells /\
    (forall p, nth_error cells' p =
               if (Nat.leb (Z.to_nat (o + l)) p && Nat.ltb p (Z.to_nat (o + l) + Z.to_nat n))%bool
               then nth_error cells (Z.to_nat off + (p - Z.to_nat (o + l))) else nth_error cells p) /\
    (forall x, x <> a -> lookup h' x = lookup h x).
Proof.
  intros En Hpos Hfit La Hd Hs.
  destruct (copy_array_leaf_total (copy e) h a dt cells _ _ _ La Hs Hd) as (h' & CA & F).
  destruct (copy_array_memmove (copy e) h a dt cells _ _ _ h' La Hs Hd CA) as (cells' & La' & Len & P).
  exists h', cells'. split; [|auto].
  unfold internal_append. destruct (Z.eqb_spec n 0); [lia|]. cbv zeta. simpl slen.
  unfold grow_slice, slice_array. rewrite La. simpl scap. destruct (Z.ltb_spec c (l + n)); [lia|].
  rewrite En, CA. reflexivity.
Qed.

Print Assumptions append_in_place_content_self_leaf.

(* ------------------------------------------------------------------ non-vacuity *)

(* the hypotheses of copy_array_overlap_nodes are satisfiable for every array/struct element type and every length:
   the zero value of [k]e in the empty heap *)
Theorem overlap_hypotheses_satisfiable e k :
  is_node e = true ->
  exists h a cells ds ns,
    wf h /\ lookup h a = Some (OArr false cells) /\ length cells = k /\
    RL h (repeat e (length cells)) cells ds ns /\ NoDup ns /\ ~ In a ns.
Proof.
  intro En. destruct (zero (TArr k e) empty_heap) as [v h] eqn:Z.
  destruct (zero_ok_all (TArr k e) empty_heap v h wf_empty Z) as (W & _ & _ & d & ns' & RV & DV & _).
  inversion RV as [| | |? ? a cells ds ns La RLa|]; subst.
  assert (is_num e = false) as Hnum by (destruct e; simpl in *; congruence).
  rewrite Hnum in La.
  destruct (RL_length _ _ _ _ _ RLa) as [Lc _]. rewrite repeat_length in Lc.
  apply NoDup_cons_iff in DV. destruct DV as [Hnot Hnd].
  exists h, a, cells, ds, ns. rewrite Lc. repeat split; auto.
Qed.

(* a concrete overlapping move of struct elements in both directions: contents move, element identities stay *)
Example overlap_nodes_evaluates :
  let e := TStruct [TNum; TArr 1 (TStruct [TScalar])] in
  let mk z i := [(i, OStruct [VNum z; VLoc (i + 1)]); (i + 1, OArr false [VLoc (i + 2)]); (i + 2, OStruct [VNum (z * 10)])] in
  let h := mkHeap (mk 1%Z 0 ++ mk 2%Z 3 ++ mk 3%Z 6 ++ [(9, OArr false [VLoc 0; VLoc 3; VLoc 6])]) 10 in
  let leaves h' := map (fun i => (lookup h' i, lookup h' (i + 2))) [0; 3; 6] in
  let exp x y z := map (fun v : Z => (Some (OStruct [VNum v; VLoc 0]), Some (OStruct [VNum (v * 10)]))) [x; y; z] in
  (* copy(s[0:2], s[1:3]): forwards *)
  match copy_array (copy e) true h 9 9 0 1 2 with
  | Some h' => lookup h' 9 = lookup h 9 /\
               map (fun p => match p with (Some (OStruct [v; _]), w) => (Some (OStruct [v; VLoc 0]), w) | q => q end) (leaves h')
               = exp 2%Z 3%Z 3%Z
  | None => False
  end /\
  (* copy(s[1:3], s[0:2]): backwards *)
  match copy_array (copy e) true h 9 9 1 0 2 with
  | Some h' => lookup h' 9 = lookup h 9 /\
               map (fun p => match p with (Some (OStruct [v; _]), w) => (Some (OStruct [v; VLoc 0]), w) | q => q end) (leaves h')
               = exp 1%Z 1%Z 2%Z
  | None => False
  end.
Proof. vm_compute. repeat split; reflexivity. Qed.

Print Assumptions overlap_hypotheses_satisfiable.
