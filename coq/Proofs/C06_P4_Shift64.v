(* C06 / P4 — the 64-bit shift helpers $shiftLeft64, $shiftRightInt64, $shiftRightUint64 are correct for
   every non-negative shift count (0, 1..31, 32..63, >= 64). *)
From Coq Require Import ZArith Znumtheory Bool List Lia ZifyBool.
From Verif Require Import Base.C06_JsNum Model.C06_Prelude64 Model.C06_Spec Gen.C06_Tables Model.C06_Templates
  Proofs.C06_Arith Proofs.C06_Fix Proofs.C06_AddMul32 Proofs.C06_Ops64 Proofs.C06_Mul64 Proofs.C06_Bits64 Proofs.C06_Shift32.
Import ListNotations.
Local Open Scope Z_scope.
Ltac Zify.zify_post_hook ::= Z.div_mod_to_equations.

(* ---- small facts ------------------------------------------------------------------ *)
Lemma js_seq_fin : forall a b, js_seq (Fin a) (Fin b) = Some (a =? b).
Proof. reflexivity. Qed.

Lemma to_int32_ex : forall z, exists c, to_int32 z = z + c * two32.
Proof.
  intro z. unfold to_int32. destruct (z mod two32 <? two31).
  - exists (- (z / two32)). unfold two32. lia.
  - exists (- (z / two32) - 1). unfold two32. lia.
Qed.

Lemma to_uint32_ex : forall z, exists c, to_uint32 z = z + c * two32.
Proof. intro z. exists (- (z / two32)). unfold to_uint32, two32. lia. Qed.

Lemma pow_split32 : forall n, 0 <= n <= 32 -> 2 ^ n * 2 ^ (32 - n) = two32.
Proof. intros n H. rewrite <- Z.pow_add_r by lia. replace (n + (32 - n)) with 32 by lia. reflexivity. Qed.

Lemma pow_pos2 : forall n, 0 <= n -> 0 < 2 ^ n.
Proof. intros; apply Z.pow_pos_nonneg; lia. Qed.

(* shl32 z j = z * 2^j + c * 2^32, a multiple of 2^j, in the int32 range *)
Lemma shl32_ex : forall z j, 0 <= j < 32 ->
  exists c a, shl32 z j = z * 2 ^ j + c * two32 /\ shl32 z j = a * 2 ^ j.
Proof.
  intros z j Hj. unfold shl32. rewrite cnt_small by assumption.
  destruct (to_int32_ex z) as [c0 E0]. destruct (to_int32_ex (to_int32 z * 2 ^ j)) as [c1 E1].
  pose proof (pow_split32 j ltac:(lia)) as PS.
  exists (c0 * 2 ^ j + c1). exists (to_int32 z + c1 * 2 ^ (32 - j)).
  rewrite E1, E0. rewrite <- PS. split; ring.
Qed.

(* or of a multiple of 2^j (int32 range) and a value below 2^j is their sum *)
Lemma or32_add : forall A b j, 0 <= j < 32 -> - two31 <= A < two31 -> (exists a, A = a * 2 ^ j) -> 0 <= b < 2 ^ j ->
  or32 A b = A + b.
Proof.
  intros A b j Hj RA [a EA] Hb. unfold or32.
  assert (2 ^ j <= 2 ^ 31) by (apply Z.pow_le_mono_r; lia). change (2 ^ 31) with two31 in *.
  rewrite (to_int32_id A) by assumption. rewrite (to_int32_id b) by (unfold two31 in *; lia).
  subst A. apply lor_shift_add; lia.
Qed.

Lemma or32_add' : forall A b j, 0 <= j < 32 -> - two31 <= A < two31 -> (exists a, A = a * 2 ^ j) -> 0 <= b < 2 ^ j ->
  or32 b A = A + b.
Proof.
  intros A b j Hj RA EA Hb. rewrite <- (or32_add A b j) by assumption. unfold or32. apply Z.lor_comm.
Qed.

Lemma shl32_range : forall z j, - two31 <= shl32 z j < two31.
Proof. intros; unfold shl32; apply to_int32_range. Qed.

Lemma ushr32_small : forall l j, 0 <= j < 32 -> 0 <= l < two32 -> ushr32 l j = l / 2 ^ j.
Proof. intros l j Hj Hl. unfold ushr32. rewrite cnt_small by assumption. rewrite to_uint32_id by assumption. apply Z.shiftr_div_pow2; lia. Qed.

Lemma shr32_small : forall h j, 0 <= j < 32 -> - two31 <= h < two31 -> shr32 h j = h / 2 ^ j.
Proof. intros h j Hj Hh. unfold shr32. rewrite cnt_small by assumption. rewrite to_int32_id by assumption. apply Z.shiftr_div_pow2; lia. Qed.

(* ---- << ---------------------------------------------------------------------------- *)
Lemma shl_lt32_value : forall h l n, 0 < n < 32 -> 0 <= l < two32 ->
  let HI := or32 (shl32 h n) (ushr32 l (32 - n)) in
  let LO := ushr32 (shl32 l n) 0 in
  (- two31 <= HI < two31) /\ (0 <= LO < two32) /\
  exists c, HI * two32 + LO = (h * two32 + l) * 2 ^ n + c * 2 ^ 64.
Proof.
  intros h l n Hn Hl HI LO.
  pose proof (pow_split32 n ltac:(lia)) as PS. pose proof (pow_pos2 n ltac:(lia)) as Pp. pose proof (pow_pos2 (32 - n) ltac:(lia)) as Pq.
  destruct (shl32_ex h n ltac:(lia)) as [c1 [a1 [E1 M1]]].
  assert (Hb : 0 <= ushr32 l (32 - n) < 2 ^ n).
  { rewrite ushr32_small by lia. set (p := 2 ^ n) in *. set (q := 2 ^ (32 - n)) in *. clearbody p q.
    split; [apply Z.div_pos; lia |]. apply Z.div_lt_upper_bound; lia. }
  assert (EH : HI = shl32 h n + ushr32 l (32 - n)).
  { unfold HI. apply (or32_add _ _ n); [lia | apply shl32_range | exists a1; exact M1 | exact Hb]. }
  assert (RH : - two31 <= HI < two31) by (unfold HI, or32; change two31 with (2 ^ (32 - 1)); apply lor_srange; [lia | apply to_int32_range | apply to_int32_range]).
  assert (EL : LO = (l mod 2 ^ (32 - n)) * 2 ^ n).
  { unfold LO. rewrite ushr32_0. unfold to_uint32.
    destruct (shl32_ex l n ltac:(lia)) as [c2 [a2 [E2 _]]]. rewrite E2.
    rewrite Z_mod_plus_full.
    set (p := 2 ^ n) in *. set (q := 2 ^ (32 - n)) in *.
    pose proof (Z.div_mod l q ltac:(lia)) as D. pose proof (Z.mod_pos_bound l q Pq) as B.
    set (r := l mod q) in *. set (d := l / q) in *. clearbody p q r d.
    rewrite D. replace ((q * d + r) * p) with (r * p + d * two32) by (rewrite <- PS; ring).
    rewrite Z_mod_plus_full. apply Z.mod_small. rewrite <- PS. nia. }
  split; [exact RH |]. split; [unfold LO; rewrite ushr32_0; apply to_uint32_range |].
  exists c1. rewrite EH, EL, E1. rewrite ushr32_small by lia.
  set (p := 2 ^ n) in *. set (q := 2 ^ (32 - n)) in *.
  pose proof (Z.div_mod l q ltac:(lia)) as D.
  set (r := l mod q) in *. set (d := l / q) in *. clearbody p q r d.
  rewrite D. change (2 ^ 64) with (two32 * two32). rewrite <- PS. ring.
Qed.

Lemma shl_ge32_value : forall h l n, 32 <= n < 64 ->
  let HI := shl32 l (n - 32) in
  (- two31 <= HI < two31) /\ exists c, HI * two32 + 0 = (h * two32 + l) * 2 ^ n + c * 2 ^ 64.
Proof.
  intros h l n Hn HI. split; [apply shl32_range |].
  destruct (shl32_ex l (n - 32) ltac:(lia)) as [c1 [a1 [E1 _]]]. unfold HI. rewrite E1.
  replace (2 ^ n) with (2 ^ (n - 32) * two32) by (rewrite two32_eq, <- Z.pow_add_r by lia; f_equal; lia).
  exists (c1 - h * 2 ^ (n - 32)). change (2 ^ 64) with (two32 * two32). ring.
Qed.

Lemma shl_ge64_value : forall x n, 64 <= n -> (x * 2 ^ n) mod 2 ^ 64 = 0.
Proof.
  intros x n Hn. replace n with ((n - 64) + 64) by lia. rewrite Z.pow_add_r by lia. rewrite Z.mul_assoc. apply Z_mod_mult.
Qed.

Lemma wrap_plus_mult64 : forall k a c, is64 k = true -> wrap k (a + c * 2 ^ 64) = wrap k a.
Proof.
  intros k a c H. apply wrap_congr. replace (bits k) with 64 by (destruct k; try discriminate H; reflexivity).
  apply Z_mod_plus_full.
Qed.

Lemma enc64_split : forall x, let h := x / two32 in let l := x mod two32 in x = h * two32 + l /\ 0 <= l < two32.
Proof. intro x. cbv zeta. unfold two32. lia. Qed.

Lemma shl64_correct : forall V k x n, is64 k = true -> in_range k x -> 0 <= n ->
  sh64 V k Shl (enc64 k x) (Fin n) = Ret (enc64 k (go_shift k Shl x n)).
Proof.
  intros V k x n H R Hn. cbn [sh64 go_shift]. f_equal. unfold enc64 at 1.
  destruct (enc64_split x) as [Ex Rl]. set (h := x / two32) in *. set (l := x mod two32) in *. clearbody h l.
  unfold shl64. rewrite js_seq_fin. destruct (Z.eqb_spec n 0) as [Z0 | NZ0].
  - subst n. rewrite Z.pow_0_r, Z.mul_1_r. rewrite wrap_id by assumption. unfold enc64. subst x.
    f_equal; unfold two32 in *; lia.
  - rewrite !js_lt_fin. destruct (Z.ltb_spec n 32) as [L32 | G32]; [| destruct (Z.ltb_spec n 64) as [L64 | G64]].
    + rewrite js_sub_fin by (unfold two53; lia). unfold js_or, js_shl, js_ushr, lift2; cbn [trunc_of].
      destruct (shl_lt32_value h l n ltac:(lia) Rl) as [RH [RL [c E]]]. cbv zeta in RH, RL, E.
      unfold new64. rewrite new64_norm by (unfold two31, two32, two53 in *; lia).
      rewrite k64_signed by assumption. f_equal. rewrite E, <- Ex. apply wrap_plus_mult64; assumption.
    + rewrite js_sub_fin by (unfold two53; lia). unfold js_shl, lift2; cbn [trunc_of].
      destruct (shl_ge32_value h l n ltac:(lia)) as [RH [c E]]. cbv zeta in RH, E.
      unfold new64. rewrite new64_norm by (unfold two31, two32, two53 in *; lia).
      rewrite k64_signed by assumption. f_equal. rewrite E, <- Ex. apply wrap_plus_mult64; assumption.
    + unfold new64. rewrite new64_norm by (unfold two31, two32, two53 in *; lia).
      rewrite k64_signed by assumption. f_equal. rewrite (wrap_zero_mod k (x * 2 ^ n)).
      * change (0 * two32 + 0) with 0. apply wrap_zero_mod. apply Z.mod_0_l. apply Z.pow_nonzero; [lia | pose proof (bits_pos k); lia].
      * replace (bits k) with 64 by (destruct k; try discriminate H; reflexivity). apply shl_ge64_value; assumption.
Qed.

(* ---- >> ---------------------------------------------------------------------------- *)
Lemma shr_lo_value : forall h l n, 0 < n < 32 -> 0 <= l < two32 ->
  ushr32 (or32 (ushr32 l n) (shl32 h (32 - n))) 0 = (h mod 2 ^ n) * 2 ^ (32 - n) + l / 2 ^ n.
Proof.
  intros h l n Hn Hl.
  pose proof (pow_split32 n ltac:(lia)) as PS. pose proof (pow_pos2 n ltac:(lia)) as Pp. pose proof (pow_pos2 (32 - n) ltac:(lia)) as Pq.
  destruct (shl32_ex h (32 - n) ltac:(lia)) as [c1 [a1 [E1 M1]]].
  assert (Hb : 0 <= ushr32 l n < 2 ^ (32 - n)).
  { rewrite ushr32_small by lia. set (p := 2 ^ n) in *. set (q := 2 ^ (32 - n)) in *. clearbody p q.
    split; [apply Z.div_pos; lia |]. apply Z.div_lt_upper_bound; lia. }
  rewrite (or32_add' _ _ (32 - n)); [| lia | apply shl32_range | exists a1; exact M1 | exact Hb].
  rewrite ushr32_0. unfold to_uint32. rewrite E1. rewrite ushr32_small in * by lia.
  set (p := 2 ^ n) in *. set (q := 2 ^ (32 - n)) in *. set (b := l / p) in *.
  pose proof (Z.div_mod h p ltac:(lia)) as D. pose proof (Z.mod_pos_bound h p Pp) as B.
  set (r := h mod p) in *. set (d := h / p) in *. clearbody p q r d b.
  replace (h * q + c1 * two32 + b) with (r * q + b + (d + c1) * two32) by (rewrite D, <- PS; ring).
  rewrite Z_mod_plus_full. apply Z.mod_small. rewrite <- PS. nia.
Qed.

Lemma shr_lt32_value : forall h l n, 0 < n < 32 ->
  (h / 2 ^ n) * two32 + ((h mod 2 ^ n) * 2 ^ (32 - n) + l / 2 ^ n) = (h * two32 + l) / 2 ^ n.
Proof.
  intros h l n Hn.
  pose proof (pow_split32 n ltac:(lia)) as PS. pose proof (pow_pos2 n ltac:(lia)) as Pp.
  set (p := 2 ^ n) in *. set (q := 2 ^ (32 - n)) in *.
  pose proof (Z.div_mod h p ltac:(lia)) as D. pose proof (Z.div_mod l p ltac:(lia)) as D2. pose proof (Z.mod_pos_bound l p Pp) as B2.
  set (r := h mod p) in *. set (d := h / p) in *. set (s := l mod p) in *. set (e := l / p) in *. clearbody p q r d s e.
  apply Z.div_unique with s; [left; exact B2 |]. rewrite <- PS. rewrite D at 1. rewrite D2 at 1. ring.
Qed.

Lemma div_pow_ge32 : forall h l n, 32 <= n -> 0 <= l < two32 -> (h * two32 + l) / 2 ^ n = h / 2 ^ (n - 32).
Proof.
  intros h l n Hn Hl. pose proof (pow_pos2 (n - 32) ltac:(lia)) as Pm.
  replace (2 ^ n) with (two32 * 2 ^ (n - 32)) by (rewrite two32_eq, <- Z.pow_add_r by lia; f_equal; lia).
  rewrite <- Z.div_div by (unfold two32; lia). f_equal.
  symmetry. apply Z.div_unique with l; [left; exact Hl | ring].
Qed.

Lemma shr_ge32_value : forall h l n, 32 <= n < 64 -> - two31 <= h < two31 -> 0 <= l < two32 ->
  shr32 h 31 * two32 + ushr32 (shr32 h (n - 32)) 0 = (h * two32 + l) / 2 ^ n.
Proof.
  intros h l n Hn Hh Hl. rewrite div_pow_ge32 by (assumption || lia).
  rewrite !shr32_small by (assumption || lia). rewrite ushr32_0. unfold to_uint32.
  pose proof (pow_pos2 (n - 32) ltac:(lia)) as Pm. set (m := 2 ^ (n - 32)) in *.
  pose proof (Z.div_mod h m ltac:(lia)) as D. pose proof (Z.mod_pos_bound h m Pm) as B.
  set (r := h mod m) in *. set (v := h / m) in *. clearbody m r v.
  change (2 ^ 31) with two31.
  destruct (Z_lt_le_dec h 0) as [Neg | Pos].
  - assert (E : h / two31 = -1) by (symmetry; apply Z.div_unique with (h + two31); [left; unfold two31 in *; lia | ring]).
    rewrite E. assert (Rv : - two31 <= v < 0) by nia.
    assert (E2 : v mod two32 = v + two32) by (symmetry; apply Z.mod_unique with (-1); [left; unfold two31, two32 in *; lia | ring]).
    rewrite E2. ring.
  - rewrite (Z.div_small h two31) by lia. assert (Rv : 0 <= v < two31) by nia.
    rewrite Z.mod_small by (unfold two31, two32 in *; lia). ring.
Qed.

Lemma ushr_ge32_value : forall h l n, 32 <= n < 64 -> 0 <= h < two32 -> 0 <= l < two32 ->
  0 * two32 + ushr32 h (n - 32) = (h * two32 + l) / 2 ^ n.
Proof.
  intros h l n Hn Hh Hl. rewrite div_pow_ge32 by (assumption || lia).
  rewrite ushr32_small by (assumption || lia). ring.
Qed.

Lemma shr_ge64_value : forall x n, 64 <= n -> - 2 ^ 63 <= x < 2 ^ 63 -> x / 2 ^ n = if x <? 0 then -1 else 0.
Proof.
  intros x n Hn Hx. assert (L : 2 ^ 64 <= 2 ^ n) by (apply Z.pow_le_mono_r; lia).
  change (2 ^ 64) with 18446744073709551616 in L. change (2 ^ 63) with 9223372036854775808 in Hx.
  set (p := 2 ^ n) in *. clearbody p.
  destruct (Z.ltb_spec x 0).
  - symmetry; apply Z.div_unique with (x + p); [left; lia | ring].
  - apply Z.div_small; lia.
Qed.

Lemma ushr_ge64_value : forall x n, 64 <= n -> 0 <= x < 2 ^ 64 -> x / 2 ^ n = 0.
Proof.
  intros x n Hn Hx. assert (L : 2 ^ 64 <= 2 ^ n) by (apply Z.pow_le_mono_r; lia).
  apply Z.div_small; lia.
Qed.

Lemma shr64_correct_s : forall tr x n, in_range Int64 x -> 0 <= n ->
  shr64 tr (enc64 Int64 x) (Fin n) = enc64 Int64 (Z.shiftr x n).
Proof.
  intros tr x n R Hn. pose proof (shiftr_in_range Int64 x n R Hn) as Rs.
  rewrite Z.shiftr_div_pow2 in * by assumption.
  assert (Rx : - 2 ^ 63 <= x < 2 ^ 63) by (apply (in_range_s Int64) in R; [exact R | reflexivity]).
  unfold enc64 at 1. cbn [signed].
  destruct (enc64_split x) as [Ex Rl]. set (h := x / two32) in *. set (l := x mod two32) in *.
  assert (Rh : - two31 <= h < two31) by (change (2 ^ 63) with 9223372036854775808 in Rx; unfold two31, two32 in *; lia).
  assert (Hneg : (h <? 0) = (x <? 0)) by (unfold two32 in *; lia).
  clearbody h l.
  unfold shr64. rewrite js_seq_fin. destruct (Z.eqb_spec n 0) as [Z0 | NZ0].
  - subst n. rewrite Z.pow_0_r, Z.div_1_r. unfold enc64; cbn [signed]. subst x.
    f_equal; unfold two32 in *; lia.
  - rewrite !js_lt_fin. destruct (Z.ltb_spec n 32) as [L32 | G32]; [| destruct (Z.ltb_spec n 64) as [L64 | G64]].
    + rewrite js_sub_fin by (unfold two53; lia). unfold js_or, js_shl, js_shr, js_ushr, lift2; cbn [trunc_of].
      rewrite shr_lo_value by (assumption || lia). rewrite shr32_small by (assumption || lia).
      pose proof (shr_lt32_value h l n ltac:(lia)) as E. rewrite <- Ex in E.
      assert (B : - two31 <= h / 2 ^ n < two31).
      { pose proof (pow_pos2 n Hn) as Pp. set (p := 2 ^ n) in *. clearbody p.
        split; [apply Z.div_le_lower_bound; nia | apply Z.div_lt_upper_bound; nia]. }
      assert (BL : 0 <= h mod 2 ^ n * 2 ^ (32 - n) + l / 2 ^ n < two32).
      { rewrite <- shr_lo_value by (assumption || lia). rewrite ushr32_0. apply to_uint32_range. }
      unfold new64. rewrite new64_norm by (unfold two31, two32, two53 in *; lia).
      cbn [k64]. rewrite E. rewrite wrap_id by assumption. reflexivity.
    + rewrite js_sub_fin by (unfold two53; lia). unfold js_shr, js_ushr, lift2; cbn [trunc_of].
      pose proof (shr_ge32_value h l n ltac:(lia) Rh Rl) as E. rewrite <- Ex in E.
      assert (B : - two31 <= shr32 h 31 < two31).
      { rewrite shr32_small by (assumption || lia). change (2 ^ 31) with two31. unfold two31 in *. lia. }
      assert (BL : 0 <= ushr32 (shr32 h (n - 32)) 0 < two32) by (rewrite ushr32_0; apply to_uint32_range).
      unfold new64. rewrite new64_norm by (unfold two31, two32, two53 in *; lia).
      cbn [k64]. rewrite E. rewrite wrap_id by assumption. reflexivity.
    + rewrite shr_ge64_value in * by assumption. rewrite Hneg. change (js_neg (Fin 1)) with (Fin (-1)).
      unfold new64. destruct (x <? 0); rewrite new64_norm by (unfold two32, two53; lia); cbn [k64].
      * change (-1 * two32 + 4294967295) with (-1). rewrite wrap_id by assumption. reflexivity.
      * change (0 * two32 + 0) with 0. rewrite wrap_id by assumption. reflexivity.
Qed.

Lemma ushr64_correct_u : forall tr x n, in_range Uint64 x -> 0 <= n ->
  ushr64 tr (enc64 Uint64 x) (Fin n) = enc64 Uint64 (Z.shiftr x n).
Proof.
  intros tr x n R Hn. pose proof (shiftr_in_range Uint64 x n R Hn) as Rs.
  rewrite Z.shiftr_div_pow2 in * by assumption.
  assert (Rx : 0 <= x < 2 ^ 64) by (apply (in_range_u Uint64) in R; [exact R | reflexivity]).
  unfold enc64 at 1. cbn [signed].
  destruct (enc64_split x) as [Ex Rl]. set (h := x / two32) in *. set (l := x mod two32) in *.
  assert (Rh : 0 <= h < two32) by (change (2 ^ 64) with 18446744073709551616 in Rx; unfold two32 in *; lia).
  clearbody h l.
  unfold ushr64. rewrite js_seq_fin. destruct (Z.eqb_spec n 0) as [Z0 | NZ0].
  - subst n. rewrite Z.pow_0_r, Z.div_1_r. unfold enc64; cbn [signed]. subst x.
    f_equal; unfold two32 in *; lia.
  - rewrite !js_lt_fin. destruct (Z.ltb_spec n 32) as [L32 | G32]; [| destruct (Z.ltb_spec n 64) as [L64 | G64]].
    + rewrite js_sub_fin by (unfold two53; lia). unfold js_or, js_shl, js_ushr, lift2; cbn [trunc_of].
      rewrite shr_lo_value by (assumption || lia). rewrite (ushr32_small h) by (assumption || lia).
      pose proof (shr_lt32_value h l n ltac:(lia)) as E. rewrite <- Ex in E.
      assert (B : 0 <= h / 2 ^ n < two32).
      { pose proof (pow_pos2 n Hn) as Pp. set (p := 2 ^ n) in *. clearbody p.
        split; [apply Z.div_pos; lia | apply Z.div_lt_upper_bound; nia]. }
      assert (BL : 0 <= h mod 2 ^ n * 2 ^ (32 - n) + l / 2 ^ n < two32).
      { rewrite <- shr_lo_value by (assumption || lia). rewrite ushr32_0. apply to_uint32_range. }
      unfold new64. rewrite new64_norm by (unfold two32, two53 in *; lia).
      cbn [k64]. rewrite E. rewrite wrap_id by assumption. reflexivity.
    + rewrite js_sub_fin by (unfold two53; lia). unfold js_ushr, lift2; cbn [trunc_of].
      pose proof (ushr_ge32_value h l n ltac:(lia) Rh Rl) as E. rewrite <- Ex in E.
      assert (BL : 0 <= ushr32 h (n - 32) < two32).
      { rewrite ushr32_small by (assumption || lia). pose proof (pow_pos2 (n - 32) ltac:(lia)) as Pp. set (p := 2 ^ (n - 32)) in *. clearbody p.
        split; [apply Z.div_pos; lia | apply Z.div_lt_upper_bound; nia]. }
      unfold new64. rewrite new64_norm by (unfold two32, two53 in *; lia).
      cbn [k64]. rewrite E. rewrite wrap_id by assumption. reflexivity.
    + rewrite ushr_ge64_value in * by assumption.
      unfold new64. rewrite new64_norm by (unfold two32, two53; lia); cbn [k64].
      change (0 * two32 + 0) with 0. rewrite wrap_id by assumption. reflexivity.
Qed.

Lemma shr64_correct : forall V k x n, is64 k = true -> in_range k x -> 0 <= n ->
  sh64 V k Shr (enc64 k x) (Fin n) = Ret (enc64 k (go_shift k Shr x n)).
Proof.
  intros V k x n H R Hn. destruct k; try discriminate H; cbn [sh64 signed go_shift]; f_equal.
  - apply shr64_correct_s; assumption.
  - apply ushr64_correct_u; assumption.
Qed.

Lemma go_shift64_in_range : forall k s x n, is64 k = true -> in_range k x -> 0 <= n -> in_range k (go_shift k s x n).
Proof. intros k s x n _ R Hn; destruct s; cbn [go_shift]; [apply in_range_wrap | apply shiftr_in_range; assumption]. Qed.
