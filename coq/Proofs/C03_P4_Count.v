(* C03 / P4 — the whole-scheduler counting invariant of $awakeGoroutines.
   awake st = #(goroutines that are not asleep) + #(pending Gosched timers), and the consequences for
   the deadlock report. *)
From Coq Require Import List NArith ZArith Bool Arith Lia ZifyNat ZifyBool.
From RecordUpdate Require Import RecordSet.
From Verif Require Import Model.C03_Chan Proofs.C03_Chan.
Import ListNotations RecordSetNotations.

Definition count_awake (gs : list gor) : nat := length (filter (fun x => negb (g_asleep x)) gs).
Definition count_twake (ts : list timer) : nat :=
  length (filter (fun t => match t with TWake _ => true | TRun _ => false end) ts).
Definition count_inv (st : state) : Prop :=
  awake st = (Z.of_nat (count_awake (gors st)) + Z.of_nat (count_twake (timers st)))%Z.
(* every queue entry belongs to an existing goroutine *)
Definition owners_in_range (st : state) : Prop :=
  forall c, (forall e, In e (c_sendq (get_chan st c)) -> sowner e < length (gors st)) /\
            (forall e, In e (c_recvq (get_chan st c)) -> rowner e < length (gors st)).

Definition bal (st : state) : Z :=
  (awake st - Z.of_nat (count_awake (gors st)) - Z.of_nat (count_twake (timers st)))%Z.

Lemma count_inv_bal st : count_inv st <-> bal st = 0%Z.
Proof. unfold count_inv, bal. lia. Qed.

(* ---------------------------------------------------------------- list lemmas *)
Definition b2n (b : bool) : nat := if b then 1 else 0.

Lemma count_awake_upd l : forall g x, g < length l ->
  count_awake (upd l g x) + b2n (negb (g_asleep (nth g l dead_gor))) = count_awake l + b2n (negb (g_asleep x)).
Proof.
  unfold count_awake. induction l as [|a l IH]; intros [|g] x L; simpl in *; try lia.
  - destruct (g_asleep a), (g_asleep x); simpl; lia.
  - specialize (IH g x ltac:(lia)). destruct (g_asleep a); simpl; lia.
Qed.

Lemma count_awake_app l x : count_awake (l ++ [x]) = count_awake l + b2n (negb (g_asleep x)).
Proof. unfold count_awake. rewrite filter_app, app_length. simpl. destruct (g_asleep x); simpl; lia. Qed.

Lemma count_twake_app ts t :
  count_twake (ts ++ [t]) = count_twake ts + match t with TWake _ => 1 | TRun _ => 0 end.
Proof. unfold count_twake. rewrite filter_app, app_length. destruct t; simpl; lia. Qed.

Lemma count_twake_remove_timer id ts : count_twake (remove_timer id ts) = count_twake ts.
Proof.
  unfold count_twake, remove_timer. induction ts as [|[i|g] ts IH]; simpl; auto.
  destruct (negb (i =? id)); simpl; auto.
Qed.

Lemma in_remove_timer id t ts : In t (remove_timer id ts) -> In t ts.
Proof. unfold remove_timer. intros H. apply filter_In in H. tauto. Qed.

Lemma count_awake_pos l g : g_asleep (nth g l dead_gor) = false -> 1 <= count_awake l.
Proof.
  unfold count_awake. revert g; induction l as [|a l IH]; intros [|g] H; simpl in *; try discriminate.
  - rewrite H. simpl. lia.
  - specialize (IH g H). destruct (g_asleep a); simpl; lia.
Qed.

Lemma count_awake_zero l : count_awake l = 0 -> forall g, g_asleep (nth g l dead_gor) = true.
Proof.
  intros Z g. destruct (g_asleep (nth g l dead_gor)) eqn:E; auto. apply count_awake_pos in E. lia.
Qed.

Lemma count_twake_zero ts : count_twake ts = 0 -> forall g, ~ In (TWake g) ts.
Proof.
  unfold count_twake. induction ts as [|[i|k] ts IH]; simpl; intros Z g H; auto.
  - destruct H as [H|H]; [discriminate|]. eapply IH; eauto.
  - discriminate.
Qed.

Lemma count_twake_none ts : (forall g, ~ In (TWake g) ts) -> count_twake ts = 0.
Proof.
  unfold count_twake. induction ts as [|[i|k] ts IH]; simpl; intros H; auto.
  - apply IH. intros g Hg. apply (H g). now right.
  - exfalso. apply (H k). now left.
Qed.

Lemma count_awake_none l : (forall g, g < length l -> g_asleep (nth g l dead_gor) = true) -> count_awake l = 0.
Proof.
  unfold count_awake. induction l as [|a l IH]; simpl; intros H; auto.
  pose proof (H 0 ltac:(lia)) as H0. simpl in H0. rewrite H0. simpl. apply IH.
  intros g Hg. apply (H (S g)). lia.
Qed.

Lemma asleep_in_range st g : g_asleep (get_g st g) = false -> g < length (gors st).
Proof.
  unfold get_g. intros H. destruct (Nat.lt_ge_cases g (length (gors st))); auto.
  rewrite nth_overflow in H; auto. discriminate.
Qed.

(* ---------------------------------------------------------------- the invariant threaded through one statement *)
(* [m h mf]: mode / halted / main_finished are left alone; every goroutine in [aw] stays awake *)
Record cinv (m : mode) (h : option outcome) (mf : bool) (aw : gid -> Prop) (st : state) : Prop := {
  ci_md : md st = m; ci_h : halted st = h; ci_mf : main_finished st = mf;
  ci_bal : bal st = 0%Z;
  ci_own : owners_in_range st;
  ci_tw : forall k, In (TWake k) (timers st) -> k < length (gors st);
  ci_sch : forall k, In k (scheduled st) -> k < length (gors st);
  ci_run : forall k, aw k -> g_asleep (get_g st k) = false }.

Lemma cinv_of_gors m h mf aw st st' :
  cinv m h mf aw st ->
  chans st' = chans st -> md st' = md st -> halted st' = halted st -> main_finished st' = main_finished st ->
  timers st' = timers st ->
  (awake st' - Z.of_nat (count_awake (gors st')) = awake st - Z.of_nat (count_awake (gors st)))%Z ->
  length (gors st) <= length (gors st') ->
  (forall k, In k (scheduled st') -> In k (scheduled st) \/ k < length (gors st')) ->
  (forall k, g_asleep (get_g st k) = false -> g_asleep (get_g st' k) = false) ->
  cinv m h mf aw st'.
Proof.
  intros [] Hc Hm Hh Hf Ht Hb Hl Hs Ha. constructor; try congruence.
  - unfold bal in *. rewrite Ht. lia.
  - intros c. unfold get_chan. rewrite Hc. destruct (ci_own0 c) as [A B]. split; intros e He.
    + specialize (A e He). lia.
    + specialize (B e He). lia.
  - intros k Hk. rewrite Ht in Hk. specialize (ci_tw0 k Hk). lia.
  - intros k Hk. destruct (Hs k Hk) as [H|H]; auto. specialize (ci_sch0 k H). lia.
  - auto.
Qed.

Lemma cinv_of_chans m h mf aw st st' :
  cinv m h mf aw st ->
  gors st' = gors st -> md st' = md st -> halted st' = halted st -> main_finished st' = main_finished st ->
  timers st' = timers st -> awake st' = awake st -> scheduled st' = scheduled st ->
  (forall c e, In e (c_sendq (get_chan st' c)) -> In e (c_sendq (get_chan st c)) \/ sowner e < length (gors st)) ->
  (forall c e, In e (c_recvq (get_chan st' c)) -> In e (c_recvq (get_chan st c)) \/ rowner e < length (gors st)) ->
  cinv m h mf aw st'.
Proof.
  intros [] Hg Hm Hh Hf Ht Ha Hs Hsq Hrq. constructor; try congruence.
  - unfold bal in *. rewrite Ht, Hg, Ha. lia.
  - intros c. rewrite Hg. destruct (ci_own0 c) as [A B]. split; intros e He.
    + destruct (Hsq c e He) as [H|H]; auto.
    + destruct (Hrq c e He) as [H|H]; auto.
  - rewrite Ht, Hg. auto.
  - rewrite Hs, Hg. auto.
  - unfold get_g. rewrite Hg. auto.
Qed.

Ltac gors_frame I :=
  eapply cinv_of_gors; [exact I|reflexivity|reflexivity|reflexivity|reflexivity|reflexivity|simpl|simpl|simpl|simpl].

(* ---------------------------------------------------------------- primitives *)
Lemma cinv_set_chan m h mf aw st c ch :
  cinv m h mf aw st ->
  (forall e, In e (c_sendq ch) -> sowner e < length (gors st)) ->
  (forall e, In e (c_recvq ch) -> rowner e < length (gors st)) ->
  cinv m h mf aw (set_chan st c ch).
Proof.
  intros I Hs Hr. eapply cinv_of_chans; eauto; intros c' e; rewrite get_set_chan;
    destruct (_ && _); auto.
Qed.

Lemma cinv_push_sendq m h mf aw st c e :
  cinv m h mf aw st -> sowner e < length (gors st) -> cinv m h mf aw (push_sendq st c e).
Proof.
  intros I L. unfold push_sendq. destruct (c_nil _); auto. apply cinv_set_chan; auto; simpl.
  - intros x Hx. apply in_app_or in Hx. destruct Hx as [Hx|[Hx|[]]]; subst; auto. apply (proj1 (ci_own _ _ _ _ _ I c)); auto.
  - apply (proj2 (ci_own _ _ _ _ _ I c)).
Qed.

Lemma cinv_push_recvq m h mf aw st c e :
  cinv m h mf aw st -> rowner e < length (gors st) -> cinv m h mf aw (push_recvq st c e).
Proof.
  intros I L. unfold push_recvq. destruct (c_nil _); auto. apply cinv_set_chan; auto; simpl.
  - apply (proj1 (ci_own _ _ _ _ _ I c)).
  - intros x Hx. apply in_app_or in Hx. destruct Hx as [Hx|[Hx|[]]]; subst; auto. apply (proj2 (ci_own _ _ _ _ _ I c)); auto.
Qed.

Lemma cinv_remove_entries m h mf aw g cs : forall i st,
  cinv m h mf aw st -> cinv m h mf aw (remove_entries g cs i st).
Proof.
  induction cs as [|[|c|c v] r IH]; intros i st I; simpl; auto; apply IH; apply cinv_set_chan; auto; simpl;
    intros e He; try apply remove_first_incl in He;
    first [apply (proj1 (ci_own _ _ _ _ _ I c)); assumption | apply (proj2 (ci_own _ _ _ _ _ I c)); assumption].
Qed.

Lemma cinv_remove_from_queues m h mf aw g st :
  cinv m h mf aw st -> cinv m h mf aw (remove_from_queues g st).
Proof. intros I. unfold remove_from_queues. destruct (g_blocked _) as [[]|]; auto using cinv_remove_entries. Qed.

Lemma cinv_set_g m h mf aw st g x :
  cinv m h mf aw st -> g_asleep x = g_asleep (get_g st g) -> cinv m h mf aw (set_g st g x).
Proof.
  intros I E. gors_frame I.
  - destruct (Nat.lt_ge_cases g (length (gors st))) as [L|L].
    + pose proof (count_awake_upd (gors st) g x L) as K. unfold get_g in E. rewrite E in K. lia.
    + rewrite upd_overflow; auto.
  - rewrite upd_length. lia.
  - auto.
  - intros k Hk. rewrite get_set_g. destruct (_ && _) eqn:B; auto.
    apply andb_prop in B. destruct B as [B _]. apply Nat.eqb_eq in B. subst. congruence.
Qed.

Lemma cinv_log m h mf aw g e st : cinv m h mf aw st -> cinv m h mf aw (log g e st).
Proof. intros I. gors_frame I; auto. Qed.

Lemma cinv_set_code m h mf aw g s st : cinv m h mf aw st -> cinv m h mf aw (set_code g s st).
Proof. intros I. unfold set_code. apply cinv_set_g; auto. Qed.

Lemma cinv_clear_wake m h mf aw g st : cinv m h mf aw st -> cinv m h mf aw (clear_wake g st).
Proof. intros I. unfold clear_wake. apply cinv_set_g; auto. Qed.

Lemma cinv_panic_g m h mf aw g k st : cinv m h mf aw st -> cinv m h mf aw (panic_g g k st).
Proof. intros I. unfold panic_g. apply cinv_set_code, cinv_log; auto. Qed.

Lemma cinv_schedule m h mf aw g st :
  cinv m h mf aw st -> g < length (gors st) -> cinv m h mf aw (schedule g st).
Proof.
  intros I L. unfold schedule. destruct (g_asleep (get_g st g)) eqn:E.
  - gors_frame I.
    + pose proof (count_awake_upd (gors st) g (get_g st g <| g_asleep := false |>) L) as K.
      unfold get_g in E. rewrite E in K. simpl in K. lia.
    + rewrite upd_length. lia.
    + intros k Hk. rewrite upd_length. apply in_app_or in Hk. destruct Hk as [Hk|[Hk|[]]]; subst; auto.
    + intros k Hk. change (g_asleep (get_g (set_g st g (get_g st g <| g_asleep := false |>)) k) = false).
      rewrite get_set_g. destruct (_ && _); auto.
  - gors_frame I; auto.
    intros k Hk. apply in_app_or in Hk. destruct Hk as [Hk|[Hk|[]]]; subst; auto.
Qed.

Lemma schedule_awake g st : g < length (gors st) -> g_asleep (get_g (schedule g st) g) = false.
Proof.
  intros L. unfold schedule. destruct (g_asleep (get_g st g)) eqn:E.
  - change (g_asleep (get_g (set_g st g (get_g st g <| g_asleep := false |>)) g) = false).
    rewrite get_set_g, Nat.eqb_refl. apply Nat.ltb_lt in L. rewrite L. reflexivity.
  - exact E.
Qed.

Lemma cinv_wake_up m h mf aw g w st :
  cinv m h mf aw st -> g < length (gors st) -> cinv m h mf aw (wake_up g w st).
Proof.
  intros I L. unfold wake_up. apply cinv_schedule.
  - apply cinv_set_g; auto using cinv_remove_from_queues.
  - simpl. rewrite upd_length, gors_remove_from_queues. auto.
Qed.

Lemma wake_up_awake g w st : g < length (gors st) -> g_asleep (get_g (wake_up g w st) g) = false.
Proof.
  intros L. unfold wake_up. apply schedule_awake. simpl. rewrite upd_length, gors_remove_from_queues. auto.
Qed.

Lemma cinv_invoke_recv m h mf aw st e v ok :
  cinv m h mf aw st -> rowner e < length (gors st) -> cinv m h mf aw (invoke_recv_entry st e v ok).
Proof. intros I L. destruct e; simpl in *; apply cinv_wake_up; auto. Qed.

Lemma cinv_invoke_send fx m h mf aw st c e cl :
  cinv m h mf aw st -> sowner e < length (gors st) -> cinv m h mf aw (sres_state (invoke_send_entry fx st c e cl)).
Proof.
  intros I L. destruct e; simpl in *; repeat match goal with |- context [if ?b then _ else _] => destruct b end;
    simpl; auto; apply cinv_wake_up; auto.
Qed.

(* ---------------------------------------------------------------- channel operations *)
Lemma cinv_set_chan_incl m h mf aw st c ch :
  cinv m h mf aw st ->
  incl (c_sendq ch) (c_sendq (get_chan st c)) -> incl (c_recvq ch) (c_recvq (get_chan st c)) ->
  cinv m h mf aw (set_chan st c ch).
Proof.
  intros I Hs Hr. apply cinv_set_chan; auto; intros e He.
  - apply (proj1 (ci_own _ _ _ _ _ I c)); auto.
  - apply (proj2 (ci_own _ _ _ _ _ I c)); auto.
Qed.

Lemma cinv_aw_range m h mf aw st g : cinv m h mf aw st -> aw g -> g < length (gors st).
Proof. intros I A. apply asleep_in_range. eapply ci_run; eauto. Qed.

Lemma cinv_do_send m h mf aw st g c v :
  cinv m h mf aw st -> aw g ->
  match do_send st g c v with
  | Done s | Panicked s _ => cinv m h mf aw s
  | Blocked s => exists s0, s = block g (BSend c v) s0 /\ cinv m h mf aw s0
  end.
Proof.
  intros I A. pose proof (cinv_aw_range _ _ _ _ _ _ I A) as L. unfold do_send. destruct (c_closed _); auto.
  destruct (c_recvq (get_chan st c)) as [|e q] eqn:Eq.
  - destruct (_ <? _).
    + apply cinv_set_chan_incl; auto; simpl; rewrite ?Eq; auto using incl_refl.
    + eexists; split; [reflexivity|]. apply cinv_push_sendq; auto.
  - apply cinv_invoke_recv.
    + apply cinv_set_chan_incl; auto; simpl; rewrite ?Eq; auto using incl_refl, incl_tl.
    + simpl. apply (proj2 (ci_own _ _ _ _ _ I c)). rewrite Eq. now left.
Qed.

Lemma cinv_recv_now fx m h mf aw st c :
  cinv m h mf aw st -> cinv m h mf aw (rnow_state (recv_now fx st c)).
Proof.
  intros I. unfold recv_now.
  assert (Tail : forall st2, cinv m h mf aw st2 -> cinv m h mf aw (rnow_state
     match c_buf (get_chan st2 c) with
      | [] => if c_closed (get_chan st2 c) then if c_nil (get_chan st2 c) then RThrow st2 PJsError else RNow st2 0%N false else RWait st2
      | v :: b => RNow (set_chan st2 c (get_chan st2 c <| c_buf := b |> <| c_rcv := c_rcv (get_chan st2 c) ++ [v] |>)) v true
      end)).
  { intros st2 I2. destruct (c_buf _).
    - destruct (c_closed _); [destruct (c_nil _)|]; auto.
    - simpl. apply cinv_set_chan_incl; auto; simpl; auto using incl_refl. }
  destruct (c_sendq (get_chan st c)) as [|e q] eqn:Eq.
  - apply Tail; auto.
  - pose proof (cinv_invoke_send fx m h mf aw (set_chan st c (get_chan st c <| c_sendq := q |>)) c e false) as K.
    destruct (invoke_send_entry _ _ _ _ _) as [st2 v'|st2 k]; simpl in K.
    + apply Tail. apply cinv_set_chan_incl; simpl; auto using incl_refl. apply K.
      * apply cinv_set_chan_incl; auto; simpl; rewrite ?Eq; auto using incl_refl, incl_tl.
      * apply (proj1 (ci_own _ _ _ _ _ I c)). rewrite Eq. now left.
    + simpl. apply K.
      * apply cinv_set_chan_incl; auto; simpl; rewrite ?Eq; auto using incl_refl, incl_tl.
      * apply (proj1 (ci_own _ _ _ _ _ I c)). rewrite Eq. now left.
Qed.

Lemma cinv_do_recv fx m h mf aw st g c :
  cinv m h mf aw st -> aw g ->
  match do_recv fx st g c with
  | RDone s _ _ | RPanicked s _ => cinv m h mf aw s
  | RBlocked s => exists s0, s = block g (BRecv c) s0 /\ cinv m h mf aw s0
  end.
Proof.
  intros I A. unfold do_recv. pose proof (cinv_recv_now fx m h mf aw st c I) as K.
  destruct (recv_now fx st c) as [s v ok|s|s k]; simpl in K; auto.
  eexists; split; [reflexivity|]. apply cinv_push_recvq; auto. simpl. eapply cinv_aw_range; eauto.
Qed.

Lemma cinv_close_senders fx m h mf aw c fuel : forall st,
  cinv m h mf aw st -> cinv m h mf aw (sres_state (close_senders fx fuel st c)).
Proof.
  induction fuel as [|f IH]; intros st I; simpl; auto.
  destruct (c_sendq (get_chan st c)) as [|e q] eqn:Eq; simpl; auto.
  pose proof (cinv_invoke_send fx m h mf aw (set_chan st c (get_chan st c <| c_sendq := q |>)) c e true) as K.
  assert (K' : cinv m h mf aw (sres_state (invoke_send_entry fx (set_chan st c (get_chan st c <| c_sendq := q |>)) c e true))).
  { apply K.
    - apply cinv_set_chan_incl; auto; simpl; rewrite ?Eq; auto using incl_refl, incl_tl.
    - apply (proj1 (ci_own _ _ _ _ _ I c)). rewrite Eq. now left. }
  destruct (invoke_send_entry _ _ _ _ _) as [st2 v'|st2 k]; simpl in *; auto.
Qed.

Lemma cinv_close_receivers m h mf aw c fuel : forall st,
  cinv m h mf aw st -> cinv m h mf aw (close_receivers fuel st c).
Proof.
  induction fuel as [|f IH]; intros st I; simpl; auto.
  destruct (c_recvq (get_chan st c)) as [|e q] eqn:Eq; simpl; auto.
  apply IH. apply cinv_invoke_recv.
  - apply cinv_set_chan_incl; auto; simpl; rewrite ?Eq; auto using incl_refl, incl_tl.
  - apply (proj2 (ci_own _ _ _ _ _ I c)). rewrite Eq. now left.
Qed.

Lemma cinv_do_close fx m h mf aw st c :
  cinv m h mf aw st -> cinv m h mf aw (opres_state (do_close fx st c)).
Proof.
  intros I. unfold do_close. destruct (_ && _); simpl; auto. destruct (c_closed _); simpl; auto.
  pose proof (cinv_close_senders fx m h mf aw c (length (c_sendq (get_chan st c))) (set_chan st c (get_chan st c <| c_closed := true |>))) as K.
  destruct (close_senders _ _ _ _) as [st2 v|st2 k]; simpl in *.
  - apply cinv_close_receivers. apply K. apply cinv_set_chan_incl; auto; simpl; auto using incl_refl.
  - apply K. apply cinv_set_chan_incl; auto; simpl; auto using incl_refl.
Qed.

Lemma cinv_sel_register m h mf aw g cs : forall i st,
  cinv m h mf aw st -> aw g -> cinv m h mf aw (sel_register g cs i st).
Proof.
  induction cs as [|[|c|c v] r IH]; intros i st I A; simpl; auto; apply IH; auto.
  - apply cinv_push_recvq; auto. simpl. eapply cinv_aw_range; eauto.
  - apply cinv_push_sendq; auto. simpl. eapply cinv_aw_range; eauto.
Qed.

(* a send that [sel_scan] found ready does not block *)
Definition send_ready (st : state) (cm : comm) : Prop :=
  match cm with
  | CSend c v => c_closed (get_chan st c) = false /\
                 (c_recvq (get_chan st c) <> [] \/ length (c_buf (get_chan st c)) < c_cap (get_chan st c))
  | _ => True
  end.

Lemma sel_scan_spec st cs : forall i sel ready sel' ready',
  sel_scan st cs i sel ready = Some (sel', ready') ->
  (forall j, In j ready' -> In j ready \/ (i <= j /\ send_ready st (nth (j - i) cs CDefault))) /\
  (forall j, sel' = Some j -> sel = Some j \/ (i <= j /\ nth (j - i) cs CDefault = CDefault)).
Proof.
  induction cs as [|cm r IH]; intros i sel ready sel' ready' H; simpl in H.
  - inversion H; subst. split; auto.
  - assert (Shift : forall j, S i <= j -> nth (j - i) (cm :: r) CDefault = nth (j - S i) r CDefault).
    { intros j Hj. replace (j - i) with (S (j - S i)) by lia. reflexivity. }
    destruct cm as [|c|c v].
    + apply IH in H. destruct H as [H1 H2]. split; intros j Hj.
      * destruct (H1 j Hj) as [K|[K1 K2]]; auto. right. rewrite Shift; auto. split; auto; lia.
      * destruct (H2 j Hj) as [K|[K1 K2]].
        -- inversion K; subst. right. split; auto. rewrite Nat.sub_diag. reflexivity.
        -- right. rewrite Shift; auto. split; auto; lia.
    + assert (G : forall rd, sel_scan st r (S i) sel rd = Some (sel', ready') -> incl rd ready \/ rd = ready ++ [i] ->
         (forall j, In j ready' -> In j ready \/ i <= j /\ send_ready st (nth (j - i) (CRecv c :: r) CDefault)) /\
         (forall j, sel' = Some j -> sel = Some j \/ i <= j /\ nth (j - i) (CRecv c :: r) CDefault = CDefault)).
      { intros rd Hrd Hincl. apply IH in Hrd. destruct Hrd as [H1 H2]. split; intros j Hj.
        - destruct (H1 j Hj) as [K|[K1 K2]].
          + destruct Hincl as [Hi|Hi]; [left; auto|]. subst rd. apply in_app_or in K.
            destruct K as [K|[K|[]]]; auto. subst j. right. rewrite Nat.sub_diag. simpl. auto.
          + right. rewrite Shift; auto. split; auto; lia.
        - destruct (H2 j Hj) as [K|[K1 K2]]; auto. right. rewrite Shift; auto. split; auto; lia. }
      destruct (_ || _); eapply G; eauto. left. apply incl_refl.
    + destruct (c_closed (get_chan st c)) eqn:Ec; [discriminate|].
      destruct (negb (length (c_recvq (get_chan st c)) =? 0) || (length (c_buf (get_chan st c)) <? c_cap (get_chan st c))) eqn:Er;
        apply IH in H; destruct H as [H1 H2]; split; intros j Hj.
      * destruct (H1 j Hj) as [K|[K1 K2]].
        -- apply in_app_or in K. destruct K as [K|[K|[]]]; auto. subst j. right. rewrite Nat.sub_diag. simpl.
           split; auto. split; auto. apply orb_prop in Er. destruct Er as [Er|Er].
           ++ left. destruct (c_recvq (get_chan st c)); simpl in Er; congruence.
           ++ right. now apply Nat.ltb_lt.
        -- right. rewrite Shift; auto. split; auto; lia.
      * destruct (H2 j Hj) as [K|[K1 K2]]; auto. right. rewrite Shift; auto. split; auto; lia.
      * destruct (H1 j Hj) as [K|[K1 K2]]; auto. right. rewrite Shift; auto. split; auto; lia.
      * destruct (H2 j Hj) as [K|[K1 K2]]; auto. right. rewrite Shift; auto. split; auto; lia.
Qed.

Lemma pick_index_lt k n : 0 < n -> pick_index k n < n.
Proof.
  intros Hn. unfold pick_index. apply Nat.div_lt_upper_bound; [lia|].
  pose proof (Nat.mod_upper_bound k 60 ltac:(lia)). nia.
Qed.

Lemma do_send_ready st g c v : send_ready st (CSend c v) ->
  match do_send st g c v with Blocked _ => False | _ => True end.
Proof.
  simpl. intros [Ec Hr]. unfold do_send. rewrite Ec. destruct (c_recvq (get_chan st c)) as [|e q]; auto.
  destruct Hr as [Hr|Hr]; [congruence|]. apply Nat.ltb_lt in Hr. rewrite Hr. auto.
Qed.

Definition selres_cinv m h mf aw (g : gid) (cs : list comm) (r : selres) : Prop :=
  match r with
  | SelDone s _ _ | SelPanicked s _ | SelOdd s => cinv m h mf aw s
  | SelBlocked s => exists s0, s = block g (BSel cs) s0 /\ cinv m h mf aw s0
  end.

Lemma cinv_do_select fx m h mf aw st g cs :
  cinv m h mf aw st -> aw g -> selres_cinv m h mf aw g cs (do_select fx st g cs).
Proof.
  intros I A. unfold do_select. destruct (sel_scan st cs 0 None []) as [[selection ready]|] eqn:Es; simpl; auto.
  apply sel_scan_spec in Es. destruct Es as [H1 H2].
  assert (Imm : forall st1 i, cinv m h mf aw st1 -> (forall c, get_chan st1 c = get_chan st c) ->
            send_ready st (nth i cs CDefault) -> selres_cinv m h mf aw g cs
            match nth i cs CDefault with
            | CDefault => SelDone st1 i None
            | CRecv c => match recv_now fx st1 c with
                         | RNow st2 v ok => SelDone st2 i (Some (v, ok))
                         | RWait st2 => SelOdd st2
                         | RThrow st2 k => SelPanicked st2 k
                         end
            | CSend c v => match do_send st1 g c v with
                           | Done st2 => SelDone st2 i None
                           | Blocked st2 => SelOdd st2
                           | Panicked st2 k => SelPanicked st2 k
                           end
            end).
  { intros st1 i I1 Hc Hr. destruct (nth i cs CDefault) as [|c|c v]; simpl; auto.
    - pose proof (cinv_recv_now fx m h mf aw st1 c I1) as K. destruct (recv_now fx st1 c); simpl in *; auto.
    - pose proof (cinv_do_send m h mf aw st1 g c v I1 A) as K.
      pose proof (do_send_ready st1 g c v) as R. simpl in R, Hr. rewrite !Hc in R. specialize (R Hr).
      destruct (do_send st1 g c v); simpl in *; auto. contradiction. }
  destruct ready as [|x ready].
  - destruct selection as [i|].
    + apply Imm; auto. destruct (H2 i eq_refl) as [K|[_ K]]; [discriminate|]. rewrite Nat.sub_0_r in K. rewrite K. exact Logic.I.
    + simpl. eexists; split; [reflexivity|]. apply cinv_sel_register; auto.
  - apply Imm.
    + gors_frame I; auto.
    + reflexivity.
    + match goal with |- context [nth ?p (x :: ready) 0] => set (j := nth p (x :: ready) 0) end.
      assert (Hj : In j (x :: ready)). { apply nth_In. apply pick_index_lt. simpl. lia. }
      destruct (H1 j Hj) as [[]|[_ K]]. rewrite Nat.sub_0_r in K. exact K.
Qed.

(* ---------------------------------------------------------------- the whole-scheduler invariant *)
Record sched_inv (st : state) : Prop := {
  si_count : count_inv st;
  si_own : owners_in_range st;
  si_tw : forall g, In (TWake g) (timers st) -> g < length (gors st);
  si_run : halted st = None -> forall g, md st = MRun g -> g < length (gors st);
  si_sch : forall g, In g (scheduled st) -> g < length (gors st);
  si_halt : halted st = None \/
            (halted st = Some ODeadlock /\ md st = MIdle /\ awake st = 0%Z /\ main_finished st = false);
  si_pos : halted st = None -> main_finished st = false -> (forall g, md st <> MRun g) -> (1 <= awake st)%Z }.

Lemma cinv_sched g mf aw st : cinv (MRun g) None mf aw st -> aw g -> sched_inv st.
Proof.
  intros I A. pose proof (cinv_aw_range _ _ _ _ _ _ I A) as L. destruct I. constructor; auto.
  - now apply count_inv_bal.
  - intros _ k Hk. congruence.
  - intros _ _ N. exfalso. apply (N g). auto.
Qed.

Lemma sched_cinv (aw : gid -> Prop) st :
  sched_inv st -> (forall k, aw k -> g_asleep (get_g st k) = false) ->
  cinv (md st) (halted st) (main_finished st) aw st.
Proof. intros [] A. constructor; auto. now apply count_inv_bal. Qed.

Lemma own_of s s' : owners_in_range s -> chans s' = chans s -> length (gors s) <= length (gors s') -> owners_in_range s'.
Proof.
  intros O Hc Hl c. unfold get_chan. rewrite Hc. destruct (O c) as [A B]. split; intros e He.
  - specialize (A e He). lia.
  - specialize (B e He). lia.
Qed.

Definition ytail (asl : bool) (st2 : state) : state :=
  if asl && negb (main_finished st2) && Z.eqb (awake st2) 0
  then st2 <| halted := Some ODeadlock |> <| md := MIdle |>
  else
    let b := hd false (breaks st2) in
    let st3 := st2 <| breaks := tl (breaks st2) |> in
    if b then end_pass st3 else st3 <| md := MPass |>.

Lemma yield_eq g st : yield g st =
  let x := get_g st g in
  let st1 := if g_exit x then set_g st g (x <| g_asleep := true |>) <| total := (total st - 1)%Z |> else st in
  let st2 := if g_asleep (get_g st1 g) then st1 <| awake := (awake st1 - 1)%Z |> else st1 in
  ytail (g_asleep (get_g st1 g)) st2.
Proof. reflexivity. Qed.

Lemma bal_nonneg s : bal s = 0%Z -> (0 <= awake s)%Z.
Proof. unfold bal. lia. Qed.

Lemma ytail_sched s2 :
  halted s2 = None -> owners_in_range s2 ->
  (forall k, In (TWake k) (timers s2) -> k < length (gors s2)) ->
  (forall k, In k (scheduled s2) -> k < length (gors s2)) ->
  bal s2 = 0%Z -> sched_inv (ytail true s2).
Proof.
  intros Hh Ho Ht Hs Hb. pose proof (bal_nonneg _ Hb) as Hn. unfold ytail.
  change (true && negb (main_finished s2)) with (negb (main_finished s2)).
  destruct (negb (main_finished s2) && (awake s2 =? 0)%Z) eqn:C.
  - apply andb_prop in C. destruct C as [C1 C2]. apply Z.eqb_eq in C2. apply negb_true_iff in C1.
    constructor; simpl; auto.
    + now apply count_inv_bal.
    + discriminate.
    + discriminate.
  - assert (P : main_finished s2 = false -> (1 <= awake s2)%Z).
    { intros M. rewrite M in C. simpl in C. apply Z.eqb_neq in C. lia. }
    destruct (hd false (breaks s2)); cbv zeta.
    + unfold end_pass. simpl. destruct (scheduled s2) eqn:Esch; constructor; simpl; auto; try discriminate.
      * unfold count_inv. simpl. rewrite count_twake_remove_timer. now apply count_inv_bal.
      * intros k Hk. apply in_remove_timer in Hk. auto.
      * rewrite Esch. auto.
      * now apply count_inv_bal.
      * rewrite Esch. auto.
    + constructor; simpl; auto; try discriminate.
      * now apply count_inv_bal.
Qed.

Lemma yield_sched g s :
  halted s = None -> g < length (gors s) -> owners_in_range s ->
  (forall k, In (TWake k) (timers s) -> k < length (gors s)) ->
  (forall k, In k (scheduled s) -> k < length (gors s)) ->
  g_asleep (get_g s g) || g_exit (get_g s g) = true ->
  bal s = (if g_asleep (get_g s g) then 1 else 0)%Z ->
  sched_inv (yield g s).
Proof.
  intros Hh L Ho Ht Hs Hor Hb. rewrite yield_eq. cbv zeta.
  destruct (g_exit (get_g s g)) eqn:Ex.
  - match goal with |- context [g_asleep (get_g ?s1 g)] => assert (E1 : g_asleep (get_g s1 g) = true) end.
    { unfold get_g. simpl. rewrite nth_upd, Nat.eqb_refl. apply Nat.ltb_lt in L. rewrite L. reflexivity. }
    rewrite E1. apply ytail_sched; simpl; auto.
    + eapply own_of; eauto. simpl. rewrite upd_length. lia.
    + rewrite upd_length. auto.
    + rewrite upd_length. auto.
    + unfold bal in *. simpl.
      pose proof (count_awake_upd (gors s) g (get_g s g <| g_asleep := true |>) L) as K. simpl in K.
      unfold get_g in Hb. destruct (g_asleep (nth g (gors s) dead_gor)); simpl in K; lia.
  - rewrite orb_false_r in Hor. rewrite Hor in *. apply ytail_sched; simpl; auto.
    unfold bal in *. simpl. lia.
Qed.

Lemma yield_block g b mf aw s0 :
  cinv (MRun g) None mf aw s0 -> aw g -> sched_inv (yield g (block g b s0)).
Proof.
  intros I A. pose proof (cinv_aw_range _ _ _ _ _ _ I A) as L. pose proof (ci_run _ _ _ _ _ I g A) as Ea.
  assert (Eg : get_g (block g b s0) g = get_g s0 g <| g_asleep := true |> <| g_blocked := Some b |>).
  { unfold block. rewrite get_set_g, Nat.eqb_refl. apply Nat.ltb_lt in L. rewrite L. reflexivity. }
  destruct I. apply yield_sched; auto; try rewrite Eg; simpl; auto; try rewrite upd_length; auto.
  - eapply own_of; eauto. simpl. rewrite upd_length. lia.
  - unfold bal in *. simpl.
    pose proof (count_awake_upd (gors s0) g (get_g s0 g <| g_asleep := true |> <| g_blocked := Some b |>) L) as K. simpl in K.
    unfold get_g in Ea. rewrite Ea in K. simpl in K. lia.
Qed.

Lemma yield_exit g mf aw s :
  cinv (MRun g) None mf aw s -> aw g -> g_exit (get_g s g) = true -> sched_inv (yield g s).
Proof.
  intros I A Ex. pose proof (cinv_aw_range _ _ _ _ _ _ I A) as L. pose proof (ci_run _ _ _ _ _ I g A) as Ea.
  destruct I. apply yield_sched; auto.
  - rewrite Ex. apply orb_true_r.
  - rewrite Ea. auto.
Qed.

Lemma cinv_mf m h mf aw b st : cinv m h mf aw st -> cinv m h b aw (st <| main_finished := b |>).
Proof. intros []. constructor; auto. Qed.

(* ---------------------------------------------------------------- one statement of a goroutine *)
Lemma cinv_spawn m h mf aw prog k st : cinv m h mf aw st -> cinv m h mf aw (spawn prog k st).
Proof.
  intros I. unfold spawn. apply cinv_schedule.
  - gors_frame I.
    + rewrite count_awake_app. simpl. lia.
    + rewrite app_length. lia.
    + auto.
    + intros j Hj. pose proof (asleep_in_range _ _ Hj) as L. unfold get_g in *. simpl. rewrite app_nth1; auto.
  - simpl. rewrite app_length. simpl. lia.
Qed.

Lemma cinv_gosched m h mf aw g st :
  cinv m h mf aw st -> g < length (gors st) ->
  cinv m h mf aw (st <| awake := (awake st + 1)%Z |> <| timers := timers st ++ [TWake g] |>).
Proof.
  intros [] L. constructor; simpl; auto.
  - unfold bal in *. simpl. rewrite count_twake_app. lia.
  - intros k Hk. apply in_app_or in Hk. destruct Hk as [Hk|[Hk|[]]]; auto. inversion Hk; subst; auto.
Qed.

Lemma step_goroutine_sched fx prog g st :
  sched_inv st -> halted st = None -> md st = MRun g -> g_asleep (get_g st g) = false ->
  sched_inv (step_goroutine fx prog g st).
Proof.
  intros S Hh Hm Ea. set (aw := fun k : gid => k = g).
  assert (I : cinv (MRun g) None (main_finished st) aw st).
  { pose proof (sched_cinv aw st S) as K. rewrite Hh, Hm in K. apply K. intros k ->. exact Ea. }
  assert (A : aw g) by reflexivity.
  pose proof (cinv_aw_range _ _ _ _ _ _ I A) as L.
  assert (Fin : forall s, cinv (MRun g) None (main_finished st) aw s -> sched_inv s) by (intros; eapply cinv_sched; eauto).
  assert (Ex : forall s, length (gors s) = length (gors st) -> g_exit (get_g (set_g s g (get_g st g <| g_exit := true |>)) g) = true).
  { intros s Hs. rewrite get_set_g, Nat.eqb_refl, Hs. apply Nat.ltb_lt in L. rewrite L. reflexivity. }
  unfold step_goroutine.
  destruct (g_code (get_g st g)) as [|o rest].
  { assert (I1 : cinv (MRun g) None (main_finished st) aw (set_g st g (get_g st g <| g_exit := true |>))) by (apply cinv_set_g; auto).
    destruct (Nat.eqb g 0).
    - eapply yield_exit; [eapply cinv_mf; exact I1 | exact A | apply (Ex st); reflexivity].
    - eapply yield_exit; [exact I1 | exact A | apply (Ex st); reflexivity]. }
  destruct (g_wake (get_g st g)) as [w|].
  { apply Fin. destruct o, w; try destruct closed; try destruct ok;
      auto using cinv_set_code, cinv_log, cinv_clear_wake, cinv_panic_g. }
  destruct o.
  - pose proof (cinv_do_send _ _ _ _ st g c v I A) as K. destruct (do_send st g c v).
    + apply Fin. auto using cinv_set_code, cinv_log.
    + destruct K as (s0 & -> & K). eapply yield_block; eauto.
    + apply Fin. auto using cinv_panic_g.
  - pose proof (cinv_do_recv fx _ _ _ _ st g c I A) as K. destruct (do_recv fx st g c).
    + apply Fin. auto using cinv_set_code, cinv_log.
    + destruct K as (s0 & -> & K). eapply yield_block; eauto.
    + apply Fin. auto using cinv_panic_g.
  - pose proof (cinv_do_close fx _ _ _ _ st c I) as K. destruct (do_close fx st c); simpl in K; apply Fin;
      auto using cinv_set_code, cinv_log, cinv_panic_g.
  - pose proof (cinv_do_select fx _ _ _ _ st g cs I A) as K. destruct (do_select fx st g cs); simpl in K.
    + apply Fin. auto using cinv_set_code, cinv_log.
    + destruct K as (s0 & -> & K). eapply yield_block; eauto.
    + apply Fin. auto using cinv_panic_g.
    + apply Fin. auto using cinv_set_code, cinv_log.
  - pose proof (cinv_do_recv fx _ _ _ _ st g c I A) as K. destruct (do_recv fx st g c).
    + apply Fin. auto using cinv_set_code, cinv_log.
    + destruct K as (s0 & -> & K). eapply yield_block; eauto.
    + apply Fin. auto using cinv_panic_g.
  - apply Fin, cinv_set_code, cinv_spawn, cinv_log. exact I.
  - eapply yield_block with (mf := main_finished st) (aw := aw); [apply cinv_gosched; auto | exact A].
  - eapply yield_exit; [apply cinv_set_g; [apply cinv_log; exact I | reflexivity] | exact A | apply (Ex (log g EvGoexit st)); reflexivity].
  - apply Fin. auto using cinv_set_code, cinv_log.
Qed.

(* ---------------------------------------------------------------- the event loop *)
Lemma start_pass_sched m mf aw s :
  cinv m None mf aw s -> (main_finished s = false -> (1 <= awake s)%Z) -> sched_inv (start_pass s).
Proof.
  intros [] P. unfold start_pass. constructor; simpl; auto; try discriminate.
  - unfold count_inv. simpl. rewrite count_twake_app. unfold bal in *. lia.
  - intros k Hk. apply in_app_or in Hk. destruct Hk as [Hk|[Hk|[]]]; auto. discriminate.
Qed.

Lemma fire_timer_sched st : sched_inv st -> halted st = None -> md st = MIdle -> sched_inv (fire_timer st).
Proof.
  intros S Hh Hm. unfold fire_timer. destruct (timers st) as [|[id|g] ts] eqn:Et; auto.
  - pose proof (sched_cinv (fun _ => False) st S ltac:(intros k [])) as I. rewrite Hh in I.
    eapply start_pass_sched with (aw := fun _ => False).
    + destruct I as [c1 c2 c3 cbalx c5 ctwx c7 c8]. constructor; simpl; eauto.
      * unfold bal in *. simpl. rewrite Et in *. simpl in *. auto.
      * intros k Hk. apply ctwx. rewrite Et. now right.
    + simpl. intros M. apply (si_pos _ S); auto. intros k. congruence.
  - pose proof (sched_cinv (fun _ => False) st S ltac:(intros k [])) as I. rewrite Hh in I.
    assert (L : g < length (gors st)). { apply (si_tw _ S). rewrite Et. now left. }
    assert (I1 : cinv (md st) None (main_finished st) (fun _ => False)
                   (wake_up g WTimer (st <| timers := ts |> <| awake := (awake st - 1)%Z |>))).
    { apply cinv_wake_up; auto. destruct I as [c1 c2 c3 cbalx c5 ctwx c7 c8]. constructor; simpl; eauto.
      - unfold bal in *. simpl. rewrite Et in cbalx. change (count_twake (TWake g :: ts)) with (Datatypes.S (count_twake ts)) in cbalx. lia.
      - intros k Hk. apply ctwx. rewrite Et. now right. }
    eapply start_pass_sched; eauto. intros _.
    set (s := wake_up g WTimer (st <| timers := ts |> <| awake := (awake st - 1)%Z |>)) in *.
    assert (W : 1 <= count_awake (gors s)).
    { apply (count_awake_pos (gors s) g). unfold s. apply wake_up_awake. exact L. }
    assert (B : (awake s - Z.of_nat (count_awake (gors s)) - Z.of_nat (count_twake (timers s)) = 0)%Z) by exact (ci_bal _ _ _ _ _ I1).
    lia.
Qed.

Lemma impl_step_sched fx prog st :
  sched_inv st -> (halted st = None -> forall g, md st = MRun g -> g_asleep (get_g st g) = false) ->
  sched_inv (impl_step fx prog st).
Proof.
  intros S R. unfold impl_step. destruct (halted st) eqn:Hh; auto. destruct (md st) eqn:Hm.
  - now apply fire_timer_sched.
  - destruct (scheduled st) as [|g q] eqn:Es.
    + unfold end_pass. rewrite Es. destruct S as [x1 x2 x3 x4 sschx x6 sposx]. constructor; simpl; auto; try discriminate;
        try (unfold count_inv in *; simpl; now rewrite count_twake_remove_timer);
        try (intros k Hk; apply in_remove_timer in Hk; auto; fail);
        try (rewrite ?Es; auto; fail);
        try (intros _ M _; apply sposx; auto; intros k; congruence).
    + destruct S as [x1 x2 x3 x4 sschx x6 sposx]. constructor; simpl; auto;
        try (intros _ k Hk; inversion Hk; subst; apply sschx; rewrite Es; now left);
        try (intros k Hk; apply sschx; rewrite Es; now right);
        try (intros _ _ N; exfalso; apply (N g); reflexivity).
  - apply step_goroutine_sched; auto.
Qed.

Lemma init_queues caps c :
  c_sendq (nth c (nil_chan :: map new_chan caps) nil_chan) = [] /\
  c_recvq (nth c (nil_chan :: map new_chan caps) nil_chan) = [].
Proof.
  destruct c as [|c]; simpl; auto. revert c; induction caps as [|a caps IH]; intros [|c]; simpl; auto.
Qed.

Lemma init_state_sched prog pk bk : sched_inv (init_state prog pk bk).
Proof.
  unfold init_state, start_pass. constructor; simpl; auto; try discriminate; try reflexivity; try lia.
  all: try (intros c; unfold get_chan; simpl chans; destruct (init_queues (p_caps prog) c) as [A B]; rewrite A, B; split; intros e []).
  all: try (intros g [H|[]]; try discriminate; subst; simpl; lia).
Qed.

(* ---------------------------------------------------------------- the theorems *)
(* The goroutine that is running is awake.  It follows from the queue-entry invariant (every queue entry
   and every Gosched timer belongs to a sleeping goroutine, at most one wake-up source fires per sleep),
   which is proved separately; here it is an explicit premise. *)
Definition running_awake (st : state) : Prop :=
  halted st = None -> forall g, md st = MRun g -> g_asleep (get_g st g) = false.

Theorem sched_inv_reachable_from fx prog st :
  (forall s, reachable fx prog s -> running_awake s) -> reachable fx prog st -> sched_inv st.
Proof.
  intros H R. induction R.
  - apply init_state_sched.
  - apply impl_step_sched; auto. apply H; auto.
Qed.

Theorem sched_inv_reachable fx prog st :
  fix_select_send fx = true -> (forall s, reachable fx prog s -> running_awake s) ->
  reachable fx prog st -> sched_inv st.
Proof. intros _. apply sched_inv_reachable_from. Qed.

Theorem counting_invariant fx prog st :
  fix_select_send fx = true -> (forall s, reachable fx prog s -> running_awake s) ->
  reachable fx prog st -> count_inv st.
Proof. intros F H R. apply (si_count _ (sched_inv_reachable fx prog st F H R)). Qed.

Theorem deadlock_report_only_if fx prog st :
  fix_select_send fx = true -> (forall s, reachable fx prog s -> running_awake s) -> reachable fx prog st ->
  halted st = Some ODeadlock ->
  main_finished st = false /\ (forall g, ~ In (TWake g) (timers st)) /\
  (forall g, g < length (gors st) -> g_asleep (get_g st g) = true) /\ md st = MIdle.
Proof.
  intros F H R Hd. destruct (sched_inv_reachable fx prog st F H R) as [C _ _ _ _ Hh _].
  destruct Hh as [Hn|(_ & Hm & Ha & Hf)]; [congruence|]. unfold count_inv in C. rewrite Ha in C.
  repeat split; auto.
  - apply count_twake_zero. lia.
  - intros g _. apply count_awake_zero. lia.
Qed.

Theorem deadlock_report_if fx prog st :
  fix_select_send fx = true -> (forall s, reachable fx prog s -> running_awake s) -> reachable fx prog st ->
  main_finished st = false -> (forall g, ~ In (TWake g) (timers st)) ->
  (forall g, g < length (gors st) -> g_asleep (get_g st g) = true) -> md st = MIdle ->
  halted st = Some ODeadlock.
Proof.
  intros F H R Hf Ht Hg Hm. destruct (sched_inv_reachable fx prog st F H R) as [C _ _ _ _ Hh P].
  destruct Hh as [Hn|(Hd & _)]; auto. exfalso.
  assert (P1 : (1 <= awake st)%Z). { apply P; auto. intros g. congruence. }
  unfold count_inv in C. rewrite (count_twake_none _ Ht), (count_awake_none (gors st) Hg) in C. lia.
Qed.
