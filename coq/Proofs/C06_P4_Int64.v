(* C06 phase 4 — / and % of the 64-bit kinds through $div64, and with them EVERY binary operator of
   int64/uint64 (closes C06_int64_full_statement). *)
From Coq Require Import ZArith Znumtheory Bool List Lia ZifyBool.
From Verif Require Import Base.C06_JsNum Model.C06_Prelude64 Model.C06_Spec Gen.C06_Tables Model.C06_Templates
  Proofs.C06_Arith Proofs.C06_Fix Proofs.C06_Ops64 Proofs.C06_Mul64 Proofs.C06_Bits64 Proofs.C06_Status
  Proofs.C06_P4_Div64a Proofs.C06_P4_Div64b.
Import ListNotations.
Local Open Scope Z_scope.

Lemma div64_throw : forall tr k x rem, div64 tr (enc64 k x) (enc64 k 0) rem = Throw DivideByZero.
Proof. intros. unfold enc64. change (0 / two32) with 0. change (0 mod two32) with 0. reflexivity. Qed.

Lemma quo64_correct : forall V k x y, is64 k = true -> in_range k x -> in_range k y ->
  bin64 V k Quo (enc64 k x) (enc64 k y) =
  match go_bin k Quo x y with GVal v => Ret (enc64 k v) | GPanicDivide => Throw DivideByZero end.
Proof.
  intros V k x y H Rx Ry. cbn [bin64 go_bin]. destruct (Z.eqb_spec y 0) as [-> | Hy].
  - apply div64_throw.
  - apply (div64_value (v_ctor V) k x y false); assumption.
Qed.

Lemma rem64_correct : forall V k x y, is64 k = true -> in_range k x -> in_range k y ->
  bin64 V k Rem (enc64 k x) (enc64 k y) =
  match go_bin k Rem x y with GVal v => Ret (enc64 k v) | GPanicDivide => Throw DivideByZero end.
Proof.
  intros V k x y H Rx Ry. cbn [bin64 go_bin]. destruct (Z.eqb_spec y 0) as [-> | Hy].
  - apply div64_throw.
  - rewrite (div64_value (v_ctor V) k x y true) by assumption.
    rewrite wrap_id; [reflexivity |].
    apply (go_bin_in_range k Rem x y); [assumption | assumption |].
    cbn [go_bin]. destruct (Z.eqb_spec y 0); [contradiction | reflexivity].
Qed.

(* MinInt64 / -1 and MinInt64 % -1 (the overflow case the Go specification singles out) *)
Lemma quo64_minint : forall V,
  bin64 V Int64 Quo (enc64 Int64 (-9223372036854775808)) (enc64 Int64 (-1)) = Ret (enc64 Int64 (-9223372036854775808)) /\
  bin64 V Int64 Rem (enc64 Int64 (-9223372036854775808)) (enc64 Int64 (-1)) = Ret (enc64 Int64 0).
Proof.
  intro V. split.
  - rewrite quo64_correct by (reflexivity || (unfold in_range; cbn; lia)). reflexivity.
  - rewrite rem64_correct by (reflexivity || (unfold in_range; cbn; lia)). reflexivity.
Qed.

Lemma bin64_full : forall V k o x y, is64 k = true -> in_range k x -> in_range k y ->
  bin64 V k o (enc64 k x) (enc64 k y) =
  match go_bin k o x y with GVal v => Ret (enc64 k v) | GPanicDivide => Throw DivideByZero end.
Proof.
  intros V k o x y H Rx Ry.
  destruct o; try (apply bin64_correct_partial; (assumption || discriminate)).
  - apply quo64_correct; assumption.
  - apply rem64_correct; assumption.
Qed.

(* both shifts of the 64-bit kinds, any count >= 0 (variable or constant count: the same helper call) *)
From Verif Require Import Proofs.C06_P4_Shift64.
Lemma sh64_correct : forall V k s x n, is64 k = true -> in_range k x -> 0 <= n ->
  sh64 V k s (enc64 k x) (Fin n) = Ret (enc64 k (go_shift k s x n)).
Proof. intros V k s x n H R Hn. destruct s; [apply shl64_correct | apply shr64_correct]; assumption. Qed.
Lemma sh64_const_correct : forall V k s c x, is64 k = true -> in_range k x -> 0 <= c ->
  sh64 V k s (enc64 k x) (Fin c) = Ret (enc64 k (go_shift k s x c)).
Proof. intros V k s c x. apply sh64_correct. Qed.
