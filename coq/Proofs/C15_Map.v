(* C15 — map_refines: every history of the emitted map operations on the JS representation answers
   like an abstract Go map (association by Go's ==); nil maps; hashable keys always have a key. *)
From Coq Require Import List ZArith NArith Bool Lia String.
From Verif Require Import Model.C15_Keys Model.C15_JsMap Proofs.C15_Escape Proofs.C15_Keys Proofs.C15_More.
Import ListNotations.
Local Open Scope N_scope.

(* ---------------------------------------------------------------- the JS Map without its tombstones *)
Section Live.
Variables KK E : Type.
Variable keq : KK -> KK -> bool.

Fixpoint l_get (l : list (KK * E)) (k : KK) : option E :=
  match l with [] => None | (k', e) :: r => if keq k' k then Some e else l_get r k end.
Fixpoint l_set (l : list (KK * E)) (k : KK) (e : E) : list (KK * E) :=
  match l with
  | [] => [(k, e)]
  | (k', e') :: r => if keq k' k then (k', e) :: r else (k', e') :: l_set r k e
  end.
Fixpoint l_del (l : list (KK * E)) (k : KK) : list (KK * E) :=
  match l with [] => [] | (k', e') :: r => if keq k' k then r else (k', e') :: l_del r k end.

Lemma live_get : forall m k, m_get keq m k = l_get (m_live m) k.
Proof. induction m as [|[[k' e']|] m IH]; intros k; cbn; auto. destruct (keq k' k); auto. Qed.
Lemma live_set : forall m k e, m_live (m_set keq m k e) = l_set (m_live m) k e.
Proof. induction m as [|[[k' e']|] m IH]; intros k e; cbn; auto. destruct (keq k' k); cbn; auto. now rewrite IH. Qed.
Lemma live_del : forall m k, m_live (m_delete keq m k) = l_del (m_live m) k.
Proof. induction m as [|[[k' e']|] m IH]; intros k; cbn; auto. destruct (keq k' k); cbn; auto. now rewrite IH. Qed.
Lemma live_size : forall m : jsmap KK E, m_size m = List.length (m_live m).
Proof. induction m as [|[[k' e']|] m IH]; cbn; auto. Qed.
End Live.
Arguments l_get {KK E}. Arguments l_set {KK E}. Arguments l_del {KK E}.

Lemma forall2_length : forall {A B} (P : A -> B -> Prop) l l', Forall2 P l l' -> List.length l = List.length l'.
Proof. intros A B P l l' H. induction H; cbn; congruence. Qed.

Lemma jskey_eqb_true : forall a b, jskey_eqb a b = true -> a = b.
Proof.
  intros [x|x|x] [y|y|y] H; cbn in H; try discriminate.
  - apply Z.eqb_eq in H. now subst.
  - apply eqb_prop in H. now subst.
  - apply str_eqb_eq in H. now subst.
Qed.

Lemma jskey_eqb_spec : forall a b, jskey_eqb a b = true <-> a = b.
Proof.
  intros a b. split; [apply jskey_eqb_true|]. intros <-. destruct a as [x|x|x]; cbn.
  - apply Z.eqb_refl.
  - destruct x; reflexivity.
  - now apply str_eqb_eq.
Qed.

(* ---------------------------------------------------------------- the abstract Go map *)
Definition amap := list (val * Z).

Section Refines.
Variable nts : Z -> str.
Variable by_id : bool.
Hypothesis nts_inj : forall x y, is_zero_bits x = false -> is_zero_bits y = false -> nts x = nts y -> x = y.
Hypothesis nts_nonzero : forall x, is_zero_bits x = false -> nts x <> of_string "0".
Hypothesis nts_not_nan : forall x, nts x <> of_string "NaN".
Hypothesis nts_plain : forall x, plain (nts x).
Variable t : kty.                       (* the map's key type, comparable *)
Hypothesis t_comparable : comparable t = true.
Variable D : list dyn.                  (* the dynamic types that occur *)
Hypothesis D_ok : univ_ok by_id D.

Notation K := (key_for nts by_id).

Fixpoint a_find (m : amap) (k : val) : option Z :=
  match m with [] => None | (k', v) :: r => if go_eq t k' k then Some v else a_find r k end.
Fixpoint a_set (m : amap) (k : val) (v : Z) : amap :=
  match m with
  | [] => [(k, v)]
  | (k', v') :: r => if go_eq t k' k then (k, v) :: r else (k', v') :: a_set r k v
  end.
Fixpoint a_del (m : amap) (k : val) : amap :=
  match m with [] => [] | (k', v') :: r => if go_eq t k' k then r else (k', v') :: a_del r k end.

(* Go's semantics of one operation on a map value (None = nil map); a panic leaves the map as it is *)
Definition a_step (o : op) (m : option amap) : obs * option amap :=
  match o with
  | OSet k v => match m with
                | None => (RNilMapPanic, m)
                | Some a => if hashable t k then (RUnit, Some (a_set a k v)) else (RNoKeyFor, m)
                end
  | OGet k => if hashable t k
              then (RVal (match m with None => 0%Z | Some a => match a_find a k with Some v => v | None => 0%Z end end), m)
              else (RNoKeyFor, m)
  | OGet2 k => if hashable t k
               then (match m with
                     | None => RVal2 0 false
                     | Some a => match a_find a k with Some v => RVal2 v true | None => RVal2 0 false end
                     end, m)
               else (RNoKeyFor, m)
  | ODel k => if hashable t k
              then (RUnit, match m with None => None | Some a => Some (a_del a k) end)
              else (RNoKeyFor, m)
  | OLen => (RLen (match m with None => 0 | Some a => N.of_nat (List.length a) end), m)
  | OLit kvs => if forallb (fun kv => hashable t (fst kv)) kvs
                then (RUnit, Some (fold_left (fun a kv => a_set a (fst kv) (snd kv)) kvs []))
                else (RNoKeyFor, m)
  | OMakeNil => (RUnit, None)
  end.

Definition contents (m : option amap) : amap := match m with None => [] | Some a => a end.

Fixpoint a_run (os : list op) (m : option amap) : list (obs * amap) :=
  match os with
  | [] => []
  | o :: r => let (ob, m') := a_step o m in (ob, contents m') :: a_run r m'
  end.

(* ---- key values the theorem speaks about *)
Definition kok (k : val) : Prop :=
  wt t k = true /\ incl (dyns k) D.

Definition op_ok (o : op) : Prop :=
  match o with
  | OSet k _ | OGet k | OGet2 k | ODel k => kok k
  | OLit kvs => Forall (fun kv => kok (fst kv)) kvs
  | _ => True
  end.

(* ---- hashable keys have a key *)
Lemma hashable_has_key : forall x ty s,
  wt ty x = true -> comparable ty = true -> hashable ty x = true -> exists k s', K ty x s = (Some k, s').
Proof.
  induction x using val_ind'; intros ty u W C Hh; destruct ty; cbn in W; try discriminate W;
    cbn in C; try discriminate C; try (cbn; eauto; fail).
  - cbn [key_for]. destruct (float_key nts f u); eauto.
  - cbn [key_for]. destruct (float_key nts r u) as [? u1]. destruct (float_key nts i u1). eauto.
  - cbn [key_for]. destruct (id_key r u); eauto.
  - (* dyn *) cbn [hashable] in Hh. apply andb_true_iff in Hh as [C' Hh].
    rewrite K_dyn. rewrite C'. destruct (IHx (d_shape d) u W C' Hh) as (k & s' & ->). eauto.
  - (* array *)
    cbn [hashable] in Hh. apply andb_true_iff in W as [_ W]. rewrite K_arr. rewrite C.
    enough (E : exists ks s', keys_arr (fun x s => K ty x s) (fun _ k => escape (key_str k)) l u = (Some ks, s')).
    { destruct E as (ks & s' & ->). eauto. }
    revert u W Hh. induction H as [|x l Hx _ IH]; intros u W Hh; cbn [keys_arr]; [eauto|].
    cbn [all1] in W, Hh. apply andb_true_iff in W as [Wx W]. apply andb_true_iff in Hh as [Hx' Hh].
    destruct (Hx ty u Wx C Hx') as (k & s1 & ->). destruct (IH s1 W Hh) as (ks & s2 & ->). eauto.
  - (* struct *)
    cbn [hashable] in Hh. rewrite K_struct.
    enough (E : exists ks s', keys_struct (fun ft x s => K ft x s) (fun k => escape (key_str k)) fs l u = (Some ks, s')).
    { destruct E as (ks & s' & ->). eauto. }
    revert fs u W C Hh. induction H as [|x l Hx _ IH]; intros fs u W C Hh.
    + destruct fs as [|[[|] ?] ?]; [cbn; eauto | discriminate W | discriminate W].
    + destruct fs as [|[bl ft] fs]; [discriminate W|].
      cbn [fields1] in W. apply andb_true_iff in W as [Wx W].
      apply andb_true_iff in C as [Cx C]. cbn [keys_struct]. destruct bl; cbn [fieldsnb] in Hh.
      * exact (IH fs u W C Hh).
      * apply andb_true_iff in Hh as [Hx' Hh].
        destruct (Hx ft u Wx Cx Hx') as (k & s1 & ->). destruct (IH fs s1 W C Hh) as (ks & s2 & ->). eauto.
Qed.

(* ---- the refinement relation: the live slots, in order, are the abstract entries, and every JS
   key is the key computed for the stored Go key at some earlier moment *)
Definition slot_rel (s : st) (js : jskey * entry) (a : val * Z) : Prop :=
  snd js = a /\ kok (fst a) /\
  exists sa sb, wf sa /\ K t (fst a) sa = (Some (fst js), sb) /\ sle sb s.

Definition R (s : st) (l : list (jskey * entry)) (am : amap) : Prop := Forall2 (slot_rel s) l am.

Lemma R_mono : forall s s' l am, sle s s' -> R s l am -> R s' l am.
Proof.
  intros s s' l am L H. induction H as [|js a l am (E & Kk & sa & sb & W & HK & Lb) _ IH]; constructor; auto.
  split; [auto|]. split; [auto|]. exists sa, sb. split; [exact W|]. split; [exact HK|]. eapply sle_trans; eauto.
Qed.

Lemma R_contents : forall s l am, R s l am -> map snd l = am.
Proof. intros s l am H. induction H as [|js a l am (E & _) _ IH]; [reflexivity|]. cbn [map]. now rewrite E, IH. Qed.

Lemma slot_eqb : forall s js a k key s', wf s -> slot_rel s js a -> kok k -> K t k s = (Some key, s') ->
  jskey_eqb (fst js) key = go_eq t (fst a) k.
Proof.
  intros s js a k key s' W (E & (Wa & Ia) & sa & sb & Wsa & HK & L) (Wk & Ik) HK2.
  apply eq_true_iff_eq.
  exact (key_iff_eq nts by_id nts_inj nts_nonzero nts_not_nan nts_plain t (fst a) k D sa (fst js) sb s key s'
                    D_ok Ia Ik Wa Wk Wsa HK L W HK2).
Qed.

Lemma R_get : forall s l am k key s', wf s -> R s l am -> kok k -> K t k s = (Some key, s') ->
  option_map snd (l_get jskey_eqb l key) = a_find am k.
Proof.
  intros s l am k key s' W H Kk HK. induction H as [|[jk [k0 v0]] [k1 v1] l am Hs _ IH]; [reflexivity|].
  cbn [l_get a_find]. pose proof (slot_eqb _ _ _ _ _ _ W Hs Kk HK) as E. cbn [fst] in E.
  destruct Hs as (Es & _). cbn [snd] in Es. injection Es as <- <-.
  rewrite E. destruct (go_eq t k0 k); [reflexivity | exact IH].
Qed.

Lemma R_set : forall s l am k v key s', wf s -> R s l am -> kok k -> K t k s = (Some key, s') ->
  R s' (l_set jskey_eqb l key (k, v)) (a_set am k v).
Proof.
  intros s l am k v key s' W H Kk HK.
  destruct (K_mono nts by_id _ _ _ _ _ W HK) as [W' L].
  induction H as [|[jk [k0 v0]] [k1 v1] l am Hs Hr IH].
  - cbn. constructor; [|constructor]. split; [reflexivity|]. split; [exact Kk|].
    exists s, s'. split; [exact W|]. split; [exact HK | apply sle_refl].
  - cbn [l_set a_set]. pose proof (slot_eqb _ _ _ _ _ _ W Hs Kk HK) as E. cbn [fst] in E.
    pose proof Hs as (Es & _). cbn [snd] in Es. injection Es as <- <-.
    rewrite E. destruct (go_eq t k0 k) eqn:G.
    + constructor; [|eapply R_mono; eauto].
      apply jskey_eqb_true in E. subst jk.
      split; [reflexivity|]. split; [exact Kk|]. exists s, s'. split; [exact W|]. split; [exact HK | apply sle_refl].
    + constructor; [|exact IH].
      destruct Hs as (Es & Kk0 & sa & sb & Wsa & HK0 & Lb).
      split; [exact Es|]. split; [exact Kk0|]. exists sa, sb. split; [exact Wsa|]. split; [exact HK0|]. eapply sle_trans; eauto.
Qed.

Lemma R_del : forall s l am k key s', wf s -> R s l am -> kok k -> K t k s = (Some key, s') ->
  R s' (l_del jskey_eqb l key) (a_del am k).
Proof.
  intros s l am k key s' W H Kk HK.
  destruct (K_mono nts by_id _ _ _ _ _ W HK) as [W' L].
  induction H as [|[jk [k0 v0]] [k1 v1] l am Hs Hr IH]; [constructor|].
  cbn [l_del a_del]. pose proof (slot_eqb _ _ _ _ _ _ W Hs Kk HK) as E. cbn [fst] in E.
  pose proof Hs as (Es & _). cbn [snd] in Es. injection Es as <- <-.
  rewrite E. destruct (go_eq t k0 k).
  - eapply R_mono; eauto.
  - constructor; [|exact IH]. eapply (R_mono s s' [_] [_]) in L; [inversion L; eauto|]. constructor; [exact Hs|constructor].
Qed.

Definition Rm (s : st) (m : gomap) (am : option amap) : Prop :=
  match m, am with
  | None, None => True
  | Some jm, Some a => R s (m_live jm) a
  | _, _ => False
  end.

Lemma Rm_mono : forall s s' m am, sle s s' -> Rm s m am -> Rm s' m am.
Proof. intros s s' [jm|] [a|] L H; cbn in *; auto. eapply R_mono; eauto. Qed.

Lemma Rm_contents : forall s m am, Rm s m am -> map snd (live_of m) = contents am.
Proof. intros s [jm|] [a|] H; cbn in *; try contradiction; auto. eapply R_contents; eauto. Qed.

(* the key of an operation: hashable -> computed, unhashable -> keyFor throws *)
Lemma key_cases : forall k s, kok k -> wf s ->
  (hashable t k = true /\ exists key s', K t k s = (Some key, s') /\ wf s' /\ sle s s') \/
  (hashable t k = false /\ exists s', K t k s = (None, s') /\ wf s' /\ sle s s').
Proof.
  intros k s (Wk & Ik) W. destruct (hashable t k) eqn:Hh.
  - left. split; [reflexivity|]. destruct (hashable_has_key k t s Wk t_comparable Hh) as (key & s' & E).
    exists key, s'. split; [exact E|]. eapply K_mono; eauto.
  - right. split; [reflexivity|]. pose proof (unhashable_throws nts by_id k t s Wk t_comparable Hh) as E.
    destruct (K t k s) as [[key|] s'] eqn:E'; [discriminate E|]. exists s'. split; [reflexivity|]. eapply K_mono; eauto.
Qed.

Lemma make_map_refines : forall kvs jm a s, wf s -> R s (m_live jm) a -> Forall (fun kv => kok (fst kv)) kvs ->
  match make_map nts by_id t kvs jm s with
  | (Some jm', s') => forallb (fun kv => hashable t (fst kv)) kvs = true /\ wf s' /\ sle s s' /\
                      R s' (m_live jm') (fold_left (fun a kv => a_set a (fst kv) (snd kv)) kvs a)
  | (None, s') => forallb (fun kv => hashable t (fst kv)) kvs = false /\ wf s' /\ sle s s'
  end.
Proof.
  induction kvs as [|[k v] kvs IH]; intros jm a s W HR HF.
  - cbn. split; [reflexivity|]. split; [exact W|]. split; [apply sle_refl | exact HR].
  - inversion HF as [|? ? Kk HF']; subst. cbn [fst] in Kk. cbn [make_map forallb fold_left fst snd]. unfold kf.
    destruct (key_cases k s Kk W) as [(Hh & key & s1 & E & W1 & L1) | (Hh & s1 & E & W1 & L1)]; rewrite E, Hh; cbn [andb].
    + assert (HR1 : R s1 (m_live (m_set jskey_eqb jm key (k, v))) (a_set a k v)).
      { rewrite live_set. exact (R_set s (m_live jm) a k v key s1 W HR Kk E). }
      specialize (IH (m_set jskey_eqb jm key (k, v)) (a_set a k v) s1 W1 HR1 HF').
      destruct (make_map nts by_id t kvs (m_set jskey_eqb jm key (k, v)) s1) as [[jm'|] s2].
      * destruct IH as (A & B & C & Dd). split; [exact A|]. split; [exact B|]. split; [eapply sle_trans; eauto | exact Dd].
      * destruct IH as (A & B & C). split; [exact A|]. split; [exact B|]. eapply sle_trans; eauto.
    + split; [reflexivity|]. split; assumption.
Qed.

Lemma step_refines : forall o m am s ob m' s',
  wf s -> Rm s m am -> op_ok o -> step nts by_id t o m s = (ob, m', s') ->
  wf s' /\ sle s s' /\ exists am', a_step o am = (ob, am') /\ Rm s' m' am'.
Proof.
  intros o m am s ob m' s' W HR Hok Hs. destruct o as [k v|k|k|k| |kvs| ]; cbn [step a_step op_ok] in *; unfold kf in Hs.
  - (* set *)
    destruct m as [jm|]; destruct am as [a|]; cbn [Rm] in HR; try contradiction.
    + destruct (key_cases k s Hok W) as [(Hh & key & s1 & E & W1 & L1) | (Hh & s1 & E & W1 & L1)]; rewrite E in Hs; rewrite Hh;
        injection Hs as <- <- <-; refine (conj W1 (conj L1 _)); eexists; (split; [reflexivity|]); cbn [Rm].
      * rewrite live_set. exact (R_set s (m_live jm) a k v key s1 W HR Hok E).
      * exact (R_mono s s1 _ _ L1 HR).
    + injection Hs as <- <- <-. refine (conj W (conj (sle_refl _) _)). eexists; split; [reflexivity | exact I].
  - (* get *)
    destruct (key_cases k s Hok W) as [(Hh & key & s1 & E & W1 & L1) | (Hh & s1 & E & W1 & L1)]; rewrite E in Hs; rewrite Hh.
    + destruct m as [jm|]; destruct am as [a|]; cbn [Rm] in HR; try contradiction.
      * pose proof (R_get _ _ _ _ _ _ W HR Hok E) as G. rewrite <- live_get in G.
        destruct (m_get jskey_eqb jm key) as [[k0 v0]|]; cbn [option_map snd] in G; rewrite <- G;
          injection Hs as <- <- <-; refine (conj W1 (conj L1 _)); eexists; (split; [reflexivity|]); cbn [Rm]; exact (R_mono s s1 _ _ L1 HR).
      * injection Hs as <- <- <-. refine (conj W1 (conj L1 _)). eexists; split; [reflexivity | exact I].
    + injection Hs as <- <- <-. refine (conj W1 (conj L1 _)). eexists; split; [reflexivity|]. exact (Rm_mono s s1 _ _ L1 HR).
  - (* comma-ok *)
    destruct (key_cases k s Hok W) as [(Hh & key & s1 & E & W1 & L1) | (Hh & s1 & E & W1 & L1)]; rewrite E in Hs; rewrite Hh.
    + destruct m as [jm|]; destruct am as [a|]; cbn [Rm] in HR; try contradiction.
      * pose proof (R_get _ _ _ _ _ _ W HR Hok E) as G. rewrite <- live_get in G.
        destruct (m_get jskey_eqb jm key) as [[k0 v0]|]; cbn [option_map snd] in G; rewrite <- G;
          injection Hs as <- <- <-; refine (conj W1 (conj L1 _)); eexists; (split; [reflexivity|]); cbn [Rm]; exact (R_mono s s1 _ _ L1 HR).
      * injection Hs as <- <- <-. refine (conj W1 (conj L1 _)). eexists; split; [reflexivity | exact I].
    + injection Hs as <- <- <-. refine (conj W1 (conj L1 _)). eexists; split; [reflexivity|]. exact (Rm_mono s s1 _ _ L1 HR).
  - (* delete *)
    destruct (key_cases k s Hok W) as [(Hh & key & s1 & E & W1 & L1) | (Hh & s1 & E & W1 & L1)]; rewrite E in Hs; rewrite Hh.
    + destruct m as [jm|]; destruct am as [a|]; cbn [Rm] in HR; try contradiction;
        injection Hs as <- <- <-; refine (conj W1 (conj L1 _)); eexists; (split; [reflexivity|]); cbn [Rm]; auto.
      rewrite live_del. exact (R_del s (m_live jm) a k key s1 W HR Hok E).
    + injection Hs as <- <- <-. refine (conj W1 (conj L1 _)). eexists; split; [reflexivity|]. exact (Rm_mono s s1 _ _ L1 HR).
  - (* len *)
    injection Hs as <- <- <-. refine (conj W (conj (sle_refl _) _)). eexists; split; [|exact HR].
    destruct m as [jm|]; destruct am as [a|]; cbn [Rm] in HR; try contradiction; [|reflexivity].
    rewrite live_size. apply forall2_length in HR. now rewrite HR.
  - (* literal *)
    pose proof (make_map_refines kvs [] [] s W (Forall2_nil _) Hok) as M.
    destruct (make_map nts by_id t kvs [] s) as [[jm'|] s1]; injection Hs as <- <- <-.
    + destruct M as (A & B & C & Dd). rewrite A. refine (conj B (conj C _)). eexists; split; [reflexivity | exact Dd].
    + destruct M as (A & B & C). rewrite A. refine (conj B (conj C _)). eexists; split; [reflexivity|]. exact (Rm_mono s s1 _ _ C HR).
  - (* m = nil *)
    injection Hs as <- <- <-. refine (conj W (conj (sle_refl _) _)). eexists; split; [reflexivity | exact I].
Qed.

(* what a history shows of the JS representation: the observation and the (k, v) pairs held, in order *)
Definition js_view (sn : snapshot) : obs * amap := (fst (fst sn), map snd (snd (fst sn))).

Theorem map_refines : forall ops m am s,
  wf s -> Rm s m am -> Forall op_ok ops ->
  map js_view (run nts by_id t ops m s) = a_run ops am.
Proof.
  induction ops as [|o ops IH]; intros m am s W HR HF; [reflexivity|].
  inversion HF as [|? ? Ho HF']; subst. cbn [run a_run].
  destruct (step nts by_id t o m s) as [[ob m'] s'] eqn:Es.
  destruct (step_refines _ _ _ _ _ _ _ W HR Ho Es) as (W' & L & am' & Ea & HR').
  rewrite Ea. cbn [map]. f_equal.
  - unfold js_view. cbn [fst snd]. f_equal. eapply Rm_contents; eauto.
  - apply IH; auto.
Qed.

(* nil map: reads as empty, len 0, delete is a no-op, a store panics — for every (hashable) key *)
Theorem nil_map : forall k v s, kok k -> wf s -> hashable t k = true ->
  fst (fst (step nts by_id t (OGet k) None s)) = RVal 0 /\
  fst (fst (step nts by_id t (OGet2 k) None s)) = RVal2 0 false /\
  fst (fst (step nts by_id t (ODel k) None s)) = RUnit /\ snd (fst (step nts by_id t (ODel k) None s)) = None /\
  fst (fst (step nts by_id t OLen None s)) = RLen 0 /\
  fst (fst (step nts by_id t (OSet k v) None s)) = RNilMapPanic /\ snd (fst (step nts by_id t (OSet k v) None s)) = None.
Proof.
  intros k v s Kk W Hh.
  destruct (key_cases k s Kk W) as [(_ & key & s1 & E & _) | (Hf & _)]; [|congruence].
  cbn [step]. unfold kf. rewrite E. cbn. repeat split; reflexivity.
Qed.

End Refines.
