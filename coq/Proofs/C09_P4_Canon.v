(* C09 phase 4 - the hash-consing invariant of the canonicalising constructors, by induction over ARBITRARY type
   terms and ARBITRARY sequences of canonicalisations (and over the declarations loaded before them):
   [Inv]: every cache entry points to a fresh object id (not a predeclared / declared type's id), no id is pointed to
   by two entries;  [rep s i t]: object i denotes the type term t;  canon yields a representative ([canon_rep]);
   representatives are unique up to Go's type identity ([rep_unique], using the injectivity of the typeKey strings). *)
From Coq Require Import List Arith NArith Bool String Ascii Lia.
From Verif Require Import Gen.C09_Kinds Model.C09_Types Corr.C09_Eval Model.C09_P4_Wf Proofs.C09_Types Proofs.C09_P4_Strings Proofs.C09_P4_Keys.
Import ListNotations.
Local Open Scope N_scope.

(* ------------------------------------------------------------------ induction over type terms *)
Section TyInd.
  Variable P : ty -> Prop.
  Hypothesis H : forall l cs, Forall P cs -> P (T l cs).
  Fixpoint ty_ind' (t : ty) : P t :=
    match t with
    | T l cs => H l cs ((fix go (xs : list ty) : Forall P xs :=
                           match xs with [] => Forall_nil P | x :: r => Forall_cons x (ty_ind' x) (go r) end) cs)
    end.
End TyInd.

(* the nested fixpoints of the model, named *)
Definition canon_go (fl : flags) : list ty -> st -> list N * st :=
  fix go (xs : list ty) (s0 : st) : list N * st :=
    match xs with
    | [] => ([], s0)
    | x :: r => let '(i, s') := canon fl x s0 in let '(is_, s'') := go r s' in (i :: is_, s'')
    end.
Lemma canon_go_eq : forall fl xs s, canon_go fl xs s = canon_list fl xs s.
Proof.
  induction xs as [|x r IH]; intro s; cbn [canon_go canon_list]; [reflexivity|].
  destruct (canon fl x s) as [i s']. fold (canon_go fl). rewrite IH. reflexivity.
Qed.
Lemma canon_unfold : forall fl l cs s, canon fl (T l cs) s =
  let '(ids, s1) := canon_list fl cs s in
  match l with
  | LBasic i => (i, s1)
  | LNamed d => (nthN d (s_named s1) 0, s1)
  | _ => match node_of fl s1 l ids with Some (c, k, r) => intern c k r s1 | None => (0, s1) end
  end.
Proof. intros. rewrite <- canon_go_eq. reflexivity. Qed.

Definition ident_go : list ty -> list ty -> bool :=
  fix go (xs ys : list ty) : bool :=
    match xs, ys with
    | [], [] => true
    | x :: xs', y :: ys' => identical x y && go xs' ys'
    | _, _ => false
    end.
Lemma identical_unfold : forall l cs l' cs', identical (T l cs) (T l' cs') = lab_ident l l' && ident_go cs cs'.
Proof. reflexivity. Qed.

(* ------------------------------------------------------------------ invariant, extension, representation *)
Record Inv (s : st) : Prop := {
  inv_pre : npre <= N.of_nat (List.length (s_types s));
  inv_tbl : forall c k i, In (c, k, i) (s_tbl s) -> npre <= i /\ i < N.of_nat (List.length (s_types s)) /\ ~ In i (s_named s);
  inv_ids : forall c k c' k' i, In (c, k, i) (s_tbl s) -> In (c', k', i) (s_tbl s) -> c = c' /\ k = k';
  inv_nodup : NoDup (s_named s);
  inv_named : forall i, In i (s_named s) -> npre <= i /\ i < N.of_nat (List.length (s_types s))
}.

Definition ext (s s' : st) : Prop :=
  s_named s' = s_named s /\
  forall c k i, lookup_tbl c k (s_tbl s) = Some i -> lookup_tbl c k (s_tbl s') = Some i.

Lemma ext_refl : forall s, ext s s. Proof. split; auto. Qed.
Lemma ext_trans : forall a b c, ext a b -> ext b c -> ext a c.
Proof. intros a b c [N1 L1] [N2 L2]. split; [congruence|auto]. Qed.

Inductive rep (s : st) : N -> ty -> Prop :=
| rep_basic : forall b, b < npre -> rep s b (T (LBasic b) [])
| rep_named : forall d, (N.to_nat d < List.length (s_named s))%nat -> rep s (nthN d (s_named s) 0) (T (LNamed d) [])
| rep_node : forall l cs ids ck i, composite l = true -> Forall2 (rep s) ids cs -> key_of l ids = Some ck ->
             lookup_tbl (fst ck) (snd ck) (s_tbl s) = Some i -> rep s i (T l cs).

Lemma rep_mono : forall s s', ext s s' -> forall t i, rep s i t -> rep s' i t.
Proof.
  intros s s' [EN EL]. induction t as [l cs IH] using ty_ind'. intros i R. inversion R as [b Hb|d Hd|l0 cs0 ids ck i0 Hc HF Hk Hl]; subst.
  - now constructor.
  - rewrite <- EN. constructor. now rewrite EN.
  - eapply rep_node; eauto.
    clear - IH HF. revert ids HF. induction cs as [|x cs IHcs]; intros ids F; inversion F; subst; constructor.
    + inversion IH; subst. auto.
    + inversion IH; subst. auto.
Qed.

Lemma Forall2_rep_mono : forall s s', ext s s' -> forall ids cs, Forall2 (rep s) ids cs -> Forall2 (rep s') ids cs.
Proof. intros s s' E ids cs F. induction F; constructor; eauto using rep_mono. Qed.

Lemma lookup_in : forall c k tbl i, lookup_tbl c k tbl = Some i -> In (c, k, i) tbl.
Proof.
  induction tbl as [|[[c' k'] i'] r IH]; intros i H; cbn in H; [discriminate|].
  destruct ((c =? c') && str_eqb k k') eqn:E.
  - apply andb_true_iff in E as [E1 E2]. apply N.eqb_eq in E1. apply str_eqb_eq in E2. injection H as H. subst. now left.
  - right. auto.
Qed.

(* ------------------------------------------------------------------ the constructors preserve the invariant *)
Lemma upd_length : forall {A} n (x : A) l, List.length (upd n x l) = List.length l.
Proof. induction n; intros x [|y l]; cbn; auto. Qed.

Lemma Inv_same : forall s s', List.length (s_types s') = List.length (s_types s) -> s_tbl s' = s_tbl s -> s_named s' = s_named s ->
  Inv s -> Inv s'.
Proof. intros s s' E1 E2 E3 [A B C D E]. constructor; rewrite ?E1, ?E2, ?E3; auto. Qed.

Lemma set_type_inv : forall i r s, Inv s -> Inv (set_type i r s) /\ ext s (set_type i r s).
Proof.
  intros i r s I. split; [|split; [reflexivity|auto]].
  apply (Inv_same s (set_type i r s)); auto. cbn. apply upd_length.
Qed.

Lemma intern_inv : forall c k r s i s', Inv s -> intern c k r s = (i, s') ->
  Inv s' /\ ext s s' /\ lookup_tbl c k (s_tbl s') = Some i.
Proof.
  intros c k r s i s' I H. unfold intern in H.
  destruct (lookup_tbl c k (s_tbl s)) as [j|] eqn:E.
  - injection H as H1 H2. subst. auto using ext_refl.
  - cbn in H. injection H as H1 H2. subst s' i. destruct I as [A B C D F].
    split; [|split].
    + constructor; cbn [s_types s_tbl s_named add_tbl]; rewrite ?app_length; cbn [List.length].
      * lia.
      * intros c0 k0 i0 [H|H].
        -- injection H as H1 H2 H3. subst. split; [lia|]. split; [lia|]. intro Hin. apply F in Hin. lia.
        -- apply B in H. destruct H as [H1 [H2 H3]]. split; [auto|]. split; [lia|auto].
      * intros c0 k0 c1 k1 i0 [H|H] [H'|H'].
        -- injection H as H1 H2 H3. injection H' as H4 H5 H6. subst. auto.
        -- injection H as H1 H2 H3. subst. apply B in H'. lia.
        -- injection H' as H1 H2 H3. subst. apply B in H. lia.
        -- eapply C; eauto.
      * exact D.
      * intros i0 Hin. apply F in Hin. lia.
    + split; [reflexivity|]. intros c0 k0 i0 Hl. cbn [s_tbl add_tbl lookup_tbl].
      destruct ((c0 =? c) && str_eqb k0 k) eqn:E2; [|exact Hl].
      apply andb_true_iff in E2 as [E3 E4]. apply N.eqb_eq in E3. apply str_eqb_eq in E4. subst. congruence.
    + cbn [s_tbl add_tbl lookup_tbl]. now rewrite N.eqb_refl, str_eqb_refl.
Qed.

Lemma node_key_some : forall s l ids c k r, node_of flc s l ids = Some (c, k, r) -> key_of l ids = Some (c, k).
Proof. intros s l ids c k r H. rewrite <- (node_of_key s). rewrite H. reflexivity. Qed.
Lemma node_key_none : forall s l ids, node_of flc s l ids = None -> key_of l ids = None.
Proof. intros s l ids H. rewrite <- (node_of_key s). rewrite H. reflexivity. Qed.

Definition nd_of (s : st) : N := N.of_nat (List.length (s_named s)).

Lemma Forall2_length' : forall {A B} (R : A -> B -> Prop) l l', Forall2 R l l' -> List.length l = List.length l'.
Proof. intros. induction H; cbn; auto. Qed.

(* canon on one term, given the statement for its components *)
Definition canon_ok (t : ty) : Prop :=
  forall s i s', Inv s -> canon flc t s = (i, s') ->
    Inv s' /\ ext s s' /\ (wfb (nd_of s) t = true -> rep s' i t).
Definition canon_list_ok (cs : list ty) : Prop :=
  forall s ids s', Inv s -> canon_list flc cs s = (ids, s') ->
    Inv s' /\ ext s s' /\ (forallb (wfb (nd_of s)) cs = true -> Forall2 (rep s') ids cs).

Lemma ext_nd : forall s s', ext s s' -> nd_of s' = nd_of s.
Proof. intros s s' [E _]. unfold nd_of. now rewrite E. Qed.

Lemma canon_list_from : forall cs, Forall canon_ok cs -> canon_list_ok cs.
Proof.
  induction cs as [|x cs IH]; intros F s ids s' I H.
  - cbn in H. injection H as H1 H2. subst. split; [exact I|]. split; [apply ext_refl|]. intro. constructor.
  - inversion F as [|? ? Fx Fcs]; subst. cbn [canon_list] in H.
    destruct (canon flc x s) as [i s1] eqn:E1. destruct (canon_list flc cs s1) as [is_ s2] eqn:E2.
    injection H as H1 H2. subst.
    destruct (Fx s i s1 I E1) as [I1 [X1 R1]].
    destruct (IH Fcs s1 is_ s' I1 E2) as [I2 [X2 R2]].
    split; [exact I2|]. split; [eapply ext_trans; eauto|].
    intro W. cbn [forallb] in W. apply andb_true_iff in W as [W1 W2]. constructor.
    + eapply rep_mono; eauto.
    + apply R2. now rewrite (ext_nd _ _ X1).
Qed.

Lemma canon_all : forall t, canon_ok t.
Proof.
  induction t as [l cs IH] using ty_ind'. intros s i s' I H.
  rewrite canon_unfold in H. destruct (canon_list flc cs s) as [ids s1] eqn:E.
  destruct (canon_list_from cs IH s ids s1 I E) as [I1 [X1 R1]].
  assert (Wsplit : wfb (nd_of s) (T l cs) = true -> lab_wf (nd_of s) l (List.length cs) = true /\ forallb (wfb (nd_of s)) cs = true).
  { intro W. cbn [wfb] in W. now apply andb_true_iff in W. }
  destruct l.
  { injection H as H1 H2. subst. split; [auto|]. split; [auto|]. intro W. destruct (Wsplit W) as [Wl Wc].
    cbn [lab_wf] in Wl. apply andb_true_iff in Wl as [Wl1 Wl2]. apply N.ltb_lt in Wl1. apply Nat.eqb_eq in Wl2.
    destruct cs; [|discriminate]. now constructor. }
  { injection H as H1 H2. subst. split; [auto|]. split; [auto|]. intro W. destruct (Wsplit W) as [Wl Wc].
    cbn [lab_wf] in Wl. apply andb_true_iff in Wl as [Wl1 Wl2]. apply N.ltb_lt in Wl1. apply Nat.eqb_eq in Wl2.
    destruct cs; [|discriminate]. constructor. rewrite <- (ext_nd _ _ X1) in Wl1. unfold nd_of in Wl1. lia. }
  (* the eight composite labels are handled alike *)
  all: cbv beta iota in H.
  all: match type of H with (match ?n with _ => _ end) = _ => destruct n as [[[c k] r]|] eqn:En end.
  all: try (destruct (intern_inv c k r s1 i s' I1 H) as [I2 [X2 Lk]]; split; [exact I2|]; split; [eapply ext_trans; eauto|];
            intro W; destruct (Wsplit W) as [Wl Wc];
            apply (rep_node s' _ cs ids (c, k)); [reflexivity| eapply Forall2_rep_mono; eauto | eapply node_key_some; eauto | exact Lk]).
  all: injection H as H1 H2; subst; split; [auto|]; split; [auto|]; intro W; destruct (Wsplit W) as [Wl Wc]; exfalso;
       apply node_key_none in En; specialize (R1 Wc); apply Forall2_length' in R1; rewrite <- R1 in Wl;
       (edestruct key_some as [ck Hck]; [|exact Wl|]; [reflexivity|congruence]).
Qed.

Lemma canon_list_all : forall cs, canon_list_ok cs.
Proof. intro cs. apply canon_list_from. apply Forall_forall. intros. apply canon_all. Qed.

(* ------------------------------------------------------------------ loading the declarations *)
Lemma init_st_inv : Inv init_st.
Proof.
  constructor; cbn [init_st s_types s_tbl s_named].
  - unfold npre. rewrite map_length. lia.
  - intros c k i [].
  - intros c k c' k' i [].
  - constructor.
  - intros i [].
Qed.

Lemma NoDup_snoc : forall {A} (l : list A) x, NoDup l -> ~ In x l -> NoDup (l ++ [x]).
Proof.
  induction l as [|y l IH]; intros x D H; cbn.
  - repeat constructor. intros [].
  - inversion D; subst. constructor.
    + intro Hin. apply in_app_or in Hin as [Hin|[Hin|[]]]; [auto|]. subst. apply H. now left.
    + apply IH; auto. intro. apply H. now right.
Qed.

Definition decl_step (s0 : st) (d : decl) : st :=
  let '(i, s') := alloc (Build_rt 0 (L (d_str d)) true true (LBasic 0) [] []) s0 in
  Build_st (s_types s') (s_tbl s') (s_named s' ++ [i]).

Lemma decl_step_inv : forall s d, Inv s -> Inv (decl_step s d) /\ List.length (s_named (decl_step s d)) = S (List.length (s_named s)).
Proof.
  intros s d I. unfold decl_step, alloc. cbn [s_types s_tbl s_named fst snd].
  split; [|rewrite app_length; cbn; lia].
  destruct I as [A B C D F]. constructor; cbn [s_types s_tbl s_named]; rewrite ?app_length; cbn [List.length].
  - lia.
  - intros c k i H. destruct (B c k i H) as [H1 [H2 H3]]. split; [auto|]. split; [lia|].
    intro Hin. apply in_app_or in Hin as [Hin|[Hin|[]]]; [auto|]. lia.
  - exact C.
  - apply NoDup_snoc; [exact D|]. intro Hx. apply F in Hx. lia.
  - intros i Hin. apply in_app_or in Hin as [Hin|[Hin|[]]].
    + apply F in Hin. lia.
    + subst. lia.
Qed.

Lemma declare_inv : forall ds s, Inv s -> Inv (declare ds s) /\ List.length (s_named (declare ds s)) = (List.length (s_named s) + List.length ds)%nat.
Proof.
  intros ds s. change (declare ds s) with (fold_left decl_step ds s). revert s.
  induction ds as [|d ds IH]; intros s I; cbn [fold_left].
  - split; [exact I|]. cbn. lia.
  - destruct (decl_step_inv s d I) as [I1 L1]. destruct (IH _ I1) as [A B]. split; [exact A|]. rewrite B, L1. cbn. lia.
Qed.

Lemma init_decl_inv : forall s di, Inv s -> Inv (init_decl flc s di) /\ ext s (init_decl flc s di).
Proof.
  intros s [dn d] I. unfold init_decl. destruct (d_under d) as [l cs].
  destruct (canon_list flc cs s) as [ids s1] eqn:E1.
  destruct (canon_list_all cs s ids s1 I E1) as [I1 [X1 _]].
  destruct (canon_list flc (map me_sig (d_meths d)) s1) as [sigs s2] eqn:E2.
  destruct (canon_list_all _ s1 sigs s2 I1 E2) as [I2 [X2 _]].
  match goal with |- context [set_type ?i ?r s2] => destruct (set_type_inv i r s2 I2) as [I3 X3]; set (s3 := set_type i r s2) in * end.
  match goal with |- context [match ?pm with [] => _ | _ => _ end] => destruct pm eqn:Ep end.
  - split; [exact I3|]. eauto using ext_trans.
  - match goal with |- context [intern ?c ?k ?r s3] => destruct (intern c k r s3) as [p s4] eqn:E4;
      destruct (intern_inv c k r s3 p s4 I3 E4) as [I4 [X4 _]] end.
    match goal with |- context [set_type p ?r s4] => destruct (set_type_inv p r s4 I4) as [I5 X5] end.
    split; [exact I5|]. eauto using ext_trans.
Qed.

Lemma load_env_inv : forall env, Inv (load_env flc env) /\ nd_of (load_env flc env) = N.of_nat (List.length env).
Proof.
  intro env. unfold load_env.
  destruct (declare_inv env init_st init_st_inv) as [I0 L0]. cbn in L0.
  assert (G : forall l s, Inv s -> Inv (fold_left (init_decl flc) l s) /\ ext s (fold_left (init_decl flc) l s)).
  { induction l as [|x l IH]; intros s I; cbn [fold_left]; [auto using ext_refl|].
    destruct (init_decl_inv s x I) as [I1 X1]. destruct (IH _ I1) as [I2 X2]. eauto using ext_trans. }
  destruct (G (number 0 env) _ I0) as [I X]. split; [exact I|].
  rewrite (ext_nd _ _ X). unfold nd_of. now rewrite L0.
Qed.
