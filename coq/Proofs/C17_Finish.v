(* C17 — the repaired Collector.Finish (keys visited in sorted order) does not depend on how the
   map of per-package instance sets happens to be laid out.  The model keeps the map as an association list;
   "layout" = the order of that list.  Everything below shows that propagate / run_schedule / finish_sorted
   use the list only as a finite map. *)
From Coq Require Import List NArith Bool Arith Lia Permutation FinFun.
From Verif Require Import Model.C17_Order Proofs.C17_Order.
Import ListNotations.

Definition pis_equiv (m m' : pis) : Prop := forall p, pis_get p m = pis_get p m'.

Lemma pis_get_set : forall m p q s, pis_get p (pis_set q s m) = if N.eqb p q then Some s else pis_get p m.
Proof.
  induction m as [|[r t] m IH]; intros p q s; cbn.
  - reflexivity.
  - destruct (N.eqb_spec q r); cbn.
    + subst. destruct (N.eqb_spec p r); reflexivity.
    + destruct (N.eqb_spec p r).
      * subst. destruct (N.eqb_spec r q); [subst; contradiction|reflexivity].
      * apply IH.
Qed.

Lemma pis_set_equiv : forall m m' q s, pis_equiv m m' -> pis_equiv (pis_set q s m) (pis_set q s m').
Proof. intros m m' q s H p. rewrite !pis_get_set. destruct (N.eqb p q); [reflexivity|apply H]. Qed.

Lemma pis_add_equiv : forall m m' i, pis_equiv m m' -> pis_equiv (pis_add m i) (pis_add m' i).
Proof. intros m m' i H. unfold pis_add. rewrite (H (fst i)). apply pis_set_equiv. exact H. Qed.

Lemma fold_pis_add_equiv : forall l m m', pis_equiv m m' -> pis_equiv (fold_left pis_add l m) (fold_left pis_add l m').
Proof. induction l as [|i l IH]; intros m m' H; cbn; [assumption|]. apply IH. apply pis_add_equiv. assumption. Qed.

Lemma propagate_equiv : forall fuel t p m m', pis_equiv m m' -> pis_equiv (propagate fuel t p m) (propagate fuel t p m').
Proof.
  induction fuel as [|f IH]; intros t p m m' H; cbn; [exact H|].
  rewrite <- (H p). destruct (pis_get p m) as [s|]; [|exact H].
  destruct (nth_error (vals s) (unproc s)) as [i|]; [|exact H].
  apply IH. apply fold_pis_add_equiv. apply pis_set_equiv. exact H.
Qed.

Lemma run_schedule_equiv : forall sched fuel t m m',
  pis_equiv m m' -> pis_equiv (run_schedule fuel t sched m) (run_schedule fuel t sched m').
Proof.
  unfold run_schedule. induction sched as [|p sched IH]; intros fuel t m m' H; cbn; [assumption|].
  apply IH. apply propagate_equiv. assumption.
Qed.

(* keys *)
Lemma pis_keys_set : forall m p s, pis_keys (pis_set p s m) = oset_add (pis_keys m) p.
Proof.
  unfold pis_keys, oset_add. induction m as [|[q t] m IH]; intros p s; cbn.
  - reflexivity.
  - destruct (N.eqb_spec p q); cbn.
    + reflexivity.
    + rewrite IH. destruct (n_mem p (map fst m)); reflexivity.
Qed.

Lemma NoDup_keys_set : forall m p s, NoDup (pis_keys m) -> NoDup (pis_keys (pis_set p s m)).
Proof. intros. rewrite pis_keys_set. apply oset_add_NoDup. assumption. Qed.

Lemma NoDup_keys_add : forall m i, NoDup (pis_keys m) -> NoDup (pis_keys (pis_add m i)).
Proof. intros. unfold pis_add. apply NoDup_keys_set. assumption. Qed.

Lemma NoDup_keys_fold_add : forall l m, NoDup (pis_keys m) -> NoDup (pis_keys (fold_left pis_add l m)).
Proof. induction l as [|i l IH]; intros m H; cbn; [assumption|]. apply IH. apply NoDup_keys_add. assumption. Qed.

Lemma NoDup_keys_propagate : forall fuel t p m, NoDup (pis_keys m) -> NoDup (pis_keys (propagate fuel t p m)).
Proof.
  induction fuel as [|f IH]; intros t p m H; cbn; [exact H|].
  destruct (pis_get p m) as [s|]; [|exact H].
  destruct (nth_error (vals s) (unproc s)) as [i|]; [|exact H].
  apply IH. apply NoDup_keys_fold_add. apply NoDup_keys_set. exact H.
Qed.

Lemma NoDup_keys_run_schedule : forall sched fuel t m, NoDup (pis_keys m) -> NoDup (pis_keys (run_schedule fuel t sched m)).
Proof.
  unfold run_schedule. induction sched as [|p sched IH]; intros fuel t m H; cbn; [assumption|].
  apply IH. apply NoDup_keys_propagate. assumption.
Qed.

Lemma NoDup_keys_seed : forall seeds, NoDup (pis_keys (seed seeds)).
Proof. intro seeds. unfold seed. apply NoDup_keys_fold_add. constructor. Qed.

Lemma pis_get_In_keys : forall m p, In p (pis_keys m) <-> pis_get p m <> None.
Proof.
  unfold pis_keys. induction m as [|[q t] m IH]; intro p; cbn.
  - split; [contradiction|intro H; apply H; reflexivity].
  - destruct (N.eqb_spec p q).
    + subst. split; [discriminate|left; reflexivity].
    + rewrite <- IH. split; [intros [H|H]; [congruence|assumption]|intro H; right; assumption].
Qed.

Lemma pis_get_Some_In : forall m p s, NoDup (pis_keys m) -> (pis_get p m = Some s <-> In (p, s) m).
Proof.
  unfold pis_keys. induction m as [|[q t] m IH]; intros p s ND; cbn.
  - split; [discriminate|contradiction].
  - cbn in ND. inversion ND as [|? ? Hn ND']; subst. destruct (N.eqb_spec p q).
    + subst. split.
      * intro H; inversion H; left; reflexivity.
      * intros [H|H]; [inversion H; reflexivity|]. exfalso. apply Hn.
        change q with (fst (q, s)). apply in_map. exact H.
    + rewrite IH by assumption. split; [intro; right; assumption|].
      intros [H|H]; [inversion H; congruence|assumption].
Qed.

Lemma all_exhausted_spec : forall m, NoDup (pis_keys m) ->
  (all_exhausted m = true <-> forall p s, pis_get p m = Some s -> exhausted s = true).
Proof.
  intros m ND. unfold all_exhausted. rewrite forallb_forall. split.
  - intros H p s G. apply (H (p, s)). apply pis_get_Some_In; assumption.
  - intros H [p s] I. cbn. apply (H p). apply pis_get_Some_In; assumption.
Qed.

Lemma all_exhausted_equiv : forall m m', pis_equiv m m' -> NoDup (pis_keys m) -> NoDup (pis_keys m') ->
  all_exhausted m = all_exhausted m'.
Proof.
  intros m m' E N1 N2. apply eq_true_iff_eq. rewrite !all_exhausted_spec by assumption.
  split; intros H p s G; apply (H p s); [rewrite E|rewrite <- E]; exact G.
Qed.

Lemma equiv_keys_perm : forall m m', pis_equiv m m' -> NoDup (pis_keys m) -> NoDup (pis_keys m') ->
  Permutation (pis_keys m) (pis_keys m').
Proof.
  intros m m' E N1 N2. apply NoDup_Permutation; try assumption.
  intro p. rewrite !pis_get_In_keys. rewrite (E p). tauto.
Qed.

Lemma finish_sorted_equiv : forall rounds fuel path_of t m m',
  (forall a b : N, path_of a = path_of b -> a = b) ->
  pis_equiv m m' -> NoDup (pis_keys m) -> NoDup (pis_keys m') ->
  pis_equiv (finish_sorted rounds fuel path_of t m) (finish_sorted rounds fuel path_of t m').
Proof.
  induction rounds as [|r IH]; intros fuel path_of t m m' Inj E N1 N2; cbn; [assumption|].
  rewrite (all_exhausted_equiv m m') by assumption. destruct (all_exhausted m'); [assumption|].
  assert (K : sort_keys path_of (pis_keys m) = sort_keys path_of (pis_keys m')).
  { apply sort_keys_canonical.
    - apply equiv_keys_perm; assumption.
    - apply Injective_map_NoDup; [exact Inj|assumption]. }
  rewrite K. apply IH; try assumption.
  - apply run_schedule_equiv. assumption.
  - apply NoDup_keys_run_schedule. assumption.
  - apply NoDup_keys_run_schedule. assumption.
Qed.

Lemma perm_equiv : forall m m', NoDup (pis_keys m) -> Permutation m m' -> pis_equiv m m' /\ NoDup (pis_keys m').
Proof.
  intros m m' ND P.
  assert (ND' : NoDup (pis_keys m')).
  { eapply Permutation_NoDup; [|exact ND]. unfold pis_keys. apply Permutation_map. exact P. }
  split; [|exact ND'].
  intro p. destruct (pis_get p m) as [s|] eqn:G.
  - symmetry. apply pis_get_Some_In; [assumption|]. eapply Permutation_in; [exact P|]. apply pis_get_Some_In; assumption.
  - destruct (pis_get p m') as [s'|] eqn:G'; [|reflexivity].
    apply pis_get_Some_In in G'; [|assumption].
    apply (Permutation_in _ (Permutation_sym P)) in G'. apply pis_get_Some_In in G'; [|assumption]. congruence.
Qed.

Lemma observe_equiv : forall pkgs m m', pis_equiv m m' -> observe pkgs m = observe pkgs m'.
Proof. intros pkgs m m' E. unfold observe. apply map_ext. intro p. rewrite (E p). reflexivity. Qed.

(* the repaired loop is a function of the CONTENTS of the map, not of its layout *)
Lemma finish_sorted_layout_independent : forall rounds fuel path_of t m m' pkgs,
  (forall a b : N, path_of a = path_of b -> a = b) ->
  NoDup (pis_keys m) -> Permutation m m' ->
  observe pkgs (finish_sorted rounds fuel path_of t m) = observe pkgs (finish_sorted rounds fuel path_of t m').
Proof.
  intros rounds fuel path_of t m m' pkgs Inj ND P.
  destruct (perm_equiv m m' ND P) as [E ND'].
  apply observe_equiv. apply finish_sorted_equiv; assumption.
Qed.

(* the same holds for any FIXED sequence of propagate calls: only the choice of the sequence matters *)
Lemma run_schedule_layout_independent : forall sched fuel t m m' pkgs,
  NoDup (pis_keys m) -> Permutation m m' ->
  observe pkgs (run_schedule fuel t sched m) = observe pkgs (run_schedule fuel t sched m').
Proof.
  intros sched fuel t m m' pkgs ND P.
  destruct (perm_equiv m m' ND P) as [E ND'].
  apply observe_equiv. apply run_schedule_equiv. assumption.
Qed.

(* every ordering decision modelled for C17, in one statement *)
Lemma ordering_decisions_canonical :
  (forall l l' : list keyed, Permutation l l' -> NoDup (map fst l) ->
     sort_files l = sort_files l' /\ sort_sources l = sort_sources l' /\ sort_imports l = sort_imports l') /\
  (forall l l' : list str, Permutation l l' -> sort_strings l = sort_strings l' /\ get_deps l = get_deps l') /\
  (forall skip files files', Permutation files files' -> unresolved_imports skip files = unresolved_imports skip files') /\
  (forall xs s, oset_add_all s xs = s ++ first_occ s xs) /\
  (forall rounds fuel path_of t m m' pkgs,
     (forall a b : N, path_of a = path_of b -> a = b) -> NoDup (pis_keys m) -> Permutation m m' ->
     observe pkgs (finish_sorted rounds fuel path_of t m) = observe pkgs (finish_sorted rounds fuel path_of t m')).
Proof.
  split; [|split; [|split; [|split]]].
  - intros l l' P ND. split; [|split].
    + apply sort_files_canonical; assumption.
    + apply sort_sources_canonical; assumption.
    + apply sort_sources_canonical; assumption.
  - intros l l' P. split; [apply sort_strings_canonical|apply get_deps_iteration_order_independent]; assumption.
  - apply unresolved_imports_file_order_independent.
  - apply oset_add_all_first_occ.
  - apply finish_sorted_layout_independent.
Qed.
