(* C01 stage 2 — example programs for the non-vacuity statements of Props/C01.v *)
From Coq Require Import ZArith List String Bool.
From Verif Require Import Model.C01_GoSem Model.C01_JsSem Model.C01_Compile Model.C01_Wf
  Model.C01_S2_GoSem Model.C01_S2_JsSem Model.C01_S2_Compile Model.C01_S2_Wf.
Import ListNotations.
Local Open Scope Z_scope.
Local Open Scope string_scope.

(* func h(n int, d int) int { if n <= 0 { return 100 / d }; r := h(n-1, d); return r + n }
   func find(k int) int { for i := 0; i < 10; i++ { x := h(1, i+1); if x < k { return i } }; return -1 }
   func show(v int, f bool) { if f { println(v); return }; println(v, f) }
   func main() { a := find(30); show(a, a > 2); show(a, a > 3); b := h(2, 0); println(b) } *)
Definition vn := ("n", 0%N). Definition vd := ("d", 0%N). Definition vr := ("r", 0%N).
Definition vk := ("k", 0%N). Definition vi := ("i", 0%N). Definition vx := ("x", 0%N).
Definition vv := ("v", 0%N). Definition vf := ("f", 0%N). Definition va := ("a", 0%N). Definition vb := ("b", 0%N).

Definition ex2_h : fdef := {| f_params := [(vn, TI I); (vd, TI I)]; f_ret := Some (TI I);
  f_body := TSeq (TIf (ECmp (TI I) Le (EVar vn) (ELit I 0))
                      (TSeq (TReturn (Some (EBin false I Quo (ELit I 100) (EVar vd)))) TSkip) TSkip)
           (TSeq (TCall (Some (vr, Some (TI I))) "h" [EBin false I Sub (EVar vn) (ELit I 1); EVar vd])
           (TSeq (TReturn (Some (EBin false I Add (EVar vr) (EVar vn)))) TSkip)) |}.
Definition ex2_find : fdef := {| f_params := [(vk, TI I)]; f_ret := Some (TI I);
  f_body := TSeq (TFor (SDefine vi (TI I) (ELit I 0)) (ECmp (TI I) Lt (EVar vi) (ELit I 10)) (SIncDec vi I true)
                    (TSeq (TCall (Some (vx, Some (TI I))) "h" [ELit I 1; EBin false I Add (EVar vi) (ELit I 1)])
                    (TSeq (TIf (ECmp (TI I) Lt (EVar vx) (EVar vk)) (TSeq (TReturn (Some (EVar vi))) TSkip) TSkip) TSkip)))
           (TSeq (TReturn (Some (ELit I (-1)))) TSkip) |}.
Definition ex2_show : fdef := {| f_params := [(vv, TI I); (vf, TB)]; f_ret := None;
  f_body := TSeq (TIf (EVar vf) (TSeq (TBase (SPrint [EVar vv])) (TSeq (TReturn None) TSkip)) TSkip)
           (TSeq (TBase (SPrint [EVar vv; EVar vf])) TSkip) |}.
Definition ex2_main : fdef := {| f_params := []; f_ret := None;
  f_body := TSeq (TCall (Some (va, Some (TI I))) "find" [ELit I 30])
           (TSeq (TCall None "show" [EVar va; ECmp (TI I) Gt (EVar va) (ELit I 2)])
           (TSeq (TCall None "show" [EVar va; ECmp (TI I) Gt (EVar va) (ELit I 3)])
           (TSeq (TCall (Some (vb, Some (TI I))) "h" [ELit I 2; ELit I 0])
           (TSeq (TBase (SPrint [EVar vb])) TSkip)))) |}.
Definition ex2_prog : prog2 :=
  {| p_funcs := [("h", ex2_h); ("find", ex2_find); ("show", ex2_show); ("main", ex2_main)]; p_main := "main" |}.

Lemma ex2_prog_simulated :
  wf_prog2 ex2_prog = true /\
  run_go2 60 ex2_prog = Done [[VI 3]; [VI 3; VB false]] PanicExit /\
  run_js2 60 (compile2 ex2_prog) = Done [[VI 3]; [VI 3; VB false]] PanicExit.
Proof. vm_compute. auto. Qed.
