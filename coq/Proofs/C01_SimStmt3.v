(* C01 — simulation proof, part 8: the result relation, if statements, loops *)
From Coq Require Import ZArith List String Bool Lia.
From Verif Require Import Model.C01_GoSem Model.C01_JsSem Model.C01_Compile Model.C01_Wf
  Proofs.C01_Arith Proofs.C01_SimBase Proofs.C01_SimExpr Proofs.C01_SimExpr2 Proofs.C01_SimBin Proofs.C01_SimStatic
  Proofs.C01_SimStmt1 Proofs.C01_SimStmt2.
Import ListNotations.
Local Open Scope Z_scope.

(* how the result of a MiniGo statement and the result of its translation are related.
   A `continue` has already run the post statement of its loop on the JavaScript side. *)
Definition Res (pcx : pctx) (g g' : env) (r' : list (name * name))
  (rg : sres (store val)) (rj : sres (store jval)) : Prop :=
  match rg with
  | ROk SNormal sg' out => exists sj', rj = ROk SNormal sj' out /\ Inv g' r' sg' sj'
  | ROk (SBrk l) sg' out => exists sj', rj = ROk (SBrk l) sj' out /\ Inv g r' sg' sj'
  | ROk (SCont l) sg' out =>
      match exec_simple (find_post (cx_of pcx) l) sg' with
      | ROk SNormal sg'' _ => exists sj', rj = ROk (SCont l) sj' out /\ Inv (find_env pcx l) r' sg'' sj'
      | RPanic _ => rj = RPanic out
      | _ => False
      end
  | RPanic out => rj = RPanic out
  | ROOF => True
  | RStuck => False
  end.

Lemma Res_prepend : forall pcx g g' r' rg rj o, Res pcx g g' r' rg rj -> Res pcx g g' r' (prepend o rg) (prepend o rj).
Proof.
  intros pcx g g' r' rg rj o H. destruct rg as [sg0 sg' out|out| |]; cbn [prepend Res] in *; auto.
  - destruct sg0 as [|l|l].
    + destruct H as [sj' [-> HI]]. exists sj'. auto.
    + destruct H as [sj' [-> HI]]. exists sj'. auto.
    + destruct (exec_simple (find_post (cx_of pcx) l) sg') as [[| |] ? ?|?| |]; auto.
      * destruct H as [sj' [-> HI]]. exists sj'. auto.
      * subst. reflexivity.
  - subst. reflexivity.
Qed.

Lemma Res_mono : forall pcx g g' r' g0 g0' r'' rg rj,
  incl g0 g -> incl g0' g' -> rho_ext r' r'' -> Res pcx g g' r' rg rj -> Res pcx g0 g0' r'' rg rj.
Proof.
  intros pcx g g' r' g0 g0' r'' rg rj I1 I2 E H. destruct rg as [sg0 sg' out|out| |]; cbn [Res] in *; auto.
  destruct sg0 as [|l|l].
  - destruct H as [sj' [-> HI]]. exists sj'. split; auto. eapply Inv_ext; eauto. eapply Inv_incl; eauto.
  - destruct H as [sj' [-> HI]]. exists sj'. split; auto. eapply Inv_ext; eauto. eapply Inv_incl; eauto.
  - destruct (exec_simple (find_post (cx_of pcx) l) sg') as [[| |] ? ?|?| |]; auto.
    destruct H as [sj' [-> HI]]. exists sj'. split; auto. eapply Inv_ext; eauto.
Qed.

Lemma find_post_cons : forall l p g pcx t,
  find_post (cx_of ((l, p, g) :: pcx)) t = if catches l t then p else find_post (cx_of pcx) t.
Proof. reflexivity. Qed.
Lemma find_env_cons : forall l p (g : env) pcx t,
  find_env ((l, p, g) :: pcx) t = if catches l t then g else find_env pcx t.
Proof. reflexivity. Qed.

Definition is_normal {S} (r : sres S) : bool := match r with ROk SNormal _ _ => true | _ => false end.

Lemma Res_abrupt : forall pcx g g' g'' r' rg rj, is_normal rg = false ->
  Res pcx g g' r' rg rj -> Res pcx g g'' r' rg rj.
Proof.
  intros pcx g g' g'' r' rg rj N H. destruct rg as [[| |] ? ?|?| |]; cbn [Res is_normal] in *; auto; discriminate.
Qed.

(* ---------------------------------------------------------------- if *)
Lemma if_sim : forall fuel pcx g r0 rT c jc t jt e je sg sj,
  CondSim g r0 c jc -> Inv g r0 sg sj ->
  (forall sj1, Inv g r0 sg sj1 -> Res pcx g g rT (exec fuel t sg) (jexec_list fuel jt sj1)) ->
  (forall sj1, Inv g r0 sg sj1 -> Res pcx g g rT (exec fuel e sg) (exec_else fuel je sj1)) ->
  Res pcx g g rT (exec fuel (SIf c t e) sg) (jexec fuel (JSIf jc jt je) sj).
Proof.
  intros fuel pcx g r0 rT c jc t jt e je sg sj Hc HI Ht He.
  rewrite exec_if, jexec_if. specialize (Hc sg sj HI).
  destruct (eval sg c) as [[z|[|]]| |]; try contradiction.
  - destruct Hc as [sj1 [-> HI1]]. apply Ht. exact HI1.
  - destruct Hc as [sj1 [-> HI1]]. apply He. exact HI1.
  - rewrite Hc. reflexivity.
Qed.

(* ---------------------------------------------------------------- bodies ending in break / continue *)
Lemma last_skip_exec : forall s f sg, last_stmt s = SSkip -> exec f s sg = ROk SNormal sg [].
Proof.
  induction s as [ | a IHa b IHb | | | | | | | | | | ]; intros f sg H; cbn [last_stmt] in H; try discriminate.
  - apply exec_skip.
  - assert (Lb : last_stmt b = SSkip) by (destruct (last_stmt b); try discriminate; reflexivity).
    rewrite Lb in H. rewrite exec_seq. rewrite (IHa f sg H). rewrite (IHb f sg Lb). reflexivity.
Qed.

Lemma last_branch_not_normal : forall s f sg, is_branch (last_stmt s) = true -> is_normal (exec f s sg) = false.
Proof.
  induction s as [ | a IHa b IHb | | | | | | | | | | ]; intros f sg H; cbn [last_stmt is_branch] in H; try discriminate.
  - rewrite exec_seq.
    destruct (last_stmt b) eqn:Lb; try (cbn [is_branch] in H; discriminate).
    + pose proof (IHa f sg H) as N. destruct (exec f a sg) as [[| |] ? ?|?| |]; cbn in *; auto. discriminate.
    + destruct (exec f a sg) as [[| |] s1' o1|?| |]; try reflexivity.
      pose proof (IHb f s1' eq_refl) as N. destruct (exec f b s1') as [[| |] ? ?|?| |]; cbn in *; auto.
    + destruct (exec f a sg) as [[| |] s1' o1|?| |]; try reflexivity.
      pose proof (IHb f s1' eq_refl) as N. destruct (exec f b s1') as [[| |] ? ?|?| |]; cbn in *; auto.
  - rewrite exec_break. reflexivity.
  - rewrite exec_continue. reflexivity.
Qed.

(* ---------------------------------------------------------------- loops *)
Section Loop.
  Variables (l : option string) (oc : option expr) (post body : stmt).
  Variables (pcx : pctx) (g1 gb : env) (r1 r2 r3 : list (name * name)).
  Variables (jc jb jp : list jstmt).
  Let pcx' : pctx := (l, post, g1) :: pcx.
  Let W : jstmt := JSWhile l (jc ++ jb ++ jp).
  Variable fuel : nat.

  Hypothesis Hcond : match oc with
                     | None => jc = []
                     | Some ce => exists je, jc = [JSIf (JUn JNot je) [JSBreak None] JNoElse] /\ CondSim g1 r1 ce je
                     end.
  Hypothesis Hbody : forall f', (f' <= fuel)%nat -> forall sg sj, Inv g1 r1 sg sj ->
    Res pcx' g1 gb r2 (exec f' body sg) (jexec_list f' jb sj).
  Hypothesis Hpost_simple : is_simple post = true.
  Hypothesis Hpost : if is_branch (last_stmt body) then jp = []
    else forall f' sg sj, Inv g1 r2 sg sj ->
         match exec_simple post sg with
         | ROk SNormal sg' out => out = [] /\ exists sj', jexec_list f' jp sj = ROk SNormal sj' [] /\ Inv g1 r3 sg' sj'
         | ROk _ _ _ => False
         | RPanic out => out = [] /\ jexec_list f' jp sj = RPanic []
         | _ => False
         end.
  Hypothesis Hgb : incl g1 gb.
  Hypothesis E12 : rho_ext r1 r2.
  Hypothesis E23 : rho_ext r2 r3.
  Hypothesis Back2 : forall sg sj, Inv g1 r2 sg sj -> Inv g1 r1 sg sj.
  Hypothesis Back3 : forall sg sj, Inv g1 r3 sg sj -> Inv g1 r1 sg sj.

  Lemma exec_simple_out : forall p sg,
    match exec_simple p sg with ROk _ _ o => o = [] | RPanic o => o = [] | _ => True end.
  Proof.
    intros p sg. destruct p; cbn [exec_simple]; auto; unfold assign; destruct (eval sg _); auto.
  Qed.

  Lemma loop_step : forall f, (f <= fuel)%nat ->
    (forall f', f = S f' -> forall sg sj, Inv g1 r1 sg sj ->
       Res pcx g1 g1 r3 (loop_go f' l oc post body sg) (jexec f' W sj)) ->
    forall sg sj, Inv g1 r1 sg sj -> Res pcx g1 g1 r3 (loop_go f l oc post body sg) (jexec f W sj).
  Proof.
    intros f Hle REC sg sj HI. unfold loop_go, W. rewrite jexec_while, jexec_list_app.
    set (GI := loop_iter f l oc post body sg).
    set (WL := fun (r : sres (store jval)) =>
      match r with
      | ROk g0 s1 o1 =>
          match g0 with
          | SBrk t => if catches l t then ROk SNormal s1 o1 else ROk g0 s1 o1
          | _ => if match g0 with SCont t => catches l t | _ => true end then
                   match f with O => ROOF | S f' => prepend o1 (jexec f' (JSWhile l (jc ++ jb ++ jp)) s1) end
                 else ROk g0 s1 o1
          end
      | RPanic o => RPanic o
      | ROOF => ROOF
      | RStuck => RStuck
      end).
    assert (ITER : forall sj1, Inv g1 r1 sg sj1 -> Res pcx g1 g1 r3 GI (WL (jexec_list f (jb ++ jp) sj1))).
    { intros sj1 HI1. unfold GI, WL, loop_iter. rewrite jexec_list_app.
      pose proof (Hbody f Hle sg sj1 HI1) as B.
      destruct (exec f body sg) as [gsig s2 o2|o2| |] eqn:EB; cbn [Res] in B; try contradiction.
      - destruct gsig as [|t|t].
        + (* normal completion of the body *)
          destruct B as [sj2 [-> HI2]].
          destruct (is_branch (last_stmt body)) eqn:LB.
          * pose proof (last_branch_not_normal body f sg LB) as N. rewrite EB in N. discriminate.
          * rewrite (exec_simple_eq f post s2 Hpost_simple).
            assert (HI2' : Inv g1 r2 s2 sj2) by (eapply Inv_incl; eauto).
            specialize (Hpost f s2 sj2 HI2').
            destruct (exec_simple post s2) as [[| |] s3 o3|o3| |]; try contradiction.
            -- destruct Hpost as [-> [sj3 [JP HI3]]]. rewrite JP. cbn [prepend].
               destruct f as [|f']. exact Logic.I.
               rewrite exec_for_skip. apply Res_prepend. apply (REC f' eq_refl). apply Back3. exact HI3.
            -- destruct Hpost as [-> JP]. rewrite JP. reflexivity.
        + (* break *)
          destruct B as [sj2 [-> HI2]].
          assert (HI3 : Inv g1 r3 s2 sj2) by (eapply Inv_ext; eauto).
          destruct (catches l t); cbn [Res]; exists sj2; auto.
        + (* continue *)
          unfold pcx' in B. rewrite find_post_cons, find_env_cons in B.
          destruct (catches l t) eqn:C; rewrite ?C in B.
          * rewrite (exec_simple_eq f post s2 Hpost_simple).
            pose proof (exec_simple_out post s2) as O3.
            destruct (exec_simple post s2) as [[| |] s3 o3|o3| |]; try contradiction.
            -- subst o3. destruct B as [sj3 [-> HI3]]. rewrite C.
               destruct f as [|f']. exact Logic.I.
               rewrite exec_for_skip, app_nil_r. apply Res_prepend. apply (REC f' eq_refl). apply Back2. exact HI3.
            -- subst o3. rewrite B. cbn [prepend]. rewrite app_nil_r. reflexivity.
          * cbn [Res].
            destruct (exec_simple (find_post (cx_of pcx) t) s2) as [[| |] s3 o3|o3| |]; try contradiction.
            -- destruct B as [sj3 [-> HI3]]. rewrite C. exists sj3. split. reflexivity. eapply Inv_ext; eauto.
            -- rewrite B. reflexivity.
      - rewrite B. reflexivity.
      - exact Logic.I. }
    destruct oc as [ce|].
    - destruct Hcond as [je [Ejc CS]]. rewrite Ejc at 1. rewrite jexec_list_single, jexec_if. cbn [jeval].
      specialize (CS sg sj HI). destruct (eval sg ce) as [[z|[|]]| |]; try contradiction.
      + destruct CS as [sj1 [-> HI1]]. cbn [js_un negb exec_else]. rewrite prepend_nil.
        unfold WL in ITER. apply ITER. exact HI1.
      + destruct CS as [sj1 [-> HI1]]. cbn [js_un negb]. rewrite jexec_list_single, jexec_break.
        cbn [catches Res]. exists sj1. split. reflexivity. eapply Inv_ext; [|exact HI1]. eapply rho_ext_trans; eauto.
      + rewrite CS. reflexivity.
    - rewrite Hcond at 1. rewrite jexec_list_nil, prepend_nil.
      unfold WL in ITER. apply ITER. exact HI.
  Qed.

  Lemma loop_sim : forall f, (f <= fuel)%nat -> forall sg sj, Inv g1 r1 sg sj ->
    Res pcx g1 g1 r3 (loop_go f l oc post body sg) (jexec f W sj).
  Proof.
    induction f as [|f IHf]; intros Hle sg sj HI; apply loop_step; auto.
    - intros f' E; discriminate.
    - intros f' E. inversion E; subst. intros. apply IHf; auto. lia.
  Qed.
End Loop.
